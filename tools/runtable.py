#!/usr/bin/env python3
"""Markdown table of the last full runs: quick (tools/runall summary) and thorough (summaries given as arguments)."""
import re, sys
def parse(path):
    out = {}
    for line in open(path):
        m = re.match(r"(C\d\d) exit=(\d+) .*?states=(\d+) transitions=(\d+) traces=(\d+) nontrivial=(\d+) known=(\d+) new=(\d+) drift=(\d+) wall=([\d.]+)s", line)
        if m:
            out[m.group(1)] = dict(rc=m.group(2), states=int(m.group(3)), traces=int(m.group(5)), nontriv=int(m.group(6)),
                                   known=int(m.group(7)), new=int(m.group(8)), drift=int(m.group(9)), wall=float(m.group(10)))
    return out
q = parse(sys.argv[1])
t = {}
for p in sys.argv[2:]:
    t.update(parse(p))
print("| id | quick: exit | TLC states | traces | non-trivial | known-finding hits | drift | wall | thorough: exit | TLC states | traces | wall |")
print("|---|---|---|---|---|---|---|---|---|---|---|---|")
for k in sorted(set(q) | set(t)):
    a, b = q.get(k), t.get(k)
    print("| %s | %s | %s | %s | %s | %s | %s | %s | %s | %s | %s | %s |" % (
        k, a and a["rc"], a and a["states"], a and a["traces"], a and a["nontriv"], a and a["known"], a and a["drift"],
        a and "%.0f s" % a["wall"], b and b["rc"], b and b["states"], b and b["traces"], b and "%.0f s" % b["wall"]))
