#!/venv/bin/python
"""Print the markdown table of seeded changes (seeded/<id>/meta.json, verification.txt, detection.txt)."""
import json, os, re, glob
rows = []
for d in sorted(glob.glob("/verif/seeded/*_C*")):
    sid = os.path.basename(d)
    try:
        m = json.load(open(os.path.join(d, "meta.json")))
    except Exception:
        continue
    ver = open(os.path.join(d, "verification.txt")).read() if os.path.exists(os.path.join(d, "verification.txt")) else ""
    det = open(os.path.join(d, "detection.txt")).read() if os.path.exists(os.path.join(d, "detection.txt")) else ""
    demo_ok = "demo on unchanged tree: exit=0" in ver and "demo with the change:   exit=1" in ver
    tests_ok = "269 passed" in ver or ("2 failed" in ver and "passed" in ver) or "test_gradient_descent_lc" in ver
    # last verdict per check in detection.txt (fall back to verification.txt)
    verdict = {}
    for src in (ver, det):
        cur = None
        for line in src.splitlines():
            mm = re.search(r"\./check (C\d\d)", line)
            if mm:
                cur = mm.group(1); verdict.setdefault(cur, "passed"); verdict[cur] = "passed"
                continue
            if cur and ("VIOLATION" in line or "signature:" in line):
                verdict[cur] = "CAUGHT"
            if cur and "MACHINERY" in line:
                verdict[cur] = "machinery"
            if cur and "exit=1" in line and verdict[cur] != "CAUGHT":
                verdict[cur] = "machinery"          # exit 1 without a VIOLATION line: the harness crashed
    caught = [k for k, v in verdict.items() if v == "CAUGHT"]
    missed = [k for k, v in verdict.items() if v != "CAUGHT"]
    summ = re.sub(r"\s+", " ", str(m.get("summary", ""))).replace("|", "/")[:230]
    rows.append("| %s | %s | %s | %s | %s | %s |" % (sid, m.get("property", "?"), summ, "yes" if demo_ok else "?",
                                                    ", ".join(sorted(caught)) or "-", ", ".join(sorted(missed)) or "-"))
print("| seed | property | change (abridged) | demo fails with / passes without | caught by (quick tier) | ran without alarm |")
print("|---|---|---|---|---|---|")
print("\n".join(rows))
