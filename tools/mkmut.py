#!/venv/bin/python
"""tools/mkmut.py <name> <file> <old> <new> : create seeded/own/<name>.diff from a one-substitution mutant of /repo HEAD
(made in a scratch worktree; /repo is not touched)."""
import subprocess, sys, os, tempfile, shutil
name, rel, old, new = sys.argv[1:5]
wt = tempfile.mkdtemp(prefix="verif_mk_", dir="/tmp"); os.rmdir(wt)
subprocess.check_call(["git", "-C", "/repo", "worktree", "add", "-q", "--detach", wt, "HEAD"])
try:
    p = os.path.join(wt, rel); s = open(p).read()
    if s.count(old) != 1:
        sys.exit("pattern occurs %d times in %s" % (s.count(old), rel))
    open(p, "w").write(s.replace(old, new))
    d = subprocess.check_output(["git", "-C", wt, "diff"]).decode()
    open("/verif/seeded/own/%s.diff" % name, "w").write(d)
    print("wrote", name, len(d.splitlines()), "lines")
finally:
    subprocess.call(["git", "-C", "/repo", "worktree", "remove", "--force", wt])
    shutil.rmtree(wt, ignore_errors=True)
