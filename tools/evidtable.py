#!/venv/bin/python
"""Print one markdown line per property from evidence/<ID>.json (tier, states, traces, non-trivial, evaluations, wall)."""
import json, glob, os
print("| id | tier | TLC states (all runs) | traces validated against the implementation | distinct non-trivial | evaluations | known findings matched | drift | wall |")
print("|---|---|---|---|---|---|---|---|---|")
for f in sorted(glob.glob("/verif/evidence/C*.json")):
    e = json.load(open(f)); c = e["coverage"]
    print("| %s | %s | %s | %s | %s | %s | %s | %s | %.0f s |" % (
        e["property_id"], e["tier"], c.get("states"), c.get("traces_validated_against_impl"), c.get("distinct_nontrivial"),
        c.get("evaluations"), c.get("known_findings_matched"), c.get("drift"), e.get("wall_s", 0)))
