---------------------------- MODULE AccessTrace ----------------------------
(* C16 trace validation: the observed outcome of solve() and of every access vs Access!Expected.              *)
EXTENDS Access, IOUtils
Traces == ndJsonDeserialize(IOEnv.TRACE_FILE)
VARIABLES tid, bad
T == Traces[tid]
Clauses(t) ==
  LET ret == IF t.mode = "badopt" THEN {}
             ELSE IF SolveReturns(t.scn) = "n/a" \/ t.solve = SolveReturns(t.scn) THEN {}
             ELSE {<<0, "solve-outcome", t.solve>>}
      acc == {<<k, t.h[k].o \o "." \o t.h[k].a, t.out[k]>> :
                k \in {j \in 1..Len(t.h) : t.h[j].o # "solve" /\ t.out[j] # Expected(t.scn, t.h[j].o, t.h[j].a)}}
      opt == {<<k, "invalid-option-accepted:" \o t.h[k].a \o "=" \o t.h[k].v, t.out[k]>> :
                k \in {j \in 1..Len(t.h) : t.h[j].o = "solve" /\ t.out[j] \in {"num", "none"}}}
  IN ret \cup acc \cup opt
TInit == tid \in 1..Len(Traces) /\ bad = Clauses(Traces[tid]) /\ scn = "fresh" /\ hist = <<>> /\ mode = "access"
TNext == UNCHANGED <<tid, bad, scn, hist, mode>>
Report == PrintT(ToJson(<<"V", tid, bad>>))
=============================================================================
