--------------------------- MODULE AlgebraTrace ---------------------------
(* C06 trace validation: every step of a program executed on the real Point / Expression / Constraint      *)
(* classes is re-derived by Algebra!Apply from the previously OBSERVED objects.  Equality of normal forms  *)
(* is equality of meaning under every assignment, so a mismatch is a violation of the property (no drift). *)
EXTENDS Algebra, IOUtils
Traces == ndJsonDeserialize(IOEnv.TRACE_FILE)
VARIABLES tid, l, obs, bad
T == Traces[tid]
tvars == <<tid, l, obs, bad, objs, hist, done>>
ObsInit(t) == [i \in 1..Len(t.init) |-> UnFlat(t.init[i])]
TInit == /\ tid \in 1..Len(Traces)
         /\ l = 1
         /\ obs = ObsInit(Traces[tid])
         /\ bad = IF ObsInit(Traces[tid]) = InitObjs THEN {} ELSE {<<0, "init", "initial-objects">>}
         /\ objs = <<>> /\ hist = <<>> /\ done = FALSE
Step == /\ l <= Len(T.h)
        /\ LET o == T.h[l]
               got == UnFlat(T.res[l])
               expect == Apply(o, obs)
               c1 == IF (expect.k = "raises") = (got.k = "raises") THEN {}
                     ELSE {<<l, o.op, IF expect.k = "raises" THEN "no-raise-on-undocumented-operand" ELSE "raises-on-documented-operand">>}
               \* 'a == b' denotes {a - b = 0} = {b - a = 0}: Python evaluates 'scalar == E' as E.__eq__(scalar),
               \* so an equality is accepted up to the sign of its expression (an inequality is not)
               same == \/ expect = got
                       \/ /\ expect.k = "co" /\ got.k = "co" /\ expect.sense = "eq" /\ got.sense = "eq"
                          /\ got.e = ENeg(expect.e)
               c2 == IF expect.k = "raises" \/ got.k = "raises" \/ same THEN {}
                     ELSE {<<l, o.op, IF expect.k # got.k THEN "result-kind"
                                      ELSE IF expect.sense # got.sense THEN "constraint-sense" ELSE "result-meaning">>}
               c3 == IF T.chg[l] = <<>> THEN {} ELSE {<<l, o.op, "operand-mutated">>}
           IN /\ bad' = bad \cup c1 \cup c2 \cup c3
              /\ obs' = Append(obs, got)
        /\ l' = l + 1
        /\ UNCHANGED <<tid, objs, hist, done>>
TSpec == TInit /\ [][Step]_tvars
Report == l = Len(T.h) + 1 => PrintT(ToJson(<<"V", tid, bad>>))
=============================================================================
