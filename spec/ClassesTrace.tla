---------------------------- MODULE ClassesTrace ----------------------------
(* C04 trace validation.  A trace of kind "cons" is what ONE real class generated for ONE declaration      *)
(* history (harness/drv_c04.py: samples, class constraints, class LMIs as normal forms).  The verdict is    *)
(* computed on the OBSERVED samples:                                                                      *)
(*   scalar   {normalised generated scalar constraints} \ {trivial} = Classes!ExpNFs (documented conditions *)
(*            on every required pair of samples); normalisation: positive scaling of an inequality, any    *)
(*            non-zero scaling of an equality                                                             *)
(*   lmi      generated class LMIs = Classes!ExpLMIs up to a simultaneous row/column permutation, compared  *)
(*            on symmetric parts, up to a positive factor                                                 *)
(*   samples  stationary flag <=> zero subgradient; the classes that need a stationary sample have one     *)
(* The comparison of the observed samples with ClassHist!Final (the model of what is recorded) is DRIFT:   *)
(* it does not enter the property.                                                                        *)
(* A trace of kind "perm" carries the values returned by the real solve of one small model declared in all *)
(* orders (end-to-end clause): all finite values agree within Tol, or all solves return None.             *)
EXTENDS ClassHist, IOUtils
Traces == ndJsonDeserialize(IOEnv.TRACE_FILE)
Tol == 100                        \* 1e-4 in fixed-point units of 1e-6
VARIABLES tid, stage, bad
tvars == <<tid, stage, bad, cls, hist, order>>
T == Traces[tid]

Smp(j) == [x |-> RV(j.x), g |-> RV(j.g), f |-> DE(j.f), stat |-> j.stat = 1,
           gb |-> [k \in 1..Len(j.gb) |-> RV(j.gb[k])], name |-> j.name]
ObsP(t) == [k \in 1..Len(t.P) |-> <<t.P[k][1], t.P[k][2]>>]
ObsCtx(t) == [ne |-> t.ne, P |-> ObsP(t), S |-> [k \in 1..Len(t.samples) |-> Smp(t.samples[k])],
              TS |-> [k \in 1..Len(t.tsamples) |-> Smp(t.tsamples[k])], v |-> RV(t.v)]
ObsNF(t, k) == NormForm(DE(t.cons[k].e), t.cons[k].sense)
ObsNFs(t) == {ObsNF(t, k) : k \in 1..Len(t.cons)} \ {<<"trivial">>}
ObsLMI(t, m) == [i \in 1..t.lmis[m].n |-> [j \in 1..t.lmis[m].n |-> DE(t.lmis[m].e[i][j])]]

\* ---- clauses -----------------------------------------------------------------------------------------
SampleClauses(t) ==
  LET C == ObsCtx(t)  S == C.S IN
     (IF t.exc = "" THEN {} ELSE {<<"raises", t.exc, "-", 1>>})
  \cup (IF \A i \in 1..Len(S) : S[i].stat = VIsZero(S[i].g) THEN {} ELSE {<<"stationary-flag", "-", "-", 1>>})
  \cup (IF t.exc = "" /\ t.cls \in AutoStat /\ StatIdx(S) = {} THEN {<<"no-stationary-sample", "-", "-", 1>>} ELSE {})
  \cup (IF t.cls = "SmoothStronglyConvexQuadraticFunction" /\ Cardinality(StatIdx(S)) # 1
        THEN {<<"no-unique-stationary-sample", "-", "-", Cardinality(StatIdx(S))>>} ELSE {})
\* drift: the model of the recorder (ClassHist!Final) against the observed samples, leaf numbering included
StripName(S) == [i \in 1..Len(S) |-> [S[i] EXCEPT !.name = ""]]
DriftClauses(t) ==
  IF t.exc # "" THEN {} ELSE
  LET C == ObsCtx(t)  st == Final(t.cls, C.P, t.h, t.np, t.ne) IN
     (IF StripName(C.S) = st.S /\ StripName(C.TS) = st.TS THEN {} ELSE {<<"drift", "samples", "-", Len(C.S)>>})
  \cup (IF C.v = VOf(t.cls, C.P, t.np) THEN {} ELSE {<<"drift", "v", "-", 0>>})
ScalarClauses(t) ==
  LET C == ObsCtx(t)
      E == ExpRecs(t.cls, C)
      EN == {r.nf : r \in E}
      O == ObsNFs(t)
      M == {r \in E : r.nf \notin O}
      X == {k \in 1..Len(t.cons) : ObsNF(t, k) # <<"trivial">> /\ ObsNF(t, k) \notin EN}
  IN {<<"missing", r.cond, r.kind, Cardinality({s \in M : s.cond = r.cond /\ s.kind = r.kind})>> : r \in M}
     \cup {<<"extra", t.cons[k].tab, "-", Cardinality({m \in X : t.cons[m].tab = t.cons[k].tab})>> : k \in X}
LmiClauses(t) ==
  LET C == ObsCtx(t)
      A == ExpLMIs(t.cls, C)
      nO == Len(t.lmis)
      hitA == {m \in 1..Len(A) : \E o \in 1..nO : SameLMI(A[m], ObsLMI(t, o))}
      hitO == {o \in 1..nO : \E m \in 1..Len(A) : SameLMI(A[m], ObsLMI(t, o))}
  IN (IF nO = Len(A) THEN {} ELSE {<<"lmi-count", "-", "-", nO>>})
     \cup {<<"lmi-missing", "lmi", "-", m>> : m \in (1..Len(A)) \ hitA}
     \cup {<<"lmi-extra", "lmi", "-", o>> : o \in (1..nO) \ hitO}
\* end-to-end: t.st[k] \in {"ok", "none", "fail:.."}, t.val[k] fixed point
PermClauses(t) ==
  LET I == {k \in 1..Len(t.st) : t.st[k] \in {"ok", "none"}}
      ok == {k \in I : t.st[k] = "ok"}
  IN (IF ok # {} /\ ok # I THEN {<<"order-dependent", "none-vs-value", "-", Cardinality(I \ ok)>>} ELSE {})
     \cup (IF \A a, b \in ok : t.val[a] - t.val[b] <= Tol THEN {}
           ELSE {<<"order-dependent", "value", "-", Cardinality(ok)>>})

\* ---- state machine: one trace, one stage per step ---------------------------------------------------
TInit == /\ tid \in 1..Len(Traces)
         /\ stage = IF Traces[tid].kind = "perm" THEN "perm" ELSE "samples"
         /\ bad = {}
         /\ cls = "-" /\ hist = <<>> /\ order = <<>>
StSamples == stage = "samples" /\ bad' = bad \cup SampleClauses(T) \cup DriftClauses(T)
             /\ stage' = (IF T.exc = "" THEN "scalar" ELSE "done")
StScalar == stage = "scalar" /\ bad' = bad \cup ScalarClauses(T) /\ stage' = "lmi"
StLmi == stage = "lmi" /\ bad' = bad \cup LmiClauses(T) /\ stage' = "done"
StPerm == stage = "perm" /\ bad' = bad \cup PermClauses(T) /\ stage' = "done"
TNext == (StSamples \/ StScalar \/ StLmi \/ StPerm) /\ UNCHANGED <<tid, cls, hist, order>>
TSpec == TInit /\ [][TNext]_tvars
\* the verdict is printed as one JSON line (TLC wraps long tuples over several lines); parsed by core.verdicts
Report == stage = "done" => PrintT(ToJson(<<"V", tid, bad>>))
=============================================================================
