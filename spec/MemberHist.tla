----------------------------- MODULE MemberHist -----------------------------
(* C03.  Declaration histories of ONE leaf function / operator f: the order and kind of the sampling calls   *)
(* a user program can make before the class constraints are generated.  Event number k produces sample k.    *)
(*   O        f.oracle(x), x a fresh leaf point                                                               *)
(*   S        f.stationary_point()                                                                            *)
(*   X        f.fixed_point()                                                                                 *)
(*   R i      f.oracle(x_i) again, at the point of event i (a new subgradient for the non-differentiable       *)
(*            classes, the stored sample for the differentiable ones)                                         *)
(*   C i j    f.oracle((x_i + x_j) / 2), i < j                                                                *)
(*   G i      f.oracle(x_i - g_i / 2)       (a gradient / forward step from sample i)                         *)
(*   D i      f.oracle(2 * x_i)             (a combination of evaluated points whose weights do not sum to 1)  *)
(*   B i j    f.oracle(x_i - get_block(g_i, j) / 2)   (a block-coordinate step; only if NBlocks > 1)          *)
(*   T        f.T.oracle(u), u a fresh leaf point          (adjoint of a LinearOperator; only if HasT)        *)
(*   U i      f.T.oracle(g_i)                              (A^T A x_i; only if HasT)                          *)
(*   W i      f.oracle(v_i), v_i the value of adjoint sample i   (A A^T u_i; only if HasT)                    *)
(* Every behaviour prefix of length 1..MaxLen is exported (hist) and replayed on the real class.            *)
EXTENDS Integers, Sequences, TLC, Json
CONSTANTS MaxLen, HasT, NBlocks
VARIABLE hist
Ev(e, i, j) == [e |-> e, i |-> i, j |-> j]
IsAdj(ev) == ev.e \in {"T", "U"}
Prim(h) == {k \in 1..Len(h) : ~IsAdj(h[k])}           \* samples of f itself
Adj(h) == {k \in 1..Len(h) : IsAdj(h[k])}             \* samples of the adjoint
Cand(h) ==
       {Ev("O", 0, 0), Ev("S", 0, 0), Ev("X", 0, 0)}
  \cup {Ev("R", i, 0) : i \in Prim(h)}
  \cup {Ev("G", i, 0) : i \in Prim(h)}
  \cup {Ev("D", i, 0) : i \in Prim(h)}
  \cup {Ev("C", q[1], q[2]) : q \in {w \in Prim(h) \X Prim(h) : w[1] < w[2]}}
  \cup (IF NBlocks > 1 THEN {Ev("B", i, j) : i \in Prim(h), j \in 0..(NBlocks - 1)} ELSE {})
  \cup (IF HasT THEN {Ev("T", 0, 0)} \cup {Ev("U", i, 0) : i \in Prim(h)} \cup {Ev("W", i, 0) : i \in Adj(h)} ELSE {})
Init == hist = <<>>
Next == Len(hist) < MaxLen /\ \E e \in Cand(hist) : hist' = Append(hist, e)
Spec == Init /\ [][Next]_hist
\* every reference points to an earlier sample of the right kind
WellFormed == \A k \in 1..Len(hist) :
   LET ev == hist[k] IN
   /\ ev.e \in {"O", "S", "X", "T"} => ev.i = 0 /\ ev.j = 0
   /\ ev.e \in {"R", "G", "U", "B", "D"} => ev.i \in 1..(k - 1) /\ ~IsAdj(hist[ev.i])
   /\ ev.e = "C" => ev.i \in 1..(k - 1) /\ ev.j \in (ev.i + 1)..(k - 1) /\ ~IsAdj(hist[ev.i]) /\ ~IsAdj(hist[ev.j])
   /\ ev.e = "W" => ev.i \in 1..(k - 1) /\ IsAdj(hist[ev.i])
   /\ ev.e = "B" => ev.j \in 0..(NBlocks - 1)
Emit == Len(hist) >= 1 => PrintT(ToJson([h |-> hist]))
=============================================================================
