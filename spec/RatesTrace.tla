---------------------------- MODULE RatesTrace ----------------------------
(* C10, code -> spec.  Every recorded pair (pepit_tau, theoretical_tau) of a worked example run on the real   *)
(* code at a grid point of Rates!Instances (harness/drv_c10.py, ndjson named by TRACE_FILE) is checked clause  *)
(* by clause against the docstring's closed form evaluated in exact rationals:                                *)
(*   value                    the example returns a value inside its documented range                         *)
(*   rate                     tight:  |pepit - Theory| <= 1e-3 max(|Theory|, 1e-3) + solver tolerance          *)
(*                            upper:  pepit <= Theory (1 + 1e-3) + 1e-5 + solver tolerance   (lower: dually)   *)
(*   doc-formula              the example's own theoretical_tau equals the docstring formula                  *)
(*   equivalent-formulation   the complexified variants return the same value (1e-3 relative)                 *)
(* cfg: TraceMode = TRUE, INIT TInit, NEXT Step, INVARIANT Report (one JSON verdict line per trace).          *)
EXTENDS Rates
TSpec == TInit /\ [][Step]_vars
=============================================================================
