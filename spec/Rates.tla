------------------------------- MODULE Rates -------------------------------
(* C10.  "Shipped examples agree with their published closed-form rates on the whole documented range."      *)
(*                                                                                                          *)
(* This property compares floating-point numbers over continuous parameter ranges; the model checker        *)
(* contributes an ORACLE and an ENUMERATOR only (claimed level: exploration).                                *)
(*   Table     one entry per shipped example whose docstring states a rate: tight / upper / lower flag,      *)
(*             the closed form transcribed FROM THE DOCSTRING when it is a rational function of the           *)
(*             parameters (form "rat"), otherwise only the example's own returned pair is compared ("own"), *)
(*             and the documented validity range as a predicate on rational parameters (InRange).            *)
(*   Grid      TLC enumerates a parameter grid inside every documented range and prints it (spec -> code).   *)
(*   Check     (code -> spec) for every recorded pair (pepit_tau, theoretical_tau), fixed point 1e-6:        *)
(*             tight / upper-bound / lower-bound against the closed form, doc-formula (the example's own     *)
(*             theoretical_tau equals the docstring formula), equivalent-formulation (complexified variants   *)
(*             return the same value), no-value / no-finite-value (the example fails, or its model is        *)
(*             certified unbounded / infeasible, inside its documented range).                               *)
(* Parameters that enter a closed form through a square root are enumerated by their root ("_s" = sqrt of    *)
(* the condition number, "_r" = sqrt(mu)); the derived argument of the example is printed with the grid.     *)
EXTENDS Rat, Sequences, FiniteSets, TLC, Json, IOUtils
CONSTANTS TraceMode,
          Dense          \* TRUE (thorough tier): one more candidate value for the commonest real parameters
R(n, d) == Norm(n, d)
RECURSIVE RPow(_, _)
RPow(r, n) == IF n = 0 THEN One ELSE RMul(r, RPow(r, n - 1))
KV(k, r) == [k |-> k, n |-> r[1], d |-> r[2]]
Has(a, k) == \E i \in 1..Len(a) : a[i].k = k
P(a, k) == LET i == CHOOSE i \in 1..Len(a) : a[i].k = k IN <<a[i].n, a[i].d>>
N(a, k) == P(a, k)[1]            \* integer parameter
\* thorough tier: one more candidate value for the commonest real parameters (small denominators: the closed forms are
\* evaluated in 32-bit rationals)
Extra(k) == CASE k = "gamma" -> {R(3, 4)} [] k = "mu" -> {R(1, 4)} [] k = "alpha" -> {R(3, 2)} [] k = "epsilon" -> {R(1, 4)}
              [] k = "zeta" -> {Half} [] k = "lam" -> {R(1, 4)} [] k = "_s" -> {R(3, 1)} [] k = "_r" -> {Two} [] k = "t" -> {Two}
              [] OTHER -> {}
Densify(k, S) == IF Dense /\ ~\E r \in S : r[2] = 1 /\ k \in {"t"} /\ r[1] > 2 THEN S \cup Extra(k) ELSE S
RECURSIVE Prod(_)
Prod(spec) == IF spec = <<>> THEN {<<>>} ELSE {<<KV(spec[1][1], r)>> \o rest : r \in Densify(spec[1][1], spec[1][2]), rest \in Prod(Tail(spec))}
Ints(s) == {RI(n) : n \in s}
Lt(a, b) == ~RLeq(b, a)
\* ------------------------------------------------------------------------------------------------ the table
\* <<example id, flag, form, parameter candidates>>;   flag: tight | upper | lower;   form: rat | own
Ls == {Half, One, Two}
Table == <<
 <<"adaptive/polyak_steps_in_distance_to_optimum", "tight", "rat", << <<"L", {One}>>, <<"mu", {R(1, 10), Half}>>, <<"gamma", {Half, One, R(3, 2), Two, R(5, 1)}>> >> >>,
 <<"adaptive/polyak_steps_in_function_value", "tight", "rat", << <<"L", {One}>>, <<"mu", {R(1, 10), Half}>>, <<"gamma", {Half, One, R(5, 4), R(3, 2), R(19, 10)}>> >> >>,
 <<"composite/accelerated_proximal_gradient", "tight", "rat", << <<"mu", {Z}>>, <<"L", Ls>>, <<"n", Ints({1, 2, 4})>> >> >>,
 <<"composite/bregman_proximal_point", "tight", "rat", << <<"gamma", {Half, One, R(3, 1)}>>, <<"n", Ints({1, 2, 4})>> >> >>,
 <<"composite/douglas_rachford_splitting", "tight", "own", << <<"L", {One}>>, <<"alpha", {One}>>, <<"theta", {One}>>, <<"n", Ints({1, 2, 3, 5})>> >> >>,
 <<"composite/douglas_rachford_splitting_contraction", "tight", "rat", << <<"mu", {R(1, 10), Half}>>, <<"L", Ls>>, <<"alpha", {Half, One, R(3, 1)}>>, <<"theta", {One}>>, <<"n", Ints({1, 2})>> >> >>,
 <<"composite/frank_wolfe", "upper", "rat", << <<"L", Ls>>, <<"D", {Half, One, Two}>>, <<"n", Ints({1, 2, 4})>> >> >>,
 <<"composite/improved_interior_algorithm", "upper", "rat", << <<"L", {One}>>, <<"mu", {One}>>, <<"c", {One, Two}>>, <<"lam", {One, Half}>>, <<"n", Ints({1, 3})>> >> >>,
 <<"composite/no_lips_in_bregman_divergence", "upper", "rat", << <<"L", Ls>>, <<"gamma", {R(1, 4), Half, One}>>, <<"n", Ints({2, 3})>> >> >>,
 <<"composite/no_lips_in_function_value", "tight", "rat", << <<"L", Ls>>, <<"gamma", {R(1, 4), Half, One}>>, <<"n", Ints({1, 3})>> >> >>,
 <<"composite/proximal_gradient", "tight", "rat", << <<"L", {One}>>, <<"mu", {Z, R(1, 10), Half}>>, <<"gamma", {R(1, 4), One, R(3, 2), R(19, 10)}>>, <<"n", Ints({1, 2})>> >> >>,
 <<"composite/proximal_gradient_quadratics", "tight", "rat", << <<"L", {One}>>, <<"mu", {R(1, 10), Half}>>, <<"gamma", {R(1, 4), One, R(3, 2)}>>, <<"n", Ints({1, 2})>> >> >>,
 <<"continuous_time/accelerated_gradient_flow_convex", "tight", "rat", << <<"t", {Half, One, R(7, 2)}>> >> >>,
 <<"continuous_time/accelerated_gradient_flow_strongly_convex", "tight", "rat", << <<"_r", {R(3, 10), Half, One}>>, <<"psd", Ints({0, 1})>> >> >>,
 <<"continuous_time/gradient_flow_convex", "tight", "rat", << <<"t", {Half, One, R(5, 2)}>> >> >>,
 <<"continuous_time/gradient_flow_strongly_convex", "tight", "rat", << <<"mu", {R(1, 10), Half, One, Two}>> >> >>,
 <<"fixed_point/halpern_iteration", "tight", "rat", << <<"n", Ints({1, 2, 5, 10})>> >> >>,
 <<"fixed_point/inconsistent_halpern_iteration", "upper", "own", << <<"n", Ints({1, 3, 6})>> >> >>,
 <<"fixed_point/krasnoselskii_mann_constant_step_sizes", "upper", "rat", << <<"n", Ints({1, 3})>>, <<"gamma", {Half, R(3, 4), R(9, 10), R(19, 20), One}>> >> >>,
 <<"fixed_point/optimal_contractive_halpern_iteration", "tight", "rat", << <<"n", Ints({1, 3})>>, <<"gamma", {One, R(11, 10), R(3, 2), Two}>> >> >>,
 <<"inexact_proximal/accelerated_inexact_forward_backward", "upper", "rat", << <<"L", {One, R(13, 10)}>>, <<"zeta", {R(1, 10), R(9, 20), R(9, 10)}>>, <<"n", Ints({1, 3})>> >> >>,
 <<"inexact_proximal/partially_inexact_douglas_rachford_splitting", "tight", "rat", << <<"mu", {R(1, 4), Half}>>, <<"L", {One, Two}>>, <<"n", Ints({1, 2})>>, <<"gamma", {One, Two}>>, <<"sigma", {Z, R(1, 4), Half}>> >> >>,
 <<"inexact_proximal/relatively_inexact_proximal_point_algorithm", "upper", "own", << <<"n", Ints({1, 3})>>, <<"gamma", {One, R(2, 1)}>>, <<"sigma", {Z, R(3, 10), R(4, 5)}>> >> >>,
 <<"low_dimensional/frank_wolfe", "upper", "rat", << <<"L", {One}>>, <<"D", {One}>>, <<"n", Ints({1, 3})>> >> >>,
 <<"low_dimensional/gradient_descent", "upper", "rat", << <<"L", {One}>>, <<"gamma", {Half, One}>>, <<"n", Ints({1, 3})>> >> >>,
 <<"low_dimensional/halpern_iteration", "tight", "rat", << <<"n", Ints({1, 3})>> >> >>,
 <<"low_dimensional/inexact_gradient", "tight", "rat", << <<"L", {One}>>, <<"mu", {R(1, 10)}>>, <<"epsilon", {R(1, 10), Half}>>, <<"n", Ints({1, 2})>> >> >>,
 <<"low_dimensional/optimized_gradient", "tight", "own", << <<"L", {One, R(3, 1)}>>, <<"n", Ints({1, 3})>> >> >>,
 <<"low_dimensional/proximal_point", "tight", "rat", << <<"alpha", {One, R(11, 5)}>>, <<"n", Ints({2, 4})>> >> >>,
 <<"monotone/accelerated_proximal_point", "tight", "rat", << <<"alpha", {Half, Two}>>, <<"n", Ints({1, 2, 5})>> >> >>,
 <<"monotone/douglas_rachford_splitting", "tight", "own", << <<"L", {One, Half}>>, <<"mu", {R(1, 10), One}>>, <<"alpha", {Half, R(13, 10)}>>, <<"theta", {Half, R(9, 10), R(3, 2)}>> >> >>,
 <<"monotone/optimal_strongly_monotone_proximal_point", "tight", "rat", << <<"n", Ints({1, 2, 4})>>, <<"mu", {Z, R(1, 20), Half, Two}>> >> >>,
 <<"monotone/proximal_point", "tight", "rat", << <<"alpha", {Half, R(11, 5)}>>, <<"n", Ints({1, 2, 5})>> >> >>,
 <<"nonconvex/gradient_descent", "upper", "rat", << <<"L", Ls>>, <<"gamma", {R(1, 4), Half, One, Two}>>, <<"n", Ints({1, 2, 5})>> >> >>,
 <<"nonconvex/no_lips_1", "tight", "rat", << <<"L", {One, Two}>>, <<"gamma", {R(1, 4), Half}>>, <<"n", Ints({1, 3})>> >> >>,
 <<"nonconvex/no_lips_2", "tight", "rat", << <<"L", {One, Two}>>, <<"gamma", {R(1, 4), Half}>>, <<"n", Ints({1, 3})>> >> >>,
 <<"potential/accelerated_gradient_method", "upper", "rat", << <<"L", Ls>>, <<"gamma", {Half, One}>>, <<"lam", {Z, One, R(10, 1)}>> >> >>,
 <<"potential/gradient_descent_lyapunov_1", "upper", "rat", << <<"L", Ls>>, <<"gamma", {Half, One}>>, <<"n", Ints({0, 1, 10})>> >> >>,
 <<"potential/gradient_descent_lyapunov_2", "upper", "rat", << <<"L", Ls>>, <<"gamma", {Half, One}>>, <<"n", Ints({0, 1, 10})>> >> >>,
 <<"stochastic/point_saga", "upper", "own", << <<"L", {One}>>, <<"mu", {R(1, 100), R(1, 10)}>>, <<"n", Ints({2, 5})>> >> >>,
 <<"stochastic/randomized_coordinate_descent_smooth_convex", "tight", "rat", << <<"L", Ls>>, <<"gamma", {R(1, 4), Half, One}>>, <<"d", Ints({2, 3})>>, <<"t", Ints({1, 4})>> >> >>,
 <<"stochastic/randomized_coordinate_descent_smooth_strongly_convex", "tight", "rat", << <<"L", {One}>>, <<"mu", {R(1, 10), Half}>>, <<"gamma", {R(1, 4), Half, One}>>, <<"d", Ints({2, 3})>> >> >>,
 <<"stochastic/saga", "upper", "rat", << <<"L", {One}>>, <<"mu", {R(1, 10), Half}>>, <<"n", Ints({2, 5})>> >> >>,
 <<"stochastic/sgd", "tight", "own", << <<"L", Ls>>, <<"mu", {R(1, 10), Half}>>, <<"gamma", {Half, One}>>, <<"v", {One}>>, <<"R", {Two, Half}>>, <<"n", Ints({2, 5})>> >> >>,
 <<"stochastic/sgd_overparametrized", "tight", "rat", << <<"L", Ls>>, <<"mu", {R(1, 10), Half}>>, <<"gamma", {Half, One}>>, <<"n", Ints({2, 5})>> >> >>,
 <<"tutorials/gradient_descent_contraction", "tight", "rat", << <<"L", {One}>>, <<"mu", {R(1, 10), Half}>>, <<"gamma", {R(1, 4), One, R(3, 2), R(19, 10)}>>, <<"n", Ints({1, 2})>> >> >>,
 <<"unconstrained/accelerated_gradient_convex", "tight", "rat", << <<"mu", {Z}>>, <<"L", Ls>>, <<"n", Ints({1, 2, 4})>> >> >>,
 <<"unconstrained/accelerated_gradient_strongly_convex", "upper", "rat", << <<"_s", {R(3, 2), Two, R(4, 1)}>>, <<"L", Ls>>, <<"n", Ints({1, 2, 4})>> >> >>,
 <<"unconstrained/accelerated_proximal_point", "upper", "own", << <<"A0", {One, R(5, 1)}>>, <<"gamma0", {Half, One}>>, <<"n", Ints({1, 3})>> >> >>,
 <<"unconstrained/conjugate_gradient", "tight", "own", << <<"L", Ls>>, <<"n", Ints({1, 2})>> >> >>,
 <<"unconstrained/conjugate_gradient_qg_convex", "tight", "rat", << <<"L", Ls>>, <<"n", Ints({1, 2})>> >> >>,
 <<"unconstrained/epsilon_subgradient_method", "upper", "rat", << <<"M", {One, Two}>>, <<"n", Ints({1, 3})>>, <<"gamma", {R(1, 4), Half}>>, <<"eps", {Z, R(1, 10)}>>, <<"R", {One, Two}>> >> >>,
 <<"unconstrained/gradient_descent", "tight", "rat", << <<"L", Ls>>, <<"gamma", {R(1, 10), R(1, 4), Half, One}>>, <<"n", Ints({1, 2, 5})>> >> >>,
 <<"unconstrained/gradient_descent_qg_convex", "lower", "rat", << <<"L", Ls>>, <<"gamma", {R(1, 10), R(1, 4), R(9, 20), Half, One}>>, <<"n", Ints({1, 2, 4})>> >> >>,
 <<"unconstrained/gradient_descent_qg_convex_decreasing", "tight", "own", << <<"L", Ls>>, <<"n", Ints({1, 2, 4})>> >> >>,
 <<"unconstrained/gradient_descent_quadratics", "tight", "rat", << <<"mu", {Z, R(3, 10), One}>>, <<"L", {One, R(3, 1)}>>, <<"gamma", {R(1, 4), One, R(3, 2), Two}>>, <<"n", Ints({1, 2})>> >> >>,
 <<"unconstrained/gradient_descent_silver_stepsize_convex", "upper", "own", << <<"L", Ls>>, <<"n", Ints({1, 3, 7})>> >> >>,
 <<"unconstrained/gradient_descent_silver_stepsize_strongly_convex", "upper", "own", << <<"L", {One, R(3, 1)}>>, <<"mu", {R(1, 10), Half}>>, <<"n", Ints({1, 2, 4})>> >> >>,
 <<"unconstrained/gradient_exact_line_search", "tight", "rat", << <<"L", {One, R(3, 1)}>>, <<"mu", {R(1, 10), Half}>>, <<"n", Ints({1, 2})>> >> >>,
 <<"unconstrained/heavy_ball_momentum", "upper", "rat", << <<"mu", {Z, R(7, 12), R(1, 4)}>>, <<"L", {One}>>, <<"alpha", {R(3, 4), One, R(1, 4)}>>, <<"beta", {Z, R(3, 8), Half, R(3, 4)}>>, <<"n", Ints({1, 2, 3})>> >> >>,
 <<"unconstrained/heavy_ball_momentum_qg_convex", "tight", "rat", << <<"L", Ls>>, <<"n", Ints({1, 2, 5})>> >> >>,
 <<"unconstrained/inexact_accelerated_gradient", "tight", "rat", << <<"L", Ls>>, <<"epsilon", {Z}>>, <<"n", Ints({1, 2, 4})>> >> >>,
 <<"unconstrained/inexact_gradient_descent", "tight", "rat", << <<"L", {One}>>, <<"mu", {R(1, 10), Half}>>, <<"epsilon", {Z, R(1, 10), Half, R(9, 10)}>>, <<"n", Ints({1, 2})>> >> >>,
 <<"unconstrained/inexact_gradient_exact_line_search", "tight", "rat", << <<"L", {One}>>, <<"mu", {R(1, 10), Half}>>, <<"epsilon", {Z, R(1, 10), Half, R(9, 10)}>>, <<"n", Ints({1, 2})>> >> >>,
 <<"unconstrained/information_theoretic_exact_method", "tight", "own", << <<"mu", {Z, R(1, 1000), R(1, 10), Half}>>, <<"L", {One}>>, <<"n", Ints({1, 2, 4})>> >> >>,
 <<"unconstrained/optimized_gradient", "tight", "own", << <<"L", {One, R(3, 1)}>>, <<"n", Ints({1, 2, 4})>> >> >>,
 <<"unconstrained/optimized_gradient_for_gradient", "tight", "own", << <<"L", {One, R(3, 1)}>>, <<"n", Ints({1, 2, 4})>> >> >>,
 <<"unconstrained/proximal_point", "tight", "rat", << <<"gamma", {R(1, 10), One, R(3, 1)}>>, <<"n", Ints({1, 2, 4})>> >> >>,
 <<"unconstrained/robust_momentum", "tight", "rat", << <<"_s", {R(3, 2), Two, R(4, 1)}>>, <<"L", {One}>>, <<"lam", {Z, R(1, 5), Half, One}>> >> >>,
 <<"unconstrained/subgradient_method", "tight", "rat", << <<"M", {One, Two}>>, <<"n", Ints({3, 8})>> >> >>,
 <<"unconstrained/subgradient_method_rsi_eb", "tight", "rat", << <<"mu", {R(1, 10), Half}>>, <<"L", {One}>>, <<"gamma", {R(1, 20), R(1, 10), Half}>>, <<"n", Ints({1, 2})>> >> >>,
 <<"unconstrained/triple_momentum", "upper", "rat", << <<"_s", {R(3, 2), Two, R(4, 1)}>>, <<"L", Ls>>, <<"n", Ints({1, 2, 4})>> >> >> >>
\* examples without any stated rate (nothing to compare): composite/three_operator_splitting, composite/accelerated_douglas_
\* rachford_splitting ("no known guarantee beyond quadratics; not directly comparable"), fixed_point/krasnoselskii_mann_increasing_
\* step_sizes, low_dimensional/{alternate_projections, averaged_projections, dykstra}, monotone/{optimistic_gradient, past_
\* extragradient, three_operator_splitting}, unconstrained/cyclic_coordinate_descent; unconstrained/gradient_descent_lc states a
\* CONJECTURE whose reference value needs a numerical root (fsolve) and whose repository test fails on the pinned tree.
Row(ex) == LET i == CHOOSE i \in 1..Len(Table) : Table[i][1] = ex IN Table[i]
\* ---- documented validity ranges (docstrings); parameters outside are not part of the claim
GL(a) == RMul(P(a, "gamma"), P(a, "L"))
InRange(ex, a) ==
  CASE ex \in {"adaptive/polyak_steps_in_distance_to_optimum", "adaptive/polyak_steps_in_function_value"} -> Lt(P(a, "mu"), P(a, "L"))
    [] ex \in {"composite/no_lips_in_bregman_divergence", "composite/no_lips_in_function_value"} -> RLeq(GL(a), One)       \* "for any gamma <= 1/L"
    [] ex \in {"composite/proximal_gradient", "composite/proximal_gradient_quadratics", "tutorials/gradient_descent_contraction"} ->
          Lt(P(a, "mu"), P(a, "L")) /\ RLeq(GL(a), Two)
    [] ex = "fixed_point/krasnoselskii_mann_constant_step_sizes" -> RLeq(Half, P(a, "gamma")) /\ RLeq(P(a, "gamma"), One)  \* "step-size between 1/2 and 1"
    [] ex = "fixed_point/optimal_contractive_halpern_iteration" -> RLeq(One, P(a, "gamma"))                                \* "gamma >= 1"
    [] ex = "monotone/optimal_strongly_monotone_proximal_point" -> RLeq(Z, P(a, "mu"))                                     \* "mu >= 0"
    [] ex \in {"nonconvex/gradient_descent", "low_dimensional/gradient_descent", "unconstrained/gradient_descent",
               "stochastic/randomized_coordinate_descent_smooth_convex", "stochastic/randomized_coordinate_descent_smooth_strongly_convex"} ->
          RLeq(GL(a), One)                                                                                                 \* "when gamma <= 1/L"
    [] ex \in {"unconstrained/accelerated_gradient_convex", "composite/accelerated_proximal_gradient"} -> P(a, "mu") = Z     \* "for mu = 0" / "when mu = 0"
    [] ex = "unconstrained/inexact_accelerated_gradient" -> P(a, "epsilon") = Z                                           \* "when epsilon = 0"
    [] ex = "composite/improved_interior_algorithm" -> P(a, "mu") = One          \* no range is documented for the kernel's modulus: reference setting only
    [] ex = "unconstrained/gradient_descent_qg_convex" -> Lt(GL(a), One)                                                   \* "when gamma < 1/L"
    [] ex \in {"nonconvex/no_lips_1", "nonconvex/no_lips_2"} -> GL(a) = Half                                               \* "equal to 1/(2L) for guarantee"
    [] ex \in {"potential/accelerated_gradient_method", "potential/gradient_descent_lyapunov_1", "potential/gradient_descent_lyapunov_2",
               "stochastic/sgd", "stochastic/sgd_overparametrized"} -> GL(a) = One                                         \* "when gamma = 1/L"
    [] ex = "unconstrained/gradient_descent_quadratics" -> RLeq(GL(a), Two) /\ RLeq(P(a, "mu"), P(a, "L"))                 \* "gamma <= 2/L and 0 <= mu <= L"
    [] ex = "unconstrained/heavy_ball_momentum" ->                                                                        \* alpha in (0, 1/L], beta = sqrt((1-alpha mu)(1-L alpha))
          /\ RLeq(RMul(P(a, "alpha"), P(a, "L")), One)
          /\ RSq(P(a, "beta")) = RMul(RSub(One, RMul(P(a, "alpha"), P(a, "mu"))), RSub(One, RMul(P(a, "L"), P(a, "alpha"))))
    [] ex = "unconstrained/subgradient_method_rsi_eb" -> RLeq(RMul(P(a, "gamma"), RSq(P(a, "L"))), P(a, "mu"))             \* step sizes for which the rate is a contraction
    [] ex \in {"unconstrained/gradient_exact_line_search", "unconstrained/inexact_gradient_descent", "unconstrained/inexact_gradient_exact_line_search",
               "low_dimensional/inexact_gradient", "stochastic/saga", "stochastic/point_saga"} -> Lt(P(a, "mu"), P(a, "L"))
    [] ex = "monotone/douglas_rachford_splitting" -> Lt(Z, P(a, "theta")) /\ Lt(P(a, "theta"), Two)
    [] OTHER -> TRUE
\* ---- derived arguments of the example (printed with the grid)
Derived(ex, a) ==
  CASE ex \in {"unconstrained/accelerated_gradient_strongly_convex", "unconstrained/triple_momentum", "unconstrained/robust_momentum"} ->
          a \o <<KV("mu", RDiv(P(a, "L"), RSq(P(a, "_s"))))>>
    [] ex = "continuous_time/accelerated_gradient_flow_strongly_convex" -> a \o <<KV("mu", RSq(P(a, "_r")))>>
    [] ex = "unconstrained/subgradient_method" -> a \o <<KV("gamma", RDiv(One, RMul(P(a, "M"), IF N(a, "n") = 3 THEN Two ELSE R(3, 1))))>>   \* gamma = 1/(M sqrt(n+1))
    [] OTHER -> a
\* ---- the closed forms, as printed in the docstrings
Max(a, b) == RMax(a, b)
Proj(t, lo, hi) == IF Lt(t, lo) THEN lo ELSE IF Lt(hi, t) THEN hi ELSE t
Leps(a) == RMul(RAdd(One, P(a, "epsilon")), P(a, "L"))
Meps(a) == RMul(RSub(One, P(a, "epsilon")), P(a, "mu"))
RECURSIVE GeoSum(_, _)
GeoSum(q, k) == IF k < 0 THEN Z ELSE RAdd(RPow(q, k), GeoSum(q, k - 1))     \* sum_{i=0}^{k} q^i
Theory(ex, a) ==
  LET n == IF Has(a, "n") THEN N(a, "n") ELSE 0  nn == RI(n) IN
  CASE ex = "adaptive/polyak_steps_in_distance_to_optimum" ->
          LET g == P(a, "gamma")  L == P(a, "L")  mu == P(a, "mu") IN
          IF RLeq(RInv(L), g) /\ RLeq(g, RInv(mu)) THEN RDiv(RMul(RSub(RMul(g, L), One), RSub(One, RMul(g, mu))), RSub(RMul(g, RAdd(L, mu)), One)) ELSE Z
    [] ex = "adaptive/polyak_steps_in_function_value" ->
          LET g == P(a, "gamma")  L == P(a, "L")  mu == P(a, "mu") IN
          IF RLeq(RInv(L), g) /\ RLeq(g, RDiv(RSub(RMul(Two, L), mu), RSq(L)))
          THEN RMul(RSub(RMul(g, L), One), RSub(RMul(RMul(L, g), RSub(R(3, 1), RMul(g, RAdd(L, mu)))), One)) ELSE Z
    [] ex = "composite/accelerated_proximal_gradient" -> RDiv(RMul(Two, P(a, "L")), RI(n * n + 5 * n + 2))
    [] ex = "composite/bregman_proximal_point" -> RInv(RMul(P(a, "gamma"), nn))
    [] ex = "composite/douglas_rachford_splitting_contraction" ->
          RPow(Max(RInv(RAdd(One, RMul(P(a, "mu"), P(a, "alpha")))), RDiv(RMul(P(a, "alpha"), P(a, "L")), RAdd(One, RMul(P(a, "L"), P(a, "alpha"))))), 2 * n)
    [] ex \in {"composite/frank_wolfe", "low_dimensional/frank_wolfe"} -> RDiv(RMul(RMul(Two, P(a, "L")), RSq(P(a, "D"))), RI(n + 2))
    [] ex = "composite/improved_interior_algorithm" -> RDiv(RMul(R(4, 1), P(a, "L")), RMul(P(a, "c"), RI(n * n)))
    [] ex = "composite/no_lips_in_bregman_divergence" -> R(2, n * (n - 1))
    [] ex = "composite/no_lips_in_function_value" -> RInv(RMul(P(a, "gamma"), nn))
    [] ex \in {"composite/proximal_gradient", "composite/proximal_gradient_quadratics", "tutorials/gradient_descent_contraction"} ->
          RPow(Max(RSq(RSub(One, RMul(P(a, "L"), P(a, "gamma")))), RSq(RSub(One, RMul(P(a, "mu"), P(a, "gamma"))))), n)
    [] ex \in {"continuous_time/accelerated_gradient_flow_convex", "continuous_time/gradient_flow_convex"} -> Z
    [] ex = "continuous_time/accelerated_gradient_flow_strongly_convex" -> IF N(a, "psd") = 1 THEN RNeg(P(a, "_r")) ELSE RNeg(RMul(R(4, 3), P(a, "_r")))
    [] ex = "continuous_time/gradient_flow_strongly_convex" -> RNeg(RMul(Two, P(a, "mu")))
    [] ex \in {"fixed_point/halpern_iteration", "low_dimensional/halpern_iteration"} -> RSq(R(2, n + 1))
    [] ex = "fixed_point/krasnoselskii_mann_constant_step_sizes" ->
          LET g == P(a, "gamma") IN
          \* first branch: 1/2 <= gamma <= (1 + sqrt(n/(n+1)))/2, i.e. (2 gamma - 1)^2 <= n/(n+1)
          IF RLeq(RSq(RSub(RMul(Two, g), One)), R(n, n + 1))
          THEN RDiv(RMul(R(1, n + 1), RPow(R(n, n + 1), n)), RMul(RMul(R(4, 1), g), RSub(One, g)))
          ELSE RPow(RSub(g, One), 2 * n)
    [] ex = "fixed_point/optimal_contractive_halpern_iteration" -> RMul(RSq(RAdd(One, RInv(P(a, "gamma")))), RSq(RInv(GeoSum(P(a, "gamma"), n))))
    [] ex = "inexact_proximal/accelerated_inexact_forward_backward" -> RDiv(RMul(Two, P(a, "L")), RMul(RSub(One, RSq(P(a, "zeta"))), RI(n * n)))
    [] ex = "inexact_proximal/partially_inexact_douglas_rachford_splitting" ->
          LET s == P(a, "sigma")  g == P(a, "gamma")  mu == P(a, "mu")  L == P(a, "L") IN
          RPow(Max(RDiv(RAdd(RSub(One, s), RMul(RMul(g, mu), s)), RAdd(RSub(One, s), RMul(g, mu))),
                   RDiv(RAdd(s, RMul(RSub(One, s), RMul(g, L))), RAdd(One, RMul(RSub(One, s), RMul(g, L))))), 2 * n)
    [] ex \in {"low_dimensional/gradient_descent", "nonconvex/gradient_descent"} -> RDiv(RMul(R(4, 3), P(a, "L")), nn)
    [] ex \in {"low_dimensional/inexact_gradient", "unconstrained/inexact_gradient_descent", "unconstrained/inexact_gradient_exact_line_search"} ->
          RPow(RDiv(RSub(Leps(a), Meps(a)), RAdd(Leps(a), Meps(a))), 2 * n)
    [] ex \in {"low_dimensional/proximal_point", "monotone/proximal_point"} -> RDiv(RPow(RSub(One, R(1, n)), n - 1), nn)
    [] ex = "monotone/accelerated_proximal_point" -> R(1, n * n)
    [] ex = "monotone/optimal_strongly_monotone_proximal_point" -> RSq(RInv(GeoSum(RAdd(One, RMul(Two, P(a, "mu"))), n - 1)))
    [] ex = "nonconvex/no_lips_1" -> RDiv(P(a, "gamma"), RMul(nn, RSub(One, GL(a))))
    [] ex = "nonconvex/no_lips_2" -> RDiv(P(a, "gamma"), nn)
    [] ex \in {"potential/accelerated_gradient_method", "potential/gradient_descent_lyapunov_1", "potential/gradient_descent_lyapunov_2"} -> Z
    [] ex = "stochastic/randomized_coordinate_descent_smooth_convex" -> One
    [] ex = "stochastic/randomized_coordinate_descent_smooth_strongly_convex" ->
          LET d == RI(N(a, "d"))  f(c) == RDiv(RAdd(RSq(RSub(RMul(P(a, "gamma"), c), One)), RSub(d, One)), d) IN Max(f(P(a, "mu")), f(P(a, "L")))
    [] ex = "stochastic/saga" -> RSub(One, RMul(RInv(RMul(Two, RAdd(RMul(P(a, "mu"), nn), P(a, "L")))), P(a, "mu")))      \* 1 - gamma mu, gamma = 1/(2(mu n + L))
    [] ex = "stochastic/sgd_overparametrized" -> RSq(RSub(One, RDiv(P(a, "mu"), P(a, "L"))))
    [] ex \in {"unconstrained/accelerated_gradient_convex", "unconstrained/inexact_accelerated_gradient"} -> RDiv(RMul(Two, P(a, "L")), RI(n * n + 5 * n + 6))
    [] ex = "unconstrained/accelerated_gradient_strongly_convex" -> RPow(RSub(One, RInv(P(a, "_s"))), n)                   \* (1 - sqrt(mu/L))^n
    [] ex \in {"unconstrained/conjugate_gradient_qg_convex", "unconstrained/heavy_ball_momentum_qg_convex"} -> RDiv(P(a, "L"), RI(2 * (n + 1)))
    [] ex = "unconstrained/epsilon_subgradient_method" ->
          LET g == P(a, "gamma")  m1 == RI(n + 1) IN
          RDiv(RAdd(RAdd(RSq(P(a, "R")), RMul(RMul(RMul(Two, m1), g), P(a, "eps"))), RMul(RMul(m1, RSq(g)), RSq(P(a, "M")))), RMul(RMul(Two, m1), g))
    [] ex = "unconstrained/gradient_descent" -> RDiv(P(a, "L"), RAdd(RMul(RMul(R(4, 1), nn), GL(a)), Two))
    [] ex = "unconstrained/gradient_descent_qg_convex" -> RMul(RMul(Half, P(a, "L")), Max(RInv(RAdd(RMul(RMul(Two, nn), GL(a)), One)), GL(a)))
    [] ex = "unconstrained/gradient_descent_quadratics" ->
          LET L == P(a, "L")  al == Proj(RInv(RMul(GL(a), RI(2 * n + 1))), RDiv(P(a, "mu"), L), One) IN
          RMul(RMul(Half, L), Max(RMul(al, RPow(RSub(One, RMul(al, GL(a))), 2 * n)), RPow(RSub(One, GL(a)), 2 * n)))
    [] ex = "unconstrained/gradient_exact_line_search" -> RPow(RDiv(RSub(P(a, "L"), P(a, "mu")), RAdd(P(a, "L"), P(a, "mu"))), 2 * n)
    [] ex = "unconstrained/heavy_ball_momentum" -> RPow(RSub(One, RMul(P(a, "alpha"), P(a, "mu"))), n)
    [] ex = "unconstrained/proximal_point" -> RInv(RMul(RMul(R(4, 1), P(a, "gamma")), nn))
    [] ex = "unconstrained/robust_momentum" ->                                                                             \* rho^2, kappa = s^2
          LET s == P(a, "_s")  lam == P(a, "lam") IN RSq(RAdd(RMul(lam, RSub(One, RInv(RSq(s)))), RMul(RSub(One, lam), RSub(One, RInv(s)))))
    [] ex = "unconstrained/subgradient_method" -> RDiv(P(a, "M"), IF n = 3 THEN Two ELSE R(3, 1))                          \* M / sqrt(n+1)
    [] ex = "unconstrained/subgradient_method_rsi_eb" ->
          RPow(RAdd(RSub(One, RMul(RMul(Two, P(a, "gamma")), P(a, "mu"))), RMul(RSq(P(a, "L")), RSq(P(a, "gamma")))), n)
    [] ex = "unconstrained/triple_momentum" ->                                                                             \* rho^{2(n+1)} L kappa / 2
          LET s == P(a, "_s") IN RMul(RPow(RSub(One, RInv(s)), 2 * (n + 1)), RMul(RMul(Half, P(a, "L")), RSq(s)))
    [] OTHER -> Z
\* ---- region labels used in violation signatures (default: the parameter values themselves)
Region(ex, a) ==
  CASE ex \in {"nonconvex/gradient_descent", "low_dimensional/gradient_descent"} /\ Lt(GL(a), One) -> "gamma<1/L"
    [] ex = "fixed_point/krasnoselskii_mann_constant_step_sizes" /\ Lt(R(N(a, "n"), N(a, "n") + 1), RSq(RSub(RMul(Two, P(a, "gamma")), One))) -> "gamma>(1+sqrt(n/(n+1)))/2"
    [] ex = "fixed_point/optimal_contractive_halpern_iteration" /\ P(a, "gamma") = One -> "gamma=1"
    [] ex = "monotone/optimal_strongly_monotone_proximal_point" /\ P(a, "mu") = Z -> "mu=0"
    [] OTHER -> ""
\* ---- rational -> 1e-6 units (floor), denominators up to 2*10^8
RECURSIVE Digits(_, _, _, _)
Digits(r, d, k, acc) == IF k = 0 THEN acc ELSE Digits((r * 10) % d, d, k - 1, acc * 10 + (r * 10) \div d)
\* denominators beyond 2*10^8 are first divided by 16 together with the numerator (relative error < 1e-7)
RECURSIVE ToMicroPos(_, _)
ToMicroPos(n, d) == IF d > 200000000 THEN ToMicroPos(n \div 16, d \div 16)
                    ELSE IF n \div d >= 2000 THEN 2000000000 ELSE (n \div d) * 1000000 + Digits(n % d, d, 6, 0)
ToMicro(r) == IF r[1] >= 0 THEN ToMicroPos(r[1], r[2]) ELSE -ToMicroPos(-r[1], r[2]) - 1
Abs2(x) == IF x < 0 THEN -x ELSE x
\* ---- grid (spec -> code)
Instances == UNION {{[ex |-> Table[i][1], flag |-> Table[i][2], form |-> Table[i][3], region |-> Region(Table[i][1], a), p |-> Derived(Table[i][1], a),
                      theory |-> IF Table[i][3] = "rat" THEN ToMicro(Theory(Table[i][1], Derived(Table[i][1], a))) ELSE 0]
                     : a \in {b \in Prod(Table[i][4]) : InRange(Table[i][1], b)}} : i \in 1..Len(Table)}
\* ---- traces (code -> spec)
Traces == IF TraceMode THEN ndJsonDeserialize(IOEnv.TRACE_FILE) ELSE <<>>
VARIABLES item, tid, l, bad
vars == <<item, tid, l, bad>>
GInit == item \in Instances /\ tid = 0 /\ l = 0 /\ bad = {}
GNext == UNCHANGED vars
EmitGrid == tid = 0 => PrintT(ToJson(item))
\* the closed forms are probabilities / rates: sanity of the transcription (every tight or upper closed form of a
\* contraction-type example is >= 0)
TheoryDefined == tid = 0 => (item.form = "rat" => item.theory > -2000000000 /\ item.theory < 2000000000)
\* trace record: ex, flag, form, region, p (with derived), pepit, theo, hastheo, status, slack (solver tolerance in 1e-6 units),
\*               variants: <<[name, val, status]>>
T == Traces[tid]
Pseq(t) == [i \in 1..Len(t.p) |-> [k |-> t.p[i].k, n |-> t.p[i].n, d |-> t.p[i].d]]
Th(t) == IF t.form = "rat" THEN ToMicro(Theory(t.ex, Pseq(t))) ELSE t.theo
RelTol(x) == (IF Abs2(x) > 1000 THEN Abs2(x) ELSE 1000) \div 1000 + 1
Clauses == <<"value", "rate", "doc-formula", "own-pair", "equivalent-formulation">>
Eval(t, c) ==
   CASE c = "value" -> IF t.status = "error" THEN {"no-value"} ELSE IF t.status = "unbounded" THEN {"no-finite-value"} ELSE {}
     [] c = "doc-formula" ->
          IF t.form = "rat" /\ t.hastheo = 1 /\ Abs2(t.theo - ToMicro(Theory(t.ex, Pseq(t)))) > 2 + Abs2(t.theo) \div 100000 THEN {"doc-formula"} ELSE {}
     [] t.status # "ok" -> {}
     [] c = "rate" ->
          IF t.form = "own" /\ t.hastheo = 0 THEN {} ELSE
          LET th == Th(t)  tol == RelTol(th) + t.slack IN
          IF t.flag = "tight" THEN (IF Abs2(t.pepit - th) <= tol THEN {} ELSE {"tight"})
          ELSE IF t.flag = "upper" THEN (IF t.pepit <= th + RelTol(th) + 10 + t.slack THEN {} ELSE {"upper-bound"})
          ELSE (IF t.pepit >= th - RelTol(th) - 10 - t.slack THEN {} ELSE {"lower-bound"})
     \* the pair the example itself returns: its computed value against ITS OWN theoretical value, with the nature the
     \* docstring claims (for the examples with a rational closed form this is a second, independent comparison: a
     \* returned closed form that drifts away from the computation is seen even where the docstring agrees with it)
     [] c = "own-pair" ->
          IF t.form # "rat" \/ t.hastheo = 0 THEN {} ELSE
          LET th == t.theo  tol == RelTol(th) + t.slack IN
          IF t.flag = "tight" THEN (IF Abs2(t.pepit - th) <= tol THEN {} ELSE {"own-pair-tight"})
          ELSE IF t.flag = "upper" THEN (IF t.pepit <= th + RelTol(th) + 10 + t.slack THEN {} ELSE {"own-pair-upper-bound"})
          ELSE (IF t.pepit >= th - RelTol(th) - 10 - t.slack THEN {} ELSE {"own-pair-lower-bound"})
     [] c = "equivalent-formulation" ->
          {"equivalent-formulation:" \o t.variants[i].name : i \in {j \in 1..Len(t.variants) :
                 t.variants[j].status = "ok" /\ Abs2(t.variants[j].val - t.pepit) > RelTol(t.pepit) + t.slack}}
TInit == tid \in 1..Len(Traces) /\ l = 1 /\ bad = {} /\ item = [ex |-> "-"]
Step == /\ l <= Len(Clauses)
        /\ bad' = bad \cup Eval(T, Clauses[l])
        /\ l' = l + 1
        /\ UNCHANGED <<item, tid>>
RECURSIVE SetToSeq(_)
SetToSeq(s) == IF s = {} THEN <<>> ELSE LET x == CHOOSE x \in s : TRUE IN <<x>> \o SetToSeq(s \ {x})
Report == (tid > 0 /\ l = Len(Clauses) + 1) => PrintT(ToJson(<<"V", tid, SetToSeq(bad)>>))
=============================================================================
