------------------------------ MODULE Algebra ------------------------------
(* C06.  The DSL operators of PEPit (Point / Expression / Constraint, PEPit/point.py, expression.py,      *)
(* constraint.py, tools/dict_operations.py) as actions on a pool of objects held by the user.             *)
(*   - Apply(o, objs): the normal-form calculus (what the code must compute, up to representation)        *)
(*   - Den*: the denotational semantics (vectors / numbers); Sound checks Apply against it on a box of    *)
(*     environments, so the calculus itself is validated before any code is involved                      *)
(*   - NoMutation: no action changes an existing object                                                   *)
(* Behaviours (hist) are exported as JSON programs and replayed on the real classes; AlgebraTrace.tla     *)
(* re-derives every step from the previously OBSERVED objects.                                            *)
EXTENDS LinForm, TLC, Json
CONSTANTS NP, NE,        \* initial leaf points / leaf expressions
          Depth,         \* maximal number of well-typed operations
          IllTyped,      \* TRUE: also generate the one-step programs with operands of undocumented kinds
          Sim,           \* TRUE under -simulate: one random operator per step instead of all successors
          Focus          \* "all": every well-typed program; "small": only the depth-3 programs that scale a point by the 4th
                         \* scalar, square / pair it, and then push the resulting SMALL coefficient through one more operator
\* ---- objects
Pt(p) == [k |-> "pt", p |-> p, e |-> ZeroE(NP, NE), sense |-> "-"]
Ex(e) == [k |-> "ex", p |-> ZeroV(NP), e |-> e, sense |-> "-"]
Co(e, s) == [k |-> "co", p |-> ZeroV(NP), e |-> e, sense |-> s]
Raised == [k |-> "raises", p |-> ZeroV(NP), e |-> ZeroE(NP, NE), sense |-> "-"]
Scalars == << <<-1, 1>>, <<0, 1>>, <<2, 1>>, <<1, 2>> >>
Junk == <<"str", "none", "list", "cplx">>
\* operands: [t |-> "obj", i |-> index in objs] | [t |-> "sc", i |-> index in Scalars] | [t |-> "junk", i |-> index in Junk]
\*           | [t |-> "no", i |-> 0] (absent second operand of a unary operator)
Obj(i) == [t |-> "obj", i |-> i]
Sc(i) == [t |-> "sc", i |-> i]
Jk(i) == [t |-> "junk", i |-> i]
No == [t |-> "no", i |-> 0]
Kind(x, objs) == IF x.t = "obj" THEN objs[x.i].k ELSE x.t
\* ---- the Python operators:  add a+b | sub a-b | mul a*b | div a/b | neg -a | sq a**2 | pow3 a**3 |
\*                             le a<=b | ge a>=b | lt a<b | gt a>b | eq a==b
\*                             mx11 / mx12: entry [0,0] / [0,1] of PSDMatrix([[a, b], [b, a]])  (PEPit/psd_matrix.py: scalars
\*                             become constant expressions, expressions are stored as they are, anything else raises)
\*                             iadd a+=b | isub a-=b | imul a*=b | idiv a/=b : the augmented spellings; Python rebinds the
\*                             name to a NEW object, every other reference to the old object keeps its meaning
BinOps == {"add", "sub", "mul", "div", "le", "ge", "lt", "gt", "eq", "mx11", "mx12", "iadd", "isub", "imul", "idiv"}
Plain(op) == CASE op = "iadd" -> "add" [] op = "isub" -> "sub" [] op = "imul" -> "mul" [] op = "idiv" -> "div" [] OTHER -> op
UnOps == {"neg", "sq", "pow3"}
Apply(oo, objs) ==
  LET o == [oo EXCEPT !.op = Plain(oo.op)]
      ka == Kind(o.a, objs)  kb == Kind(o.b, objs)
      A == IF o.a.t = "obj" THEN objs[o.a.i] ELSE Raised
      B == IF o.b.t = "obj" THEN objs[o.b.i] ELSE Raised
      sa == IF o.a.t = "sc" THEN Scalars[o.a.i] ELSE Z
      sb == IF o.b.t = "sc" THEN Scalars[o.b.i] ELSE Z
      CE(s) == EConst(NP, NE, s)
      \* left-minus-right of a comparison, as an expression; "none" if ill-typed
      L == IF ka = "ex" THEN A.e ELSE CE(sa)
      R == IF kb = "ex" THEN B.e ELSE CE(sb)
      cmpOK == <<ka, kb>> \in {<<"ex", "ex">>, <<"ex", "sc">>, <<"sc", "ex">>}
  IN
  CASE o.op = "add" ->
         CASE <<ka, kb>> = <<"pt", "pt">> -> Pt(VAdd(A.p, B.p))
           [] cmpOK -> Ex(EAdd(L, R))
           [] OTHER -> Raised
    [] o.op = "sub" ->
         CASE <<ka, kb>> = <<"pt", "pt">> -> Pt(VSub(A.p, B.p))
           [] cmpOK -> Ex(ESub(L, R))
           [] OTHER -> Raised
    [] o.op = "mul" ->
         CASE <<ka, kb>> = <<"pt", "pt">> -> Ex(Inner(NE, A.p, B.p))
           [] <<ka, kb>> = <<"pt", "sc">> -> Pt(VScale(sb, A.p))
           [] <<ka, kb>> = <<"sc", "pt">> -> Pt(VScale(sa, B.p))
           [] <<ka, kb>> = <<"ex", "sc">> -> Ex(EScale(sb, A.e))
           [] <<ka, kb>> = <<"sc", "ex">> -> Ex(EScale(sa, B.e))
           [] OTHER -> Raised
    [] o.op = "div" ->
         CASE <<ka, kb>> = <<"pt", "sc">> /\ sb # Z -> Pt(VScale(RInv(sb), A.p))
           [] <<ka, kb>> = <<"ex", "sc">> /\ sb # Z -> Ex(EScale(RInv(sb), A.e))
           [] OTHER -> Raised
    [] o.op = "neg" -> CASE ka = "pt" -> Pt(VNeg(A.p)) [] ka = "ex" -> Ex(ENeg(A.e)) [] OTHER -> Raised
    [] o.op = "sq" -> IF ka = "pt" THEN Ex(Sq(NE, A.p)) ELSE Raised
    [] o.op = "pow3" -> Raised
    [] o.op \in {"le", "lt"} -> IF cmpOK THEN Co(ESub(L, R), "ineq") ELSE Raised
    [] o.op \in {"ge", "gt"} -> IF cmpOK THEN Co(ESub(R, L), "ineq") ELSE Raised
    [] o.op = "eq" -> IF cmpOK THEN Co(ESub(L, R), "eq") ELSE Raised
    [] o.op = "mx11" -> IF cmpOK THEN Ex(L) ELSE Raised
    [] o.op = "mx12" -> IF cmpOK THEN Ex(R) ELSE Raised
\* ---- denotational semantics on a box of environments (2-dimensional vectors)
Envs == [x : [1..NP -> {-1, 1}], y : [1..NP -> {0, 1}], f : [1..NE -> {-1, 2}]]
PEnv(env) == [k \in 1..NP |-> <<RI(env.x[k]), RI(env.y[k])>>]
FEnv(env) == [k \in 1..NE |-> RI(env.f[k])]
DenP(p, env) == PtVal(p, PEnv(env))
DenE(e, env) == EVal(e, PEnv(env), FEnv(env))
DenOperandNum(x, objs, env) == IF x.t = "sc" THEN Scalars[x.i] ELSE DenE(objs[x.i].e, env)
\* what the operator means on values
Meaning(oo, objs, R, env) ==
  LET o == [oo EXCEPT !.op = Plain(oo.op)]
      ka == Kind(o.a, objs)  kb == Kind(o.b, objs)
      pa == DenP(objs[o.a.i].p, env)  pb == DenP(objs[o.b.i].p, env)
      na == DenOperandNum(o.a, objs, env)  nb == DenOperandNum(o.b, objs, env)
  IN
  CASE R.k = "raises" -> TRUE
    [] o.op = "add" /\ ka = "pt" -> DenP(R.p, env) = VAdd(pa, pb)
    [] o.op = "add" -> DenE(R.e, env) = RAdd(na, nb)
    [] o.op = "sub" /\ ka = "pt" -> DenP(R.p, env) = VSub(pa, pb)
    [] o.op = "sub" -> DenE(R.e, env) = RSub(na, nb)
    [] o.op = "mul" /\ <<ka, kb>> = <<"pt", "pt">> -> DenE(R.e, env) = VDot(pa, pb)
    [] o.op = "mul" /\ ka = "pt" -> DenP(R.p, env) = VScale(Scalars[o.b.i], pa)
    [] o.op = "mul" /\ kb = "pt" -> DenP(R.p, env) = VScale(Scalars[o.a.i], pb)
    [] o.op = "mul" -> DenE(R.e, env) = RMul(na, nb)
    [] o.op = "div" /\ ka = "pt" -> VScale(Scalars[o.b.i], DenP(R.p, env)) = pa
    [] o.op = "div" -> RMul(Scalars[o.b.i], DenE(R.e, env)) = na
    [] o.op = "neg" /\ ka = "pt" -> VAdd(DenP(R.p, env), pa) = ZeroV(2)
    [] o.op = "neg" -> RAdd(DenE(R.e, env), na) = Z
    [] o.op = "sq" -> DenE(R.e, env) = VDot(pa, pa)
    [] o.op \in {"le", "lt"} -> R.sense = "ineq" /\ DenE(R.e, env) = RSub(na, nb)
    [] o.op \in {"ge", "gt"} -> R.sense = "ineq" /\ DenE(R.e, env) = RSub(nb, na)
    [] o.op = "eq" -> R.sense = "eq" /\ DenE(R.e, env) = RSub(na, nb)
    [] o.op = "mx11" -> DenE(R.e, env) = na
    [] o.op = "mx12" -> DenE(R.e, env) = nb
\* ---- state machine
VARIABLES objs, hist, done
vars == <<objs, hist, done>>
InitObjs == [k \in 1..(NP + NE + 1) |->
               IF k <= NP THEN Pt(UnitV(NP, k))
               ELSE IF k <= NP + NE THEN Ex(ELeaf(NP, NE, k - NP))
               ELSE Co(ELeaf(NP, NE, 1), "ineq")]               \* co0 = (e0 <= 0), created by the driver preamble
Init == objs = InitObjs /\ hist = <<>> /\ done = FALSE
Idx(kind) == {i \in DOMAIN objs : objs[i].k = kind}
ScI == 1..Len(Scalars)
WellTyped ==
       {[op |-> n, a |-> Obj(i), b |-> Obj(j)] : n \in {"add", "sub", "mul", "iadd", "isub"}, i \in Idx("pt"), j \in Idx("pt")}
  \cup {[op |-> n, a |-> Obj(i), b |-> Obj(j)] : n \in {"iadd", "isub"}, i \in Idx("ex"), j \in Idx("ex")}
  \cup {[op |-> n, a |-> Obj(i), b |-> Sc(s)] : n \in {"iadd", "isub", "imul", "idiv"}, i \in Idx("ex"), s \in ScI}
  \cup {[op |-> n, a |-> Obj(i), b |-> Sc(s)] : n \in {"imul", "idiv"}, i \in Idx("pt"), s \in ScI}
  \cup {[op |-> n, a |-> Obj(i), b |-> Obj(j)] : n \in {"add", "sub", "le", "ge", "lt", "gt", "eq"}, i \in Idx("ex"), j \in Idx("ex")}
  \cup {[op |-> n, a |-> Obj(i), b |-> Sc(s)] : n \in {"add", "sub", "mul", "div", "le", "ge", "lt", "gt", "eq", "mx11", "mx12"}, i \in Idx("ex"), s \in ScI}
  \cup {[op |-> n, a |-> Sc(s), b |-> Obj(i)] : n \in {"add", "sub", "mul", "le", "ge", "lt", "gt", "eq", "mx11", "mx12"}, i \in Idx("ex"), s \in ScI}
  \cup {[op |-> n, a |-> Obj(i), b |-> Obj(j)] : n \in {"mx11", "mx12"}, i \in Idx("ex"), j \in Idx("ex")}
  \cup {[op |-> n, a |-> Obj(i), b |-> Sc(s)] : n \in {"mul", "div"}, i \in Idx("pt"), s \in ScI}
  \cup {[op |-> "mul", a |-> Sc(s), b |-> Obj(i)] : i \in Idx("pt"), s \in ScI}
  \cup {[op |-> n, a |-> Obj(i), b |-> No] : n \in {"neg"}, i \in Idx("pt") \cup Idx("ex")}
  \cup {[op |-> "sq", a |-> Obj(i), b |-> No] : i \in Idx("pt")}
DivByZero(o) == o.op \in {"div", "idiv"} /\ o.b.t = "sc" /\ Scalars[o.b.i] = Z
\* operands of undocumented kinds: wrong object kind, or junk python values; only on the initial objects
\* ('==' between two non-expressions is Python's default comparison and returns a bool: not part of the DSL)
Initial == 1..(NP + NE + 1)
IllOps ==
  LET all == {[op |-> n, a |-> Obj(i), b |-> Obj(j)] : n \in BinOps, i \in Initial, j \in Initial}
        \cup {[op |-> n, a |-> Obj(i), b |-> Jk(j)] : n \in BinOps, i \in Initial, j \in 1..Len(Junk)}
        \cup {[op |-> n, a |-> Jk(j), b |-> Obj(i)] : n \in BinOps, i \in Initial, j \in 1..Len(Junk)}
        \cup {[op |-> n, a |-> Obj(i), b |-> Sc(s)] : n \in BinOps, i \in Initial, s \in ScI}
        \cup {[op |-> n, a |-> Sc(s), b |-> Obj(i)] : n \in BinOps, i \in Initial, s \in ScI}
        \cup {[op |-> n, a |-> Obj(i), b |-> No] : n \in UnOps, i \in Initial}
  IN {o \in all : /\ Apply(o, InitObjs).k = "raises"
                  /\ ~DivByZero(o)
                  /\ (o.op = "eq" => "ex" \in {Kind(o.a, InitObjs), Kind(o.b, InitObjs)})}
Last == Len(objs)
Uses(o, i) == (o.a.t = "obj" /\ o.a.i = i) \/ (o.b.t = "obj" /\ o.b.i = i)
InFocus(o) == \/ Focus = "all"
              \/ Len(hist) = 0 /\ o.op \in {"mul", "imul"} /\ 4 \in {IF o.a.t = "sc" THEN o.a.i ELSE 0, IF o.b.t = "sc" THEN o.b.i ELSE 0}
                               /\ "pt" \in {Kind(o.a, objs), Kind(o.b, objs)}
              \/ Len(hist) = 1 /\ o.op \in {"sq", "mul"} /\ Uses(o, Last) /\ Kind(o.a, objs) = "pt" /\ (o.op = "sq" \/ Kind(o.b, objs) = "pt")
              \/ Len(hist) = 2 /\ Uses(o, Last)
Next == /\ ~done
        /\ \/ /\ Len(hist) < Depth
              /\ \E o \in (LET C == {w \in WellTyped : ~DivByZero(w) /\ InFocus(w)} IN IF Sim THEN {RandomElement(C)} ELSE C) :
                    objs' = Append(objs, Apply(o, objs)) /\ hist' = Append(hist, o) /\ done' = FALSE
           \/ /\ IllTyped /\ hist = <<>>
              /\ \E o \in IllOps : objs' = Append(objs, Apply(o, objs)) /\ hist' = Append(hist, o) /\ done' = TRUE
Spec == Init /\ [][Next]_vars
\* ---- properties of the model
Sound == hist = <<>> \/
  LET o == hist[Len(hist)]  R == objs[Len(objs)]  prev == SubSeq(objs, 1, Len(objs) - 1)
  IN \A env \in Envs : Meaning(o, prev, R, env)
NoMutation == [][\A i \in DOMAIN objs : objs'[i] = objs[i]]_vars
IllRaises == done => objs[Len(objs)].k = "raises"
\* ---- export
FlatObj(o) == [k |-> o.k, sense |-> o.sense,
               pn |-> [i \in 1..NP |-> o.p[i][1]], pd |-> [i \in 1..NP |-> o.p[i][2]],
               Fn |-> [i \in 1..NE |-> o.e.F[i][1]], Fd |-> [i \in 1..NE |-> o.e.F[i][2]],
               Gn |-> [i \in 1..NPairs(NP) |-> o.e.G[i][1]], Gd |-> [i \in 1..NPairs(NP) |-> o.e.G[i][2]],
               c |-> <<o.e.c[1], o.e.c[2]>>]
UnFlat(f) == [k |-> f.k, sense |-> f.sense, p |-> [i \in 1..NP |-> <<f.pn[i], f.pd[i]>>],
              e |-> [F |-> [i \in 1..NE |-> <<f.Fn[i], f.Fd[i]>>], G |-> [i \in 1..NPairs(NP) |-> <<f.Gn[i], f.Gd[i]>>],
                     c |-> <<f.c[1], f.c[2]>>]]
Maximal == done \/ Len(hist) = Depth
Emit == Maximal => PrintT(ToJson([h |-> hist]))
=============================================================================
