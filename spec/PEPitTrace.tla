------------------------------ MODULE PEPitTrace ------------------------------
(* Conformance of the integrated machine: a behaviour of PEPit.tla is replayed on the real library and every registry  *)
(* is read after every call; here the machine is run along the same behaviour and compared (drift, see PEPit.tla).       *)
EXTENDS PEPit, IOUtils
Traces == ndJsonDeserialize(IOEnv.TRACE_FILE)
VARIABLES tid, l, bad
T == Traces[tid]
tvars == <<tid, l, bad, reg, funs, npts, metrics, pcons, plmis, parts, ncomp, fcons, solves, hist>>
Act(a) == CASE a.a = "pep" -> NewPEP
            [] a.a = "declare" -> Declare(a.c)
            [] a.a = "point" -> InitPoint
            [] a.a = "oracle" -> Oracle(a.f, a.k)
            [] a.a = "stationary" -> Stationary(a.f)
            [] a.a = "condition" -> Condition
            [] a.a = "metric" -> Metric
            [] a.a = "lmi" -> Lmi
            [] a.a = "partition" -> Partition(a.k)
            [] a.a = "block" -> Block(a.k)
            [] a.a = "solve" -> Solve
            [] a.a = "compose" -> Compose(a.f, a.k)
            [] a.a = "fcondition" -> FunCondition(a.f)
            [] a.a = "prox" -> Prox(a.f, a.k)
TInit == tid \in 1..Len(Traces) /\ l = 1 /\ bad = {} /\ Init
Names == <<"pt", "ex", "fn", "nfun", "co", "psd", "bp", "pep">>
TStep == /\ l <= Len(T.h)
         /\ Act(T.h[l])
         \* Constraint.counter: check_feasibility compares dictionary keys with `key != 1`, which for an Expression key calls
         \* Expression.__eq__ and creates a Constraint object - as many as there are numerically non-zero leftover terms.
         \* After a solve the counter is therefore only bounded from below.
         /\ bad' = bad \cup {<<l, T.h[l].a, Names[i], T.obs[l][i] - reg'[Names[i]]>> : i \in {j \in 1..Len(Names) :
                                 IF Names[j] = "co" /\ solves' > 0 THEN T.obs[l][j] < reg'[Names[j]] ELSE T.obs[l][j] # reg'[Names[j]]}}
         /\ l' = l + 1 /\ tid' = tid
Report == l = Len(T.h) + 1 => PrintT(ToJson(<<"V", tid, bad>>))
=============================================================================
