------------------------------ MODULE Registry ------------------------------
(* C12.  The process-wide state of PEPit (class-level counters and registries, PEPit/pep.py:106 _reset_classes):   *)
(*   Point.counter, Point.list_of_leaf_points, Expression.counter, Expression.list_of_leaf_expressions,             *)
(*   Function.counter, Function.list_of_functions, Constraint.counter, PSDMatrix.counter, BlockPartition.counter,   *)
(*   BlockPartition.list_of_partitions, PEP.counter.                                                                 *)
(* A history is a sequence of model fragments (each starts with PEP(), uses the DSL, may solve, fail or be          *)
(* abandoned); NewPEP must put every registry back to its initial value.  Forget = the set of registries a           *)
(* (hypothetical) implementation forgets to reset: with Forget = {} the invariant holds, with any other value        *)
(* TLC produces the history that exposes it (vacuity control).                                                        *)
EXTENDS Integers, Sequences, FiniteSets, TLC, Json
CONSTANTS MaxHist, NFragments, NModels, Forget
Names == {"Point.counter", "Point.list_of_leaf_points", "Expression.counter", "Expression.list_of_leaf_expressions",
          "Function.counter", "Function.list_of_functions", "Constraint.counter", "PSDMatrix.counter",
          "BlockPartition.counter", "BlockPartition.list_of_partitions", "PEP.counter"}
Zero == [n \in Names |-> 0]
\* what a fragment does to the registries, abstractly: which ones it increases (see harness/drv_c12.py FRAGMENTS)
Touches(f) == CASE f = 1 -> Names \ {"PSDMatrix.counter"}                                         \* partition model, solved
                [] f \in {2, 4, 10, 11} -> Names \ {"BlockPartition.counter", "BlockPartition.list_of_partitions"}  \* LMIs
                [] f = 13 -> Names \ {"BlockPartition.counter", "BlockPartition.list_of_partitions", "PEP.counter"}   \* no PEP at all
                [] OTHER -> Names \ {"BlockPartition.counter", "BlockPartition.list_of_partitions", "PSDMatrix.counter"}
VARIABLES reg, hist, justReset, model
vars == <<reg, hist, justReset, model>>
Init == reg = Zero /\ hist = <<>> /\ justReset = FALSE /\ model = 0
NewPEP(r) == [n \in Names |-> IF n \in Forget THEN r[n] ELSE IF n = "PEP.counter" THEN 1 ELSE 0]
NoPep(f) == f = 13                       \* a fragment that uses the DSL without creating a PEP: nothing is reset
Fragment(f) == /\ model = 0 /\ Len(hist) < MaxHist
               /\ LET base == IF NoPep(f) THEN reg ELSE NewPEP(reg) IN
                  reg' = [n \in Names |-> IF n \in Touches(f) THEN base[n] + 1 ELSE base[n]]
               /\ hist' = Append(hist, f) /\ justReset' = FALSE /\ UNCHANGED model
ModelB(b) == /\ model = 0
             /\ reg' = NewPEP(reg) /\ justReset' = TRUE /\ model' = b /\ UNCHANGED hist
Next == (\E f \in 1..NFragments : Fragment(f)) \/ (\E b \in 1..NModels : ModelB(b))
Spec == Init /\ [][Next]_vars
CleanSlate == justReset => reg = [Zero EXCEPT !["PEP.counter"] = 1]
Emit == model # 0 => PrintT(ToJson([hist |-> hist, b |-> model]))
=============================================================================
