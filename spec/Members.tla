------------------------------- MODULE Members -------------------------------
(* C03 oracle.  Real members of the 24 function / operator classes shipped by PEPit, in dimension 1 and 2,  *)
(* at VALUE level in exact rationals: MVal(m, x), the admissible (sub)gradients / operator values            *)
(* MGrads(m, x), stationary points, fixed points, infimal displacement vectors.  Nothing here is taken from  *)
(* PEPit's interpolation formulas: DefFails(cls, P, m) states membership by the DEFINITION of the class     *)
(* (convexity inequality, Lipschitz gradient, monotonicity, norm bounds, ...) and the model run (Init/Check) *)
(* checks it on all pairs of a grid for every member of every case before any code is involved.              *)
EXTENDS LinForm, TLC, Json
CONSTANT GridMode          \* 1: small grid for the free points (quick)   2: larger grid (thorough)

INF == <<1, 0>>                       \* the parameter value "infinity" (D, M); never used in arithmetic
IsInf(p) == p[2] = 0
Q(n, d) == Norm(n, d)
RPos(a) == a[1] > 0
RNg(a) == a[1] < 0
RIsZ(a) == a[1] = 0
(* ---- overflow-guarded exact arithmetic ------------------------------------------------------------------ *)
(* TLC integers are 32 bit and TLC aborts on overflow.  Every operation below checks, after cancelling common    *)
(* factors, that no product can exceed 2^31 - 1; otherwise it returns OVF (denominator 0), which is absorbing.   *)
(* Comparisons are exact and never multiply when a product could overflow (continued-fraction comparison).      *)
(* The trace validation drops an assignment whose leaf values contain OVF and counts a constraint whose value    *)
(* is OVF as "not evaluated" (reported, never a verdict).                                                        *)
OVF == <<1, 0>>
IsOvf(a) == a[2] = 0
MAXI == 2147483647
HALFI == 1073741823
SMul(a, b) == IF a[2] = 0 \/ b[2] = 0 THEN OVF ELSE IF a[1] = 0 \/ b[1] = 0 THEN Z ELSE
   LET g1 == Gcd(Abs(a[1]), b[2])  g2 == Gcd(Abs(b[1]), a[2])
       p == a[1] \div g1  q == b[1] \div g2  r == a[2] \div g2  s == b[2] \div g1
   IN IF Abs(p) <= MAXI \div Abs(q) /\ r <= MAXI \div s THEN <<p * q, r * s>> ELSE OVF
SAdd(a, b) == IF a[2] = 0 \/ b[2] = 0 THEN OVF ELSE IF a[1] = 0 THEN b ELSE IF b[1] = 0 THEN a ELSE
   LET g == Gcd(a[2], b[2])  u == b[2] \div g  v == a[2] \div g
   IN IF Abs(a[1]) <= HALFI \div u /\ Abs(b[1]) <= HALFI \div v /\ v <= MAXI \div b[2]
      THEN Norm(a[1] * u + b[1] * v, v * b[2]) ELSE OVF
SSub(a, b) == SAdd(a, RNeg(b))
SDiv(a, b) == IF b[2] = 0 THEN OVF ELSE SMul(a, RInv(b))
SSq(a) == SMul(a, a)
\* a <= b for non-negative rationals n1/d1, n2/d2 without multiplication: -1 (less), 0 (equal), 1 (greater)
RECURSIVE CmpPos(_, _, _, _)
CmpPos(n1, d1, n2, d2) ==
   LET q1 == n1 \div d1  q2 == n2 \div d2  r1 == n1 % d1  r2 == n2 % d2 IN
   IF q1 # q2 THEN (IF q1 < q2 THEN -1 ELSE 1)
   ELSE IF r1 = 0 /\ r2 = 0 THEN 0 ELSE IF r1 = 0 THEN -1 ELSE IF r2 = 0 THEN 1
   ELSE -CmpPos(d1, r1, d2, r2)
Cmp(a, b) == IF a[1] < 0 /\ b[1] >= 0 THEN -1 ELSE IF a[1] >= 0 /\ b[1] < 0 THEN 1
             ELSE IF a[1] >= 0 THEN CmpPos(a[1], a[2], b[1], b[2]) ELSE -CmpPos(-a[1], a[2], -b[1], b[2])
SLeq(a, b) == IF a[2] = 0 \/ b[2] = 0 THEN FALSE ELSE
   LET g == Gcd(a[2], b[2])  u == b[2] \div g  v == a[2] \div g
   IN IF Abs(a[1]) <= MAXI \div u /\ Abs(b[1]) <= MAXI \div v THEN a[1] * u <= b[1] * v ELSE Cmp(a, b) <= 0
SLt(a, b) == a[2] # 0 /\ b[2] # 0 /\ ~SLeq(b, a)
SMin(a, b) == IF SLeq(a, b) THEN a ELSE b
ASSUME /\ SMul(<<65536, 1>>, <<65536, 1>>) = OVF /\ SMul(<<46340, 1>>, <<46340, 1>>) = <<2147395600, 1>>
       /\ SAdd(<<1, 65536>>, <<1, 65537>>) = OVF /\ SAdd(<<1, 65536>>, <<3, 65536>>) = <<1, 16384>>
       /\ SLeq(<<1073741823, 1073741824>>, <<1073741822, 1073741823>>) = FALSE
       /\ SLeq(<<1073741822, 1073741823>>, <<1073741823, 1073741824>>) = TRUE
       /\ SLeq(<<-7, 3>>, <<-2, 1>>) /\ ~SLeq(<<-2, 1>>, <<-7, 3>>) /\ SLeq(<<5, 8>>, <<5, 8>>)
       /\ \A a \in -4..4 : \A b \in 1..4 : \A c \in -4..4 : \A d \in 1..4 :
             LET x == Norm(a, b)  y == Norm(c, d) IN
             /\ SAdd(x, y) = RAdd(x, y) /\ SMul(x, y) = RMul(x, y) /\ SLeq(x, y) = RLeq(x, y)
             /\ (Cmp(x, y) <= 0) = RLeq(x, y)
\* vectors of dimension 1 or 2 as explicit tuples.  (LinForm!VAdd etc. build [k \in DOMAIN u |-> ..], which TLC keeps as a
\* lazy lambda and re-evaluates at every access; everything on the hot path of the trace validation uses these instead.)
TAdd(u, v) == IF Len(u) = 1 THEN <<SAdd(u[1], v[1])>> ELSE <<SAdd(u[1], v[1]), SAdd(u[2], v[2])>>
TSub(u, v) == IF Len(u) = 1 THEN <<SSub(u[1], v[1])>> ELSE <<SSub(u[1], v[1]), SSub(u[2], v[2])>>
TScale(s, u) == IF Len(u) = 1 THEN <<SMul(s, u[1])>> ELSE <<SMul(s, u[1]), SMul(s, u[2])>>
TDot(u, v) == IF Len(u) = 1 THEN SMul(u[1], v[1]) ELSE SAdd(SMul(u[1], v[1]), SMul(u[2], v[2]))
NSq(v) == TDot(v, v)
RHalf(a) == SMul(Half, a)
RMid(a, b) == RHalf(SAdd(a, b))
Range(s) == {s[i] : i \in DOMAIN s}

(* ------------------------------------------------------------------------------------------------------- *)
(* one-dimensional pieces  phi(t)  (three rational parameters)                                               *)
(*  qabs(a, m)      a/2 t^2 + m|t|                      kink at 0, subdifferential [-m, m]                   *)
(*  qhub(mu, a, dl) mu/2 t^2 + Huber_a,dl(t)            Huber: a/2 t^2 (|t| <= dl), a dl |t| - a dl^2/2      *)
(*  qk(a, s, dl)    a/2 t^2 (|t| <= dl), a dl^2/2 + s(|t| - dl) beyond;  kink at |t| = dl: [a dl, s]         *)
(*  relu(m)         max(0, m t), m >= 0                 kink at 0: [0, m]                                    *)
(*  plus2(a)        a/2 max(0, t)^2                     one-sided quadratic                                  *)
(*  vabs(a)         a/2 t|t|                            derivative a|t| (non-convex, a-smooth)               *)
(*  wave(a)         a/2 (t+1/2)^2 (t <= -1/4), a/16 - a/2 t^2 (|t| <= 1/4), a/2 (t-1/2)^2 (t >= 1/4): a-smooth,   *)
(*                  non-convex, THREE stationary points -1/2, 0, 1/2 with values 0, a/16, 0                  *)
(*  ind(lo, hi)     indicator of [lo, hi]               normal cone, truncated to [-2, 2]                    *)
(*  supp(lo, hi)    support function of [lo, hi]        max(lo t, hi t)                                      *)
(*  rsi(mu, L)      odd derivative L t (|t| <= 1/2), linear from L/2 to mu on [1/2, 1], mu t beyond          *)
(* ------------------------------------------------------------------------------------------------------- *)
Pc(t, a, b, c) == [t |-> t, p |-> <<a, b, c>>]
QAbs(a, m) == Pc("qabs", a, m, Z)
QHub(mu, a, dl) == Pc("qhub", mu, a, dl)
QK(a, s, dl) == Pc("qk", a, s, dl)
Relu(m) == Pc("relu", m, Z, Z)
Plus2(a) == Pc("plus2", a, Z, Z)
VAbs(a) == Pc("vabs", a, Z, Z)
Wave(a) == Pc("wave", a, Z, Z)
Ind(lo, hi) == Pc("ind", lo, hi, Z)
Supp(lo, hi) == Pc("supp", lo, hi, Z)
Rsi(mu, L) == Pc("rsi", mu, L, Z)
Aff(m) == Supp(m, m)                                   \* the linear function m t

RsiG(mu, L, s) == IF SLeq(s, Half) THEN SMul(L, s)
                  ELSE IF SLeq(s, One) THEN SAdd(RHalf(L), SMul(SSub(s, Half), SSub(SMul(Two, mu), L)))
                  ELSE SMul(mu, s)
RsiV(mu, L, s) == IF SLeq(s, Half) THEN RHalf(SMul(L, SSq(s)))
                  ELSE IF SLeq(s, One) THEN
                       LET u == SSub(s, Half) IN
                       SAdd(SAdd(SMul(L, Q(1, 8)), SMul(RHalf(L), u)), RHalf(SMul(SSub(SMul(Two, mu), L), SSq(u))))
                  ELSE SAdd(SMul(Q(1, 4), SAdd(L, mu)), RHalf(SMul(mu, SSub(SSq(s), One))))
SgnR(t) == RI(Sgn(t[1]))

PVal(pc, t) ==
  LET a == pc.p[1]  b == pc.p[2]  c == pc.p[3]  s == RAbs(t) IN
  CASE pc.t = "qabs" -> SAdd(RHalf(SMul(a, SSq(t))), SMul(b, s))
    [] pc.t = "qhub" -> SAdd(RHalf(SMul(a, SSq(t))),
                             IF SLeq(s, c) THEN RHalf(SMul(b, SSq(t)))
                             ELSE SSub(SMul(SMul(b, c), s), RHalf(SMul(b, SSq(c)))))
    [] pc.t = "qk" -> IF SLeq(s, c) THEN RHalf(SMul(a, SSq(t)))
                      ELSE SAdd(RHalf(SMul(a, SSq(c))), SMul(b, SSub(s, c)))
    [] pc.t = "relu" -> IF RPos(t) THEN SMul(a, t) ELSE Z
    [] pc.t = "plus2" -> IF RPos(t) THEN RHalf(SMul(a, SSq(t))) ELSE Z
    [] pc.t = "vabs" -> RHalf(SMul(a, SMul(t, s)))
    [] pc.t = "wave" -> IF SLeq(t, Q(-1, 4)) THEN RHalf(SMul(a, SSq(SAdd(t, Half))))
                        ELSE IF SLeq(t, Q(1, 4)) THEN SSub(SMul(a, Q(1, 16)), RHalf(SMul(a, SSq(t))))
                        ELSE RHalf(SMul(a, SSq(SSub(t, Half))))
    [] pc.t = "ind" -> Z
    [] pc.t = "supp" -> IF RGeq0(t) THEN SMul(b, t) ELSE SMul(a, t)
    [] pc.t = "rsi" -> RsiV(a, b, s)
PDom(pc, t) == pc.t = "ind" => (SLeq(pc.p[1], t) /\ SLeq(t, pc.p[2]))
\* the subdifferential at t as an interval <<l, u>> (every element of it is a subgradient)
PSub(pc, t) ==
  LET a == pc.p[1]  b == pc.p[2]  c == pc.p[3]  s == RAbs(t)  pt(v) == <<v, v>> IN
  CASE pc.t = "qabs" -> IF RIsZ(t) THEN <<RNeg(b), b>> ELSE pt(SAdd(SMul(a, t), SMul(b, SgnR(t))))
    [] pc.t = "qhub" -> pt(SAdd(SMul(a, t), IF SLeq(s, c) THEN SMul(b, t) ELSE SMul(SMul(b, c), SgnR(t))))
    [] pc.t = "qk" -> IF SLt(s, c) THEN pt(SMul(a, t))
                      ELSE IF s = c THEN (IF RPos(t) THEN <<SMul(a, c), b>> ELSE <<RNeg(b), RNeg(SMul(a, c))>>)
                      ELSE pt(SMul(b, SgnR(t)))
    [] pc.t = "relu" -> IF RIsZ(t) THEN <<Z, a>> ELSE IF RPos(t) THEN pt(a) ELSE pt(Z)
    [] pc.t = "plus2" -> IF RPos(t) THEN pt(SMul(a, t)) ELSE pt(Z)
    [] pc.t = "vabs" -> pt(SMul(a, s))
    [] pc.t = "wave" -> pt(IF SLeq(t, Q(-1, 4)) THEN SMul(a, SAdd(t, Half))
                           ELSE IF SLeq(t, Q(1, 4)) THEN RNeg(SMul(a, t)) ELSE SMul(a, SSub(t, Half)))
    [] pc.t = "ind" -> IF a = b THEN <<RI(-2), Two>> ELSE IF t = a THEN <<RI(-2), Z>> ELSE IF t = b THEN <<Z, Two>> ELSE pt(Z)
    [] pc.t = "supp" -> IF RIsZ(t) THEN <<a, b>> ELSE IF RPos(t) THEN pt(b) ELSE pt(a)
    [] pc.t = "rsi" -> pt(SMul(SgnR(t), RsiG(a, b, s)))
\* enumerated choices inside [l, u]: both end points, the mid point, and 0 when it is strictly inside
Picks(l, u) == IF l = u THEN <<l>>
               ELSE LET md == RMid(l, u) IN IF RNg(l) /\ RPos(u) /\ ~RIsZ(md) THEN <<l, u, md, Z>> ELSE <<l, u, md>>

(* ------------------------------------------------------------------------------------------------------- *)
(* members.  k = "sep":   f(x) = f0 + sum_i pc[i](x_i - c_i)          (dimension 1 or 2)                      *)
(*           k = "quadQ": f(x) = f0 + 1/2 (x-c)' A (x-c), A symmetric 2x2 with eigenvectors (1,1), (1,-1)     *)
(*           k = "lin":   the operator x |-> A (x - c) + b   (A row-major; dimension 1: one entry)            *)
(* v = infimal displacement vector (meaningful for the nonexpansive members only)                            *)
(* ------------------------------------------------------------------------------------------------------- *)
Mem(k, tag, dim, pc, A, c, b, f0, v) ==
  [k |-> k, tag |-> tag, dim |-> dim, pc |-> pc, A |-> A, c |-> c, b |-> b, f0 |-> f0, v |-> v]
Sep1(tag, p, c, f0) == Mem("sep", tag, 1, <<p>>, <<Z>>, <<c>>, <<Z>>, f0, <<Z>>)
Sep2(tag, p1, p2, c1, c2, f0) == Mem("sep", tag, 2, <<p1, p2>>, <<Z, Z, Z, Z>>, <<c1, c2>>, <<Z, Z>>, f0, <<Z, Z>>)
QuadQ(tag, l1, l2, c1, c2, f0) ==
  Mem("quadQ", tag, 2, <<>>, <<RMid(l1, l2), RHalf(SSub(l1, l2)), RHalf(SSub(l1, l2)), RMid(l1, l2)>>,
      <<c1, c2>>, <<Z, Z>>, f0, <<Z, Z>>)
Lin1(tag, a, c, b, v) == Mem("lin", tag, 1, <<>>, <<a>>, <<c>>, <<b>>, Z, <<v>>)
Lin2(tag, A, c1, c2, b1, b2, v1, v2) == Mem("lin", tag, 2, <<>>, A, <<c1, c2>>, <<b1, b2>>, Z, <<v1, v2>>)
Lin2o(tag, A) == Lin2(tag, A, Z, Z, Z, Z, Z, Z)
IJ(a, b) == <<a, RNeg(b), b, a>>                       \* a I + b J,  J = rotation by 90 degrees
Dg(a, b) == <<a, Z, Z, b>>
S45(l1, l2) == <<RMid(l1, l2), RHalf(SSub(l1, l2)), RHalf(SSub(l1, l2)), RMid(l1, l2)>>

MatVec(A, dim, y) == IF dim = 1 THEN <<SMul(A[1], y[1])>>
                     ELSE <<SAdd(SMul(A[1], y[1]), SMul(A[2], y[2])), SAdd(SMul(A[3], y[1]), SMul(A[4], y[2]))>>
MatTVec(A, dim, y) == IF dim = 1 THEN <<SMul(A[1], y[1])>>
                      ELSE <<SAdd(SMul(A[1], y[1]), SMul(A[3], y[2])), SAdd(SMul(A[2], y[1]), SMul(A[4], y[2]))>>
HasOvf(v) == \E i \in 1..Len(v) : v[i][2] = 0
OvfVec(dim) == IF dim = 1 THEN <<OVF>> ELSE <<OVF, OVF>>
\* (an argument that cannot be represented makes the result OVF; the trace validation then drops the assignment)
MDom(m, x) == LET y == TSub(x, m.c) IN HasOvf(y) \/ (m.k = "sep" => \A i \in 1..m.dim : PDom(m.pc[i], y[i]))
MVal(m, x) ==
  LET y == TSub(x, m.c) IN
  IF HasOvf(y) THEN OVF ELSE
  CASE m.k = "sep" -> IF m.dim = 1 THEN SAdd(m.f0, PVal(m.pc[1], y[1]))
                      ELSE SAdd(m.f0, SAdd(PVal(m.pc[1], y[1]), PVal(m.pc[2], y[2])))
    [] m.k = "quadQ" -> SAdd(m.f0, RHalf(TDot(y, MatVec(m.A, 2, y))))
    [] m.k = "lin" -> Z
\* the enumerated admissible (sub)gradients / operator values at x, as a sequence of vectors
MGrads(m, x) ==
  LET y == TSub(x, m.c) IN
  IF HasOvf(y) THEN << OvfVec(m.dim) >> ELSE
  CASE m.k = "sep" ->
         IF m.dim = 1 THEN LET s == PSub(m.pc[1], y[1])  P == Picks(s[1], s[2])
                           IN [i \in 1..Len(P) |-> <<P[i]>>]
         ELSE LET s1 == PSub(m.pc[1], y[1])  P1 == Picks(s1[1], s1[2])
                  s2 == PSub(m.pc[2], y[2])  P2 == Picks(s2[1], s2[2])
              IN [k \in 1..(Len(P1) * Len(P2)) |-> <<P1[((k - 1) \div Len(P2)) + 1], P2[((k - 1) % Len(P2)) + 1]>>]
    [] m.k = "quadQ" -> <<MatVec(m.A, 2, y)>>
    [] m.k = "lin" -> <<TAdd(MatVec(m.A, m.dim, y), m.b)>>
MOp(m, x) == MGrads(m, x)[1]                           \* single-valued members
MGradT(m, x) == MatTVec(m.A, m.dim, x)                  \* adjoint of a linear member (c = b = 0)

(* ---- grids --------------------------------------------------------------------------------------------- *)
H1 == <<RI(-1), Q(-1, 2), Z, Half, One>>
Full(dim) == IF dim = 1 THEN [i \in 1..5 |-> <<H1[i]>>]
             ELSE [k \in 1..25 |-> <<H1[((k - 1) \div 5) + 1], H1[((k - 1) % 5) + 1]>>]
Free(dim) == IF GridMode = 1
             THEN (IF dim = 1 THEN << <<RI(-1)>>, <<Z>>, <<Half>> >>
                   ELSE << <<Z, Z>>, <<One, Z>>, <<Q(-1, 2), One>>, <<Half, Q(-1, 2)>> >>)
             ELSE (IF dim = 1 THEN Full(1)
                   ELSE << <<Z, Z>>, <<One, Z>>, <<Q(-1, 2), One>>, <<Half, Q(-1, 2)>>, <<RI(-1), Q(-1, 2)>> >>)
ZeroVec(dim) == IF dim = 1 THEN <<Z>> ELSE <<Z, Z>>
DomPts(m) == SelectSeq(Full(m.dim), LAMBDA x : MDom(m, x))
\* where stationary points, fixed points and points attaining the infimal displacement are looked for
H3 == <<Q(-1, 2), Z, Half>>
Special(dim) == IF dim = 1 THEN Full(1) ELSE [k \in 1..9 |-> <<H3[((k - 1) \div 3) + 1], H3[((k - 1) % 3) + 1]>>]
SpecialPts(m) == SelectSeq(Special(m.dim), LAMBDA x : MDom(m, x))
StatSeq(m) == SelectSeq(SpecialPts(m), LAMBDA x : ZeroVec(m.dim) \in Range(MGrads(m, x)))
FixSeq(m) == SelectSeq(SpecialPts(m), LAMBDA x : x \in Range(MGrads(m, x)))
\* points where the infimal displacement vector is attained: x - T x = v
AttSeq(m) == SelectSeq(SpecialPts(m), LAMBDA x : TSub(x, MOp(m, x)) = m.v)

(* ---- the members of each class ------------------------------------------------------------------------- *)
\* P = the class parameters in the order of the constructor; BlockSmoothConvexFunction: one constant per block;
\* NonexpansiveOperator: <<vm>>, vm = 0 (no v) / 1 (v is a leaf point) / 2 (v = xs - T xs as in the shipped example)
MembersOf(cls, P) ==
  CASE cls = "ConvexFunction" ->
         << Sep1("quad-1d", QAbs(Two, Z), Half, One), Sep1("abs-1d", QAbs(Z, One), Z, Z),
            Sep1("abs-1d-shift", QAbs(Z, Two), Half, Z), Sep1("relu-1d", Relu(One), Z, Z),
            Sep1("huber-1d", QHub(Z, Two, Half), Z, Z), Sep1("affine-1d", Aff(One), Z, Z),
            Sep1("indicator-1d", Ind(Q(-1, 2), One), Z, Z), Sep1("quad-abs-1d", QAbs(One, One), Z, Z),
            Sep2("l1-2d", QAbs(Z, One), QAbs(Z, Half), Z, Z, Z), Sep2("quad+abs-2d", QAbs(One, Z), QAbs(Z, One), Half, Z, Z),
            QuadQ("quadQ45-2d", Z, Two, Z, Z, Z) >>
    [] cls = "StronglyConvexFunction" ->
         LET mu == P[1] IN
         << Sep1("quad-1d-mu", QAbs(mu, Z), Half, Z), Sep1("quad-abs-1d", QAbs(mu, One), Z, Z),
            Sep1("quad-1d", QAbs(SAdd(mu, One), Z), Z, One), Sep1("quad-abs-1d-shift", QAbs(mu, Half), Half, Z),
            Sep2("quad+quad-abs-2d", QAbs(mu, Z), QAbs(mu, One), Z, Z, Z), QuadQ("quadQ45-2d", mu, SAdd(mu, One), Z, Half, Z) >>
    [] cls = "SmoothFunction" ->
         LET L == P[1] IN
         << Sep1("quad-1d-L", QAbs(L, Z), Half, Z), Sep1("concave-quad-1d", QAbs(RNeg(L), Z), Z, One),
            Sep1("quad-1d-half", QAbs(RHalf(L), Z), Z, Z), Sep1("const-1d", QAbs(Z, Z), Z, One),
            Sep1("x|x|-1d", VAbs(L), Z, Z), Sep1("huber-1d", QHub(Z, L, Half), Z, Z), Sep1("affine-1d", Aff(One), Z, Z),
            Sep1("wave-1d", Wave(L), Z, Z),
            Sep2("saddle-diag-2d", QAbs(L, Z), QAbs(RNeg(L), Z), Z, Z, Z), QuadQ("saddle-45-2d", L, RNeg(L), Half, Z, Z),
            Sep2("x|x|+concave-2d", VAbs(L), QAbs(RNeg(RHalf(L)), Z), Z, Z, Z) >>
    [] cls = "SmoothConvexFunction" ->
         LET L == P[1] IN
         << Sep1("quad-1d-L", QAbs(L, Z), Half, Z), Sep1("quad-1d-half", QAbs(RHalf(L), Z), Z, One),
            Sep1("affine-1d", Aff(One), Z, Z), Sep1("huber-1d", QHub(Z, L, Half), Z, Z), Sep1("plus2-1d", Plus2(L), Z, Z),
            Sep2("diag(L,0)-2d", QAbs(L, Z), QAbs(Z, Z), Z, Z, Z), Sep2("huber+quad-2d", QHub(Z, L, Half), QAbs(RHalf(L), Z), Z, Half, Z),
            QuadQ("quadQ45(L,0)-2d", L, Z, Z, Z, Z) >>
    [] cls = "SmoothStronglyConvexFunction" ->
         LET mu == P[1]  L == P[2] IN
         << Sep1("quad-1d-mu", QAbs(mu, Z), Half, Z), Sep1("quad-1d-L", QAbs(L, Z), Z, One),
            Sep1("quad-1d-mid", QAbs(RMid(mu, L), Z), Z, Z), Sep1("mu-quad+huber-1d", QHub(mu, SSub(L, mu), Half), Z, Z),
            Sep2("diag(mu,L)-2d", QAbs(mu, Z), QAbs(L, Z), Half, Z, Z), QuadQ("quadQ45(mu,L)-2d", mu, L, Z, Z, Z),
            Sep2("mu-quad+huber,L-2d", QHub(mu, SSub(L, mu), Half), QAbs(L, Z), Z, Z, Z) >>
    [] cls = "ConvexLipschitzFunction" ->
         LET M == P[1] IN
         << Sep1("abs-1d-M", QAbs(Z, M), Z, Z), Sep1("abs-1d-half-shift", QAbs(Z, RHalf(M)), Half, One),
            Sep1("relu-1d-M", Relu(M), Z, Z), Sep1("huber-1d-capM", QHub(Z, SMul(Two, M), Half), Z, Z),
            Sep1("affine-1d-M", Aff(M), Z, Z), Sep1("kinked-quad-1d", QK(M, M, Half), Z, Z),
            Sep2("l1-345-2d", QAbs(Z, SMul(Q(3, 5), M)), QAbs(Z, SMul(Q(4, 5), M)), Z, Z, Z),
            Sep2("abs+const-2d", QAbs(Z, M), QAbs(Z, Z), Z, Half, Z) >>
    [] cls = "SmoothConvexLipschitzFunction" ->
         LET L == P[1]  M == P[2]  dl == SMin(SDiv(M, L), One) IN
         << Sep1("huber-1d-L-capM", QHub(Z, L, dl), Z, Z), Sep1("huber-1d-half", QHub(Z, RHalf(L), dl), Half, Z),
            Sep1("affine-1d-M", Aff(M), Z, One), Sep1("const-1d", QAbs(Z, Z), Z, Z),
            Sep2("huber+affine-345-2d", QHub(Z, L, SMin(SDiv(SMul(Q(3, 5), M), L), One)), Aff(SMul(Q(4, 5), M)), Z, Z, Z),
            Sep2("huber+const-2d", QHub(Z, L, dl), QAbs(Z, Z), Z, Z, Z) >>
    [] cls = "ConvexQGFunction" ->
         LET L == P[1] IN
         << Sep1("quad-1d-L", QAbs(L, Z), Half, Z), Sep1("quad-1d-half", QAbs(RHalf(L), Z), Z, One),
            Sep1("huber-1d", QHub(Z, L, Half), Z, Z), Sep1("plus2-1d", Plus2(L), Z, Z), Sep1("const-1d", QAbs(Z, Z), Z, Z),
            Sep1("kinked-quad-1d", QK(SMul(Q(3, 4), L), SMul(Q(3, 4), L), Half), Z, Z),
            Sep2("diag(L,0)-2d", QAbs(L, Z), QAbs(Z, Z), Z, Z, Z), QuadQ("quadQ45(L,0)-2d", L, Z, Z, Z, Z),
            Sep2("huber+plus2-2d", QHub(Z, L, Half), Plus2(L), Z, Z, Z) >>
    [] cls = "RsiEbFunction" ->
         LET mu == P[1]  L == P[2] IN
         << Sep1("quad-1d-mu", QAbs(mu, Z), Half, Z), Sep1("quad-1d-L", QAbs(L, Z), Z, Z),
            Sep1("quad-1d-mid", QAbs(RMid(mu, L), Z), Z, One), Sep1("mu-quad+huber-1d", QHub(mu, SSub(L, mu), Half), Z, Z),
            Sep2("diag(mu,L)-2d", QAbs(mu, Z), QAbs(L, Z), Z, Z, Z), QuadQ("quadQ45(mu,L)-2d", mu, L, Z, Half, Z) >>
         \o (IF RPos(mu) THEN << Sep1("nonconvex-rsi-1d", Rsi(mu, L), Z, Z),
                                 Sep2("nonconvex-rsi+quad-2d", Rsi(mu, L), QAbs(L, Z), Z, Z, Z) >> ELSE <<>>)
    [] cls = "ConvexIndicatorFunction" ->
         LET D == P[1] IN
         IF IsInf(D) THEN
           << Sep1("interval-1d", Ind(RI(-1), Half), Z, Z), Sep1("whole-line", QAbs(Z, Z), Z, Z),
              Sep1("singleton-1d", Ind(Z, Z), Half, Z), Sep1("big-interval-1d", Ind(RI(-4), RI(4)), Z, Z),
              Sep2("box-2d", Ind(RI(-1), One), Ind(Z, One), Z, Z, Z), Sep2("halfplane-ish-2d", Ind(Z, RI(4)), QAbs(Z, Z), Z, Z, Z) >>
         ELSE
           << Sep1("interval-1d-D", Ind(Z, D), IF D = One THEN Z ELSE RI(-1), Z), Sep1("interval-1d-half", Ind(Z, RHalf(D)), Z, Z),
              Sep1("singleton-1d", Ind(Z, Z), Half, Z),
              Sep2("segment-2d-D", Ind(Z, D), Ind(Z, Z), IF D = One THEN Z ELSE RI(-1), Z, Z),
              Sep2("box-2d", Ind(Z, RHalf(D)), Ind(Z, RHalf(D)), Z, Z, Z) >>
    [] cls = "ConvexSupportFunction" ->
         LET M == IF IsInf(P[1]) THEN Two ELSE P[1] IN
         << Sep1("support[-M,M]-1d", Supp(RNeg(M), M), Z, Z), Sep1("support[0,M]-1d", Supp(Z, M), Z, Z),
            Sep1("support[-M/2,M]-1d", Supp(RNeg(RHalf(M)), M), Z, Z), Sep1("support{M}-1d", Aff(M), Z, Z),
            Sep2("support-box-345-2d", Supp(RNeg(SMul(Q(3, 5), M)), SMul(Q(3, 5), M)), Supp(RNeg(SMul(Q(4, 5), M)), SMul(Q(4, 5), M)), Z, Z, Z),
            Sep2("support-segment-2d", Supp(Z, M), Supp(Z, Z), Z, Z, Z) >>
    [] cls = "SmoothStronglyConvexQuadraticFunction" ->
         LET mu == P[1]  L == P[2] IN
         << Sep1("quad-1d-mu", QAbs(mu, Z), Half, One), Sep1("quad-1d-L", QAbs(L, Z), Z, Z),
            Sep1("quad-1d-mid", QAbs(RMid(mu, L), Z), Q(-1, 2), RI(-1)),
            Sep2("diag(mu,L)-2d", QAbs(mu, Z), QAbs(L, Z), Half, Z, Z), QuadQ("quadQ45(mu,L)-2d", mu, L, Z, Half, RI(-1)),
            QuadQ("quadQ45(mid,L)-2d", RMid(mu, L), L, Z, Z, Z) >>
    [] cls = "BlockSmoothConvexFunction" ->
         IF Len(P) = 1 THEN
           LET L == P[1] IN
           << Sep1("quad-1d-L", QAbs(L, Z), Half, Z), Sep1("huber-1d", QHub(Z, L, Half), Z, Z), Sep1("plus2-1d", Plus2(L), Z, Z),
              Sep2("diag(L,0)-2d", QAbs(L, Z), QAbs(Z, Z), Z, Z, Z), QuadQ("quadQ45(L,0)-2d", L, Z, Z, Z, Z) >>
         ELSE
           LET L1 == P[1]  L2 == P[2]  mn == SMin(L1, L2) IN
           << Sep2("diag(L1,L2)-2d", QAbs(L1, Z), QAbs(L2, Z), Half, Z, Z), Sep2("huber+plus2-2d", QHub(Z, L1, Half), Plus2(L2), Z, Z, Z),
              QuadQ("coupled-(x+y)^2-2d", SMul(Two, mn), Z, Z, Z, Z), Sep2("diag(L1/2,0)-2d", QAbs(RHalf(L1), Z), QAbs(Z, Z), Z, Z, One),
              QuadQ("coupled-shift-2d", SMul(Two, mn), Z, Half, Z, Z) >>
    [] cls = "CocoerciveOperator" ->
         LET a == RInv(P[1]) IN
         << Lin1("aI-1d-max", a, Half, Z, Z), Lin1("aI-1d-half+shift", RHalf(a), Z, One, Z), Lin1("zero-1d", Z, Z, Z, Z),
            Lin2o("aI+bJ-tight-2d", IJ(RHalf(a), RHalf(a))), Lin2o("diag(a,0)-2d", Dg(a, Z)), Lin2o("sym45(a,0)-2d", S45(a, Z)),
            Sep1("grad-huber-1d", QHub(Z, a, Half), Z, Z), Sep1("grad-plus2-1d", Plus2(a), Z, Z) >>
    [] cls = "CocoerciveStronglyMonotoneOperator" ->
         LET mu == P[1]  a == RInv(P[2]) IN
         << Lin1("aI-1d-mu", mu, Half, Z, Z), Lin1("aI-1d-max", a, Z, One, Z), Lin1("aI-1d-mid", RMid(mu, a), Z, Z, Z),
            Lin2o("diag(mu,a)-2d", Dg(mu, a)), Lin2o("sym45(mu,a)-2d", S45(mu, a)), Lin2o("aI+bJ-tight-2d", IJ(RHalf(a), RHalf(a))),
            Sep1("grad-mu-quad+huber-1d", QHub(mu, SSub(a, mu), Half), Z, Z) >>
    [] cls = "LinearOperator" ->
         LET L == P[1] IN
         << Lin1("aI-1d-L", L, Z, Z, Z), Lin1("aI-1d-negL", RNeg(L), Z, Z, Z), Lin1("zero-1d", Z, Z, Z, Z),
            Lin2o("diag(L,-L/2)-2d", Dg(L, RNeg(RHalf(L)))), Lin2o("rotation-LJ-2d", IJ(Z, L)),
            Lin2o("aI+bJ-345-2d", IJ(SMul(Q(3, 5), L), SMul(Q(4, 5), L))), Lin2o("nilpotent-2d", <<Z, L, Z, Z>>),
            Lin2o("sym45(L,-L)-2d", S45(L, RNeg(L))), Lin2o("rank1-2d", <<RHalf(L), RHalf(L), Z, Z>>) >>
    [] cls = "LipschitzOperator" ->
         LET L == P[1] IN
         << Lin1("aI-1d-L+shift", L, Z, Half, Z), Lin1("aI-1d-negL", RNeg(L), Half, Z, Z),
            Lin2("rotation-LJ+shift-2d", IJ(Z, L), Z, Z, Half, Z, Z, Z), Lin2o("aI+bJ-345-2d", IJ(SMul(Q(3, 5), L), SMul(Q(4, 5), L))),
            Lin2o("diag(L,0)-2d", Dg(L, Z)), Lin2o("nilpotent-2d", <<Z, L, Z, Z>>),
            Sep1("L|x|-1d", VAbs(L), Z, Z), Sep1("clip-1d", QHub(Z, L, Half), Z, Z) >>
    [] cls = "LipschitzStronglyMonotoneOperator" ->
         LET mu == P[1]  L == P[2] IN
         << Lin1("aI-1d-mu", mu, Half, Z, Z), Lin1("aI-1d-L", L, Z, One, Z), Lin1("aI-1d-mid", RMid(mu, L), Z, Z, Z),
            Lin2o("diag(mu,L)-2d", Dg(mu, L)), Lin2o("muI+(L/2)J-2d", IJ(mu, RHalf(L))),
            Lin2o("aI+bJ-345-2d", IJ(SMul(Q(3, 5), L), SMul(Q(4, 5), L))), Sep1("grad-mu-quad+huber-1d", QHub(mu, SSub(L, mu), Half), Z, Z) >>
         \o (IF RIsZ(mu) THEN << Lin2o("rotation-LJ-2d", IJ(Z, L)) >> ELSE <<>>)
    [] cls = "MonotoneOperator" ->
         << Lin1("aI-1d", Two, Half, Z, Z), Lin1("const-1d", Z, Z, One, Z), Lin2o("rotation-J-2d", IJ(Z, One)),
            Lin2("aI+bJ+shift-2d", IJ(One, RI(-2)), Z, Z, Half, Z, Z, Z), Sep1("subdiff-abs-1d", QAbs(Z, One), Z, Z),
            Sep1("subdiff-relu-1d", Relu(Two), Half, Z), Sep1("normal-cone-1d", Ind(Q(-1, 2), One), Z, Z),
            Sep2("subdiff-l1-2d", QAbs(Z, One), QAbs(Z, Half), Z, Z, Z), QuadQ("grad-quadQ45-2d", Z, Two, Z, Z, Z) >>
    [] cls = "NegativelyComonotoneOperator" ->
         LET r == RInv(P[1]) IN
         << Lin1("aI-1d-(-1/rho)", RNeg(r), Z, Z, Z), Lin1("aI-1d-(-2/rho)+shift", RNeg(SMul(Two, r)), Half, One, Z),
            Lin1("zero-1d", Z, Z, Z, Z), Lin1("aI-1d-monotone", One, Z, Half, Z),
            Lin2o("aI+bJ-tight-2d", IJ(RNeg(RHalf(r)), RHalf(r))), Lin2o("diag(-1/rho,1)-2d", Dg(RNeg(r), One)),
            Lin2o("rotation-J-2d", IJ(Z, One)), Sep1("grad-plus2-1d", Plus2(One), Z, Z),
            \* multi-valued members (every monotone operator is negatively comonotone)
            Sep1("subdiff-abs-1d", QAbs(Z, One), Z, Z), Sep1("normal-cone-1d", Ind(Q(-1, 2), One), Z, Z) >>
    [] cls = "NonexpansiveOperator" ->
         << Lin1("identity-1d", One, Z, Z, Z), Lin1("reflection-1d", RI(-1), Half, Half, Z), Lin1("contraction-1d", Half, Half, Half, Z),
            Lin1("translation-1d", One, Z, Half, Q(-1, 2)), Lin2o("rotation-J-2d", IJ(Z, One)),
            Lin2o("aI+bJ-345-2d", IJ(Q(3, 5), Q(4, 5))), Lin2("translation-2d", Dg(One, One), Z, Z, Half, RI(-1), Q(-1, 2), One),
            Lin2("translate+contract-2d", Dg(One, Half), Z, Z, Half, Z, Q(-1, 2), Z),
            Sep1("clip-1d", QHub(Z, One, Half), Z, Z), Sep1("|x|-1d", VAbs(One), Z, Z) >>
    [] cls = "SkewSymmetricLinearOperator" ->
         LET L == P[1] IN
         << Lin2o("LJ-2d", IJ(Z, L)), Lin2o("-LJ-2d", IJ(Z, RNeg(L))), Lin2o("(L/2)J-2d", IJ(Z, RHalf(L))),
            Lin2o("zero-2d", IJ(Z, Z)), Lin1("zero-1d", Z, Z, Z, Z) >>
    [] cls = "StronglyMonotoneOperator" ->
         LET mu == P[1] IN
         << Lin1("aI-1d-mu", mu, Half, Z, Z), Lin1("aI-1d+shift", SAdd(mu, One), Z, One, Z),
            Lin2o("muI+J-2d", IJ(mu, One)), Lin2o("diag(mu,mu+1)-2d", Dg(mu, SAdd(mu, One))),
            Sep1("subdiff-mu-quad+abs-1d", QAbs(mu, One), Z, Z), Sep2("subdiff-mu-quad+l1-2d", QAbs(mu, One), QAbs(mu, Z), Z, Z, Z) >>
    [] cls = "SymmetricLinearOperator" ->
         LET mu == P[1]  L == P[2] IN
         << Lin1("aI-1d-mu", mu, Z, Z, Z), Lin1("aI-1d-L", L, Z, Z, Z), Lin1("aI-1d-mid", RMid(mu, L), Z, Z, Z),
            Lin2o("diag(mu,L)-2d", Dg(mu, L)), Lin2o("sym45(mu,L)-2d", S45(mu, L)), Lin2o("sym45(mid,L)-2d", S45(RMid(mu, L), L)) >>

(* ------------------------------------------------------------------------------------------------------- *)
(* membership by DEFINITION, on all pairs of the full grid; returns the set of failing clauses               *)
(* ------------------------------------------------------------------------------------------------------- *)
XGs(m) == LET D == DomPts(m) IN UNION {{<<D[i], g>> : g \in Range(MGrads(m, D[i]))} : i \in 1..Len(D)}
Dset(m) == Range(DomPts(m))
Cl(name, ok) == IF ok THEN {} ELSE {name}
\* f(y) >= f(x) + <g, y - x> + mu/2 |y - x|^2  for every subgradient g offered at x
ConvexF(m, mu) == Cl("convexity-by-definition",
   \A p \in XGs(m) : \A y \in Dset(m) :
      LET d == TSub(y, p[1]) IN SLeq(SAdd(SAdd(MVal(m, p[1]), TDot(p[2], d)), RHalf(SMul(mu, NSq(d)))), MVal(m, y)))
\* |g_x - g_y| <= L |x - y|  (also forces a single value per point)
LipG(m, L) == Cl("lipschitz-by-definition",
   \A p \in XGs(m) : \A q \in XGs(m) : SLeq(NSq(TSub(p[2], q[2])), SMul(SSq(L), NSq(TSub(p[1], q[1])))))
\* <g_x - g_y, x - y> >= mu |x - y|^2
MonoG(m, mu) == Cl("monotonicity-by-definition",
   \A p \in XGs(m) : \A q \in XGs(m) : SLeq(SMul(mu, NSq(TSub(p[1], q[1]))), TDot(TSub(p[2], q[2]), TSub(p[1], q[1]))))
\* <g_x - g_y, x - y> >= beta |g_x - g_y|^2   (beta may be negative: negative comonotonicity)
CocoG(m, beta) == Cl("cocoercivity-by-definition",
   \A p \in XGs(m) : \A q \in XGs(m) : SLeq(SMul(beta, NSq(TSub(p[2], q[2]))), TDot(TSub(p[2], q[2]), TSub(p[1], q[1]))))
BoundG(m, M) == Cl("gradient-bound", \A p \in XGs(m) : SLeq(NSq(p[2]), SSq(M)))
LipF(m, M) == Cl("lipschitz-function-by-definition",
   \A x \in Dset(m) : \A y \in Dset(m) : SLeq(SSq(SSub(MVal(m, x), MVal(m, y))), SMul(SSq(M), NSq(TSub(x, y)))))
HasStat(m) == Cl("has-a-stationary-point", Len(StatSeq(m)) > 0)
QGF(m, L) == Cl("quadratic-upper-bound-by-definition",
   \A xs \in Range(StatSeq(m)) : \A x \in Dset(m) : SLeq(SSub(MVal(m, x), MVal(m, xs)), RHalf(SMul(L, NSq(TSub(x, xs))))))
RsiF(m, mu) == Cl("restricted-secant-by-definition",
   \A xs \in Range(StatSeq(m)) : \A p \in XGs(m) : SLeq(SMul(mu, NSq(TSub(p[1], xs))), TDot(p[2], TSub(p[1], xs))))
EbF(m, L) == Cl("error-bound-by-definition",
   \A xs \in Range(StatSeq(m)) : \A p \in XGs(m) : SLeq(NSq(p[2]), SMul(SSq(L), NSq(TSub(p[1], xs)))))
IndF(m, D) == Cl("indicator-by-definition",
      /\ Len(DomPts(m)) > 0
      /\ \A x \in Dset(m) : RIsZ(MVal(m, x))
      /\ \A p \in XGs(m) : \A y \in Dset(m) : RLeq0(TDot(p[2], TSub(y, p[1])))         \* normal cone
      /\ IsInf(D) \/ \A x \in Dset(m) : \A y \in Dset(m) : SLeq(NSq(TSub(x, y)), SSq(D)))
\* support function of the box prod [lo_i, hi_i]: sigma(x) = max over the vertices v of <v, x>; C inside the M-ball
SuppF(m, M) ==
   LET lo(i) == m.pc[i].p[1]  hi(i) == m.pc[i].p[2]
       Vert == IF m.dim = 1 THEN {<<lo(1)>>, <<hi(1)>>} ELSE {<<a, b>> : a \in {lo(1), hi(1)}, b \in {lo(2), hi(2)}}
       mx(x) == CHOOSE s \in {TDot(v, x) : v \in Vert} : \A v \in Vert : SLeq(TDot(v, x), s)
   IN Cl("support-function-by-definition",
      /\ \A i \in 1..m.dim : m.pc[i].t = "supp" /\ SLeq(lo(i), hi(i)) /\ RIsZ(m.c[i])
      /\ RIsZ(m.f0)
      /\ \A x \in Dset(m) : MVal(m, x) = mx(x)
      /\ IsInf(M) \/ \A v \in Vert : SLeq(NSq(v), SSq(M))
      /\ \A p \in XGs(m) : \A i \in 1..m.dim : SLeq(lo(i), p[2][i]) /\ SLeq(p[2][i], hi(i)))    \* subgradients lie in C
\* exact second-order expansion with a symmetric Hessian: f(y) = f(x) + <g_x, y-x> + 1/2 <g_y - g_x, y - x>
QuadF(m) == Cl("quadratic-by-definition",
   \A p \in XGs(m) : \A q \in XGs(m) :
      LET d == TSub(q[1], p[1]) IN MVal(m, q[1]) = SAdd(SAdd(MVal(m, p[1]), TDot(p[2], d)), RHalf(TDot(TSub(q[2], p[2]), d))))
\* block k = coordinate k: the partial gradient along block k is L_k-Lipschitz along block k
BlockF(m, Ls) == Cl("block-smoothness-by-definition",
   IF Len(Ls) = 1 THEN LipG(m, Ls[1]) = {}
   ELSE m.dim = 2 /\ \A k \in 1..2 : \A p \in XGs(m) : \A q \in XGs(m) :
          (p[1][3 - k] = q[1][3 - k]) => SLeq(SSq(SSub(p[2][k], q[2][k])), SMul(SSq(Ls[k]), SSq(SSub(p[1][k], q[1][k])))))
\* linearity: T(x + y) = T x + T y, T(2x) = 2 T x (T is defined on every rational vector), adjoint identity
LinearO(m) == Cl("linearity-by-definition",
   /\ m.k = "lin"
   /\ \A x \in Dset(m) : \A y \in Dset(m) :
        /\ MOp(m, TAdd(x, y)) = TAdd(MOp(m, x), MOp(m, y))
        /\ TDot(MOp(m, x), y) = TDot(x, MGradT(m, y))
   /\ \A x \in Dset(m) : MOp(m, TScale(Two, x)) = TScale(Two, MOp(m, x)))
NormO(m, L) == Cl("operator-norm-by-definition",
   \A x \in Dset(m) : SLeq(NSq(MOp(m, x)), SMul(SSq(L), NSq(x))) /\ SLeq(NSq(MGradT(m, x)), SMul(SSq(L), NSq(x))))
SymO(m, s) == Cl("(skew-)symmetry-by-definition",
   \A x \in Dset(m) : \A y \in Dset(m) : TDot(MOp(m, x), y) = SMul(s, TDot(x, MOp(m, y))))
SpecO(m, mu, L) == Cl("spectrum-by-definition",
   \A x \in Dset(m) : SLeq(SMul(mu, NSq(x)), TDot(MOp(m, x), x)) /\ SLeq(TDot(MOp(m, x), x), SMul(L, NSq(x))))
\* v = the element of minimal norm of the (closed) range of Id - T, attained on the grid
InfDispO(m) == Cl("infimal-displacement-by-definition",
   /\ Len(AttSeq(m)) > 0
   /\ \A x \in Dset(m) : SLeq(NSq(m.v), NSq(TSub(x, MOp(m, x))))
   /\ (Len(FixSeq(m)) > 0 => VIsZero(m.v)))

DefFails(cls, P, m) ==
  CASE cls = "ConvexFunction" -> ConvexF(m, Z)
    [] cls = "StronglyConvexFunction" -> ConvexF(m, P[1])
    [] cls = "SmoothFunction" -> LipG(m, P[1])
    [] cls = "SmoothConvexFunction" -> ConvexF(m, Z) \cup LipG(m, P[1])
    [] cls = "SmoothStronglyConvexFunction" -> ConvexF(m, P[1]) \cup LipG(m, P[2])
    [] cls = "ConvexLipschitzFunction" -> ConvexF(m, Z) \cup LipF(m, P[1]) \cup BoundG(m, P[1])
    [] cls = "SmoothConvexLipschitzFunction" -> ConvexF(m, Z) \cup LipG(m, P[1]) \cup LipF(m, P[2]) \cup BoundG(m, P[2])
    [] cls = "ConvexQGFunction" -> ConvexF(m, Z) \cup HasStat(m) \cup QGF(m, P[1])
    [] cls = "RsiEbFunction" -> HasStat(m) \cup RsiF(m, P[1]) \cup EbF(m, P[2])
    [] cls = "ConvexIndicatorFunction" -> ConvexF(m, Z) \cup IndF(m, P[1])
    [] cls = "ConvexSupportFunction" -> ConvexF(m, Z) \cup SuppF(m, P[1])
    [] cls = "SmoothStronglyConvexQuadraticFunction" -> QuadF(m) \cup ConvexF(m, P[1]) \cup LipG(m, P[2]) \cup HasStat(m)
    [] cls = "BlockSmoothConvexFunction" -> ConvexF(m, Z) \cup BlockF(m, P)
    [] cls = "CocoerciveOperator" -> CocoG(m, P[1])
    [] cls = "CocoerciveStronglyMonotoneOperator" -> MonoG(m, P[1]) \cup CocoG(m, P[2])
    [] cls = "LinearOperator" -> LinearO(m) \cup NormO(m, P[1])
    [] cls = "LipschitzOperator" -> LipG(m, P[1])
    [] cls = "LipschitzStronglyMonotoneOperator" -> MonoG(m, P[1]) \cup LipG(m, P[2])
    [] cls = "MonotoneOperator" -> MonoG(m, Z)
    [] cls = "NegativelyComonotoneOperator" -> CocoG(m, RNeg(P[1]))
    [] cls = "NonexpansiveOperator" -> LipG(m, One) \cup InfDispO(m)
    [] cls = "SkewSymmetricLinearOperator" -> LinearO(m) \cup NormO(m, P[1]) \cup SymO(m, MOne)
    [] cls = "StronglyMonotoneOperator" -> MonoG(m, P[1])
    [] cls = "SymmetricLinearOperator" -> LinearO(m) \cup SymO(m, One) \cup SpecO(m, P[1], P[2])

(* ---- near misses: functions / operators just OUTSIDE each class; the definition check must reject them ---- *)
(* (this validates that DefFails discriminates on the grid; the model run fails if one of them is accepted)    *)
NonMembersOf(cls, P) ==
  CASE cls = "ConvexFunction" -> << Sep1("concave-quad", QAbs(RI(-1), Z), Z, Z), Sep1("x|x|", VAbs(One), Z, Z) >>
    [] cls = "StronglyConvexFunction" -> IF RPos(P[1]) THEN << Sep1("quad-mu/2", QAbs(RHalf(P[1]), Z), Z, Z), Sep1("abs", QAbs(Z, One), Z, Z) >> ELSE <<>>
    [] cls = "SmoothFunction" -> << Sep1("quad-2L", QAbs(SMul(Two, P[1]), Z), Z, Z), Sep1("abs", QAbs(Z, One), Z, Z),
                                    Sep1("concave-quad-2L", QAbs(RNeg(SMul(Two, P[1])), Z), Z, Z) >>
    [] cls = "SmoothConvexFunction" -> << Sep1("quad-2L", QAbs(SMul(Two, P[1]), Z), Z, Z), Sep1("concave-quad", QAbs(RNeg(P[1]), Z), Z, Z),
                                          QuadQ("saddle", P[1], RNeg(P[1]), Z, Z, Z) >>
    [] cls = "SmoothStronglyConvexFunction" ->
         << Sep1("quad-2L", QAbs(SMul(Two, P[2]), Z), Z, Z) >> \o
         (IF RPos(P[1]) THEN << Sep1("quad-mu/2", QAbs(RHalf(P[1]), Z), Z, Z), QuadQ("quadQ45(mu/2,L)", RHalf(P[1]), P[2], Z, Z, Z) >> ELSE <<>>)
    [] cls = "ConvexLipschitzFunction" -> << Sep1("abs-2M", QAbs(Z, SMul(Two, P[1])), Z, Z), Sep1("quad", QAbs(RI(4), Z), Z, Z),
                                             Sep2("l1-(M,M)", QAbs(Z, P[1]), QAbs(Z, P[1]), Z, Z, Z) >>
    [] cls = "SmoothConvexLipschitzFunction" -> << Sep1("affine-2M", Aff(SMul(Two, P[2])), Z, Z), Sep1("huber-2L", QHub(Z, SMul(Two, P[1]), Half), Z, Z) >>
    [] cls = "ConvexQGFunction" -> << Sep1("quad-2L", QAbs(SMul(Two, P[1]), Z), Z, Z), Sep1("abs", QAbs(Z, One), Z, Z),
                                      Sep1("dead-zone", QK(Z, RHalf(P[1]), Half), Z, Z) >>
    [] cls = "RsiEbFunction" -> << Sep1("quad-2L", QAbs(SMul(Two, P[2]), Z), Z, Z) >> \o
                                (IF RPos(P[1]) THEN << Sep1("quad-mu/2", QAbs(RHalf(P[1]), Z), Z, Z), Sep1("plus2", Plus2(P[2]), Z, Z) >> ELSE <<>>)
    [] cls = "ConvexIndicatorFunction" -> IF IsInf(P[1]) THEN << Sep1("abs", QAbs(Z, One), Z, Z) >>
                                          ELSE (IF P[1] = One THEN << Sep1("interval-2D", Ind(Z, Two), RI(-1), Z) >> ELSE <<>>)   \* (the grid spans 2)
                                               \o << Sep1("abs", QAbs(Z, One), Z, Z) >>
    [] cls = "ConvexSupportFunction" -> << Sep1("quad", QAbs(One, Z), Z, Z) >> \o
                                        (IF IsInf(P[1]) THEN <<>> ELSE << Sep1("support[-2M,M]", Supp(RNeg(SMul(Two, P[1])), P[1]), Z, Z) >>)
    [] cls = "SmoothStronglyConvexQuadraticFunction" ->
         << Sep1("quad-2L", QAbs(SMul(Two, P[2]), Z), Z, Z), Sep1("huber", QHub(P[1], SSub(SMul(Two, P[2]), P[1]), Half), Z, Z), Sep1("plus2", Plus2(P[2]), Z, Z) >>
    [] cls = "BlockSmoothConvexFunction" ->
         IF Len(P) = 1 THEN << Sep1("quad-2L", QAbs(SMul(Two, P[1]), Z), Z, Z) >>
         ELSE << Sep2("diag(2L1,L2)", QAbs(SMul(Two, P[1]), Z), QAbs(P[2], Z), Z, Z, Z), Sep2("diag(L1,2L2)", QAbs(P[1], Z), QAbs(SMul(Two, P[2]), Z), Z, Z, Z),
                 QuadQ("coupled-too-steep", SMul(RI(4), SMin(P[1], P[2])), Z, Z, Z, Z) >>
    [] cls = "CocoerciveOperator" -> << Lin2o("rotation", IJ(Z, One)), Lin1("2/beta", SMul(Two, RInv(P[1])), Z, Z, Z), Lin1("negative", RI(-1), Z, Z, Z) >>
    [] cls = "CocoerciveStronglyMonotoneOperator" ->
         << Lin1("2/beta", SMul(Two, RInv(P[2])), Z, Z, Z) >> \o (IF RPos(P[1]) THEN << Lin1("mu/2", RHalf(P[1]), Z, Z, Z) >> ELSE <<>>)
    [] cls = "LinearOperator" -> << Lin1("2L", SMul(Two, P[1]), Z, Z, Z), Lin1("affine", P[1], Z, One, Z), Sep1("clip", QHub(Z, P[1], Half), Z, Z),
                                    Lin2o("shear", <<P[1], P[1], Z, P[1]>>) >>
    [] cls = "LipschitzOperator" -> << Lin1("2L", SMul(Two, P[1]), Z, Z, Z), Lin2o("shear", <<P[1], P[1], Z, P[1]>>), Sep1("sign", QAbs(Z, One), Z, Z) >>
    [] cls = "LipschitzStronglyMonotoneOperator" ->
         << Lin1("2L", SMul(Two, P[2]), Z, Z, Z) >> \o (IF RPos(P[1]) THEN << Lin2o("rotation", IJ(Z, P[2])), Lin1("mu/2", RHalf(P[1]), Z, Z, Z) >> ELSE <<>>)
    [] cls = "MonotoneOperator" -> << Lin1("negative", RI(-1), Z, Z, Z), Lin2o("diag(1,-1)", Dg(One, RI(-1))), Sep1("x|x|'", VAbs(One), Z, Z) >>
    [] cls = "NegativelyComonotoneOperator" -> << Lin1("-1/(2rho)", RNeg(RHalf(RInv(P[1]))), Z, Z, Z), Lin2o("diag(-1/(2rho),1)", Dg(RNeg(RHalf(RInv(P[1]))), One)) >>
    [] cls = "NonexpansiveOperator" -> << Lin1("expansion", Two, Z, Z, Z), Lin1("translation-with-v=0", One, Z, Half, Z),
                                          Lin1("translation-with-wrong-v", One, Z, Half, Half), Lin2o("shear", <<One, One, Z, One>>) >>
    [] cls = "SkewSymmetricLinearOperator" -> << Lin2o("symmetric", Dg(P[1], P[1])), Lin2o("2LJ", IJ(Z, SMul(Two, P[1]))), Lin1("nonzero-1d", P[1], Z, Z, Z),
                                                 Lin2("affine", IJ(Z, P[1]), Z, Z, One, Z, Z, Z) >>
    [] cls = "StronglyMonotoneOperator" -> IF RPos(P[1]) THEN << Lin2o("rotation", IJ(Z, One)), Lin1("mu/2", RHalf(P[1]), Z, Z, Z) >> ELSE << Lin1("negative", RI(-1), Z, Z, Z) >>
    [] cls = "SymmetricLinearOperator" -> << Lin2o("not-symmetric", IJ(RMid(P[1], P[2]), One)), Lin1("2L+1", SAdd(SMul(Two, P[2]), One), Z, Z, Z),
                                             Lin1("below-mu", SSub(P[1], One), Z, Z, Z), Lin2o("sym45-too-wide", S45(SSub(P[1], One), P[2])) >>

(* ---- positive semidefiniteness of a small symmetric rational matrix ------------------------------------ *)
\* symmetric Gaussian elimination: M >= 0 iff every pivot is >= 0 and a zero pivot has a zero row
\* PSD3 = 1 (positive semidefinite) / 0 (not) / 2 (not decidable within the 32-bit guard)
The(S) == CHOOSE r \in S : TRUE
RECURSIVE PSD3(_, _)
PSD3(M, n) == IF n = 0 THEN 1 ELSE
   LET d == M[1][1] IN
   IF \E i \in 1..n : \E j \in 1..n : IsOvf(M[i][j]) THEN 2
   ELSE IF RNg(d) THEN 0
   ELSE IF RIsZ(d) THEN (IF \E j \in 2..n : ~RIsZ(M[1][j]) THEN 0
                         ELSE The({PSD3(M2, n - 1) : M2 \in {[i \in 1..(n - 1) |-> [j \in 1..(n - 1) |-> M[i + 1][j + 1]]]}}))
   \* (the reduced matrix is bound by a quantifier so that TLC holds it as an evaluated value, not as a lazy lambda;
   \*  the quotient M[1][j] / d is formed first: it is a ratio of entries of one row and stays small)
   ELSE The({PSD3(M2, n - 1) : M2 \in {[i \in 1..(n - 1) |-> [j \in 1..(n - 1) |->
                       SSub(M[i + 1][j + 1], SMul(M[i + 1][1], SDiv(M[1][j + 1], d)))]]}})
PSDm(M, n) == PSD3(M, n) = 1
\* the textbook criterion (all principal minors >= 0), sizes 1..3, used to validate PSDm in the model run
Det2(M, a, b) == SSub(SMul(M[a][a], M[b][b]), SMul(M[a][b], M[b][a]))
Det3(M) == SAdd(SSub(SMul(M[1][1], SSub(SMul(M[2][2], M[3][3]), SMul(M[2][3], M[3][2]))),
                     SMul(M[1][2], SSub(SMul(M[2][1], M[3][3]), SMul(M[2][3], M[3][1])))),
                SMul(M[1][3], SSub(SMul(M[2][1], M[3][2]), SMul(M[2][2], M[3][1]))))
PSDminors(M, n) == /\ \A i \in 1..n : RGeq0(M[i][i])
                   /\ \A i \in 1..n : \A j \in (i + 1)..n : RGeq0(Det2(M, i, j))
                   /\ n = 3 => RGeq0(Det3(M))
SymM3(a, b, c, d, e, f) == << <<RI(a), RI(b), RI(c)>>, <<RI(b), RI(d), RI(e)>>, <<RI(c), RI(e), RI(f)>> >>
PSDSelfTest == \A a \in -1..2 : \A b \in -1..1 : \A c \in -1..1 : \A d \in 0..2 : \A e \in -1..1 : \A f \in 0..2 :
                  LET M == SymM3(a, b, c, d, e, f) IN
                  /\ PSDm(M, 3) = PSDminors(M, 3) /\ PSD3(M, 3) \in {0, 1}
                  /\ PSDm(<< <<RI(a), RI(b)>>, <<RI(b), RI(d)>> >>, 2) = PSDminors(<< <<RI(a), RI(b)>>, <<RI(b), RI(d)>> >>, 2)

(* ---- the cases (class, parameters) and the model run ---------------------------------------------------- *)
Case(cls, P) == [cls |-> cls, P |-> P]
Q4 == Q(1, 4)
MuL(cls) == IF GridMode = 1 THEN << Case(cls, <<Z, One>>), Case(cls, <<Q4, One>>), Case(cls, <<Half, Two>>) >>
            ELSE << Case(cls, <<Z, One>>), Case(cls, <<Q4, One>>), Case(cls, <<Half, One>>), Case(cls, <<Z, Two>>),
                    Case(cls, <<Q4, Two>>), Case(cls, <<Half, Two>>) >>
One1(cls, vals) == [i \in 1..Len(vals) |-> Case(cls, <<vals[i]>>)]
Cases ==
  << Case("ConvexFunction", <<>>), Case("MonotoneOperator", <<>>) >>
  \o One1("StronglyConvexFunction", IF GridMode = 1 THEN <<Q4, Half>> ELSE <<Z, Q4, Half, One>>)
  \o One1("SmoothFunction", <<One, Two>>)
  \o One1("SmoothConvexFunction", IF GridMode = 1 THEN <<One, Two>> ELSE <<Half, One, Two>>)
  \o MuL("SmoothStronglyConvexFunction")
  \o One1("ConvexLipschitzFunction", <<One, Two>>)
  \o (IF GridMode = 1 THEN << Case("SmoothConvexLipschitzFunction", <<One, One>>), Case("SmoothConvexLipschitzFunction", <<Two, One>>) >>
      ELSE << Case("SmoothConvexLipschitzFunction", <<One, One>>), Case("SmoothConvexLipschitzFunction", <<Two, One>>),
              Case("SmoothConvexLipschitzFunction", <<One, Two>>), Case("SmoothConvexLipschitzFunction", <<Two, Two>>) >>)
  \o One1("ConvexQGFunction", <<One, Two>>)
  \o MuL("RsiEbFunction")
  \o One1("ConvexIndicatorFunction", <<One, Two, INF>>)
  \o One1("ConvexSupportFunction", <<One, Two, INF>>)
  \o MuL("SmoothStronglyConvexQuadraticFunction")
  \o << Case("BlockSmoothConvexFunction", <<One>>), Case("BlockSmoothConvexFunction", <<One, Two>>),
        Case("BlockSmoothConvexFunction", <<Two, One>>), Case("BlockSmoothConvexFunction", <<One, One>>) >>   \* equal constants too
  \o (IF GridMode = 1 THEN <<>> ELSE << Case("BlockSmoothConvexFunction", <<Two>>), Case("BlockSmoothConvexFunction", <<RI(4), One>>) >>)
  \o One1("CocoerciveOperator", <<Half, One>>)
  \o (IF GridMode = 1 THEN << Case("CocoerciveStronglyMonotoneOperator", <<Q4, One>>), Case("CocoerciveStronglyMonotoneOperator", <<Half, Half>>) >>
      ELSE << Case("CocoerciveStronglyMonotoneOperator", <<Q4, One>>), Case("CocoerciveStronglyMonotoneOperator", <<Half, Half>>),
              Case("CocoerciveStronglyMonotoneOperator", <<Z, Half>>), Case("CocoerciveStronglyMonotoneOperator", <<Half, One>>),
              Case("CocoerciveStronglyMonotoneOperator", <<Q4, Half>>) >>)
  \o One1("LinearOperator", <<One, Two>>)
  \o One1("LipschitzOperator", IF GridMode = 1 THEN <<One, Two>> ELSE <<Half, One, Two>>)
  \o MuL("LipschitzStronglyMonotoneOperator")
  \o One1("NegativelyComonotoneOperator", <<Half, One>>)
  \o One1("NonexpansiveOperator", <<Z, One, Two>>)
  \o One1("SkewSymmetricLinearOperator", <<One, Two>>)
  \o One1("StronglyMonotoneOperator", IF GridMode = 1 THEN <<Q4, Half>> ELSE <<Z, Q4, Half, One>>)
  \o MuL("SymmetricLinearOperator")
  \o << Case("SymmetricLinearOperator", <<RI(-1), One>>) >>
\* the parameters a member is built from (NonexpansiveOperator's <<vm>> is a driver variant, not a parameter)
VARIABLES ci, phase, fails
mvars == <<ci, phase, fails>>
Init == ci \in 1..Len(Cases) /\ phase = 0 /\ fails = {}
Check == /\ phase = 0
         /\ LET c == Cases[ci]  Ms == MembersOf(c.cls, c.P) IN
            LET Ns == NonMembersOf(c.cls, c.P) IN
            fails' = UNION {{<<c.cls, Ms[i].tag, f>> : f \in DefFails(c.cls, c.P, Ms[i])} : i \in 1..Len(Ms)}
                     \cup {<<c.cls, Ns[i].tag, "NON-MEMBER-ACCEPTED">> : i \in {j \in 1..Len(Ns) : DefFails(c.cls, c.P, Ns[j]) = {}}}
         /\ phase' = 1 /\ ci' = ci
Spec == Init /\ [][Check]_mvars
MembersAreMembers == fails = {}
ASSUME PSDSelfTest
FlatCase(c) == LET Ms == MembersOf(c.cls, c.P) IN
   [ci |-> CHOOSE i \in 1..Len(Cases) : Cases[i] = c, cls |-> c.cls, Pn |-> [i \in 1..Len(c.P) |-> c.P[i][1]], Pd |-> [i \in 1..Len(c.P) |-> c.P[i][2]],
    tags |-> [i \in 1..Len(Ms) |-> Ms[i].tag], dims |-> [i \in 1..Len(Ms) |-> Ms[i].dim],
    nnon |-> Len(NonMembersOf(c.cls, c.P)),
    nstat |-> [i \in 1..Len(Ms) |-> Len(StatSeq(Ms[i]))], nfix |-> [i \in 1..Len(Ms) |-> Len(FixSeq(Ms[i]))]]
Emit == phase = 1 => PrintT(ToJson(FlatCase(Cases[ci])))
=============================================================================
