------------------------------- MODULE Rat -------------------------------
(* Exact rationals <<n, d>>, d > 0, gcd-normalised.  TLC integers are 32 bit and TLC aborts loudly on     *)
(* overflow, so every operation cancels common factors BEFORE it multiplies.                              *)
EXTENDS Integers
RECURSIVE Gcd(_, _)
Gcd(a, b) == IF b = 0 THEN a ELSE Gcd(b, a % b)
Abs(a) == IF a < 0 THEN -a ELSE a
Sgn(a) == IF a < 0 THEN -1 ELSE IF a = 0 THEN 0 ELSE 1
Norm(n, d) == IF n = 0 THEN <<0, 1>>
              ELSE LET g == Gcd(Abs(n), Abs(d))  s == IF d < 0 THEN -1 ELSE 1
                   IN <<s * (n \div g), s * (d \div g)>>
Z == <<0, 1>>
One == <<1, 1>>
MOne == <<-1, 1>>
Half == <<1, 2>>
Two == <<2, 1>>
RI(n) == <<n, 1>>
IsRat(a) == a[2] > 0 /\ Gcd(Abs(a[1]), a[2]) = 1
RAdd(a, b) == IF a[1] = 0 THEN b ELSE IF b[1] = 0 THEN a ELSE
              LET g == Gcd(a[2], b[2]) IN Norm(a[1] * (b[2] \div g) + b[1] * (a[2] \div g), (a[2] \div g) * b[2])
RNeg(a) == <<-a[1], a[2]>>
RSub(a, b) == RAdd(a, RNeg(b))
RMul(a, b) == IF a[1] = 0 \/ b[1] = 0 THEN Z ELSE
              LET g1 == Gcd(Abs(a[1]), b[2])  g2 == Gcd(Abs(b[1]), a[2])
              IN <<(a[1] \div g1) * (b[1] \div g2), (a[2] \div g2) * (b[2] \div g1)>>
RInv(a) == IF a[1] > 0 THEN <<a[2], a[1]>> ELSE <<-a[2], -a[1]>>
RDiv(a, b) == RMul(a, RInv(b))
RSq(a) == RMul(a, a)
\* comparisons cross-multiply after cancelling
RLeq(a, b) == LET g == Gcd(a[2], b[2]) IN a[1] * (b[2] \div g) <= b[1] * (a[2] \div g)
RLt(a, b) == ~RLeq(b, a)
RLeq0(a) == a[1] <= 0
RGeq0(a) == a[1] >= 0
RAbs(a) == <<Abs(a[1]), a[2]>>
RMin(a, b) == IF RLeq(a, b) THEN a ELSE b
RMax(a, b) == IF RLeq(a, b) THEN b ELSE a
=============================================================================
