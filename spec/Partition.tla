------------------------------ MODULE Partition ------------------------------
(* C15.  Block partitions (PEPit/block_partition.py): get_block creates d-1 fresh leaves plus the remainder, keyed *)
(* by the identity of the decomposed point; at solve time the orthogonality of different blocks of all decomposed  *)
(* points is imposed.  Base objects held by the user: 1: x1 (leaf)  2: x2 (leaf)  3: x1 - x2/2  4: 2*x2 + x1        *)
(* 5: the block returned by the FIRST call of the behaviour (a block is a point: it can be decomposed again; for   *)
(* real coordinate projections P_l P_k x = 0 for l # k and P_k P_k x = P_k x).                                     *)
(* Behaviours (d, sequence of get_block calls) are exported and replayed; PartitionTrace.tla validates.            *)
EXTENDS LinForm, TLC, Json
CONSTANTS MaxD, MaxCalls, MaxP
Base == << UnitV(MaxP, 1), UnitV(MaxP, 2),
           VSub(UnitV(MaxP, 1), VScale(Half, UnitV(MaxP, 2))),
           VAdd(VScale(Two, UnitV(MaxP, 2)), UnitV(MaxP, 1)) >>
NB == Len(Base) + 1
\* the decomposable points, given what the calls returned so far
BaseV(p, rs) == IF p <= Len(Base) THEN Base[p] ELSE IF rs = <<>> THEN ZeroV(MaxP) ELSE rs[1]
VARIABLES d, np, blocks, hist, rets, ctor      \* ctor: 1 = pep.declare_block_partition(d), 2 = BlockPartition(d)
vars == <<d, np, blocks, hist, rets, ctor>>
Init == d \in 1..MaxD /\ ctor \in (IF d = 2 THEN {1, 2} ELSE {1}) /\ np = 2 /\ blocks = [p \in 1..NB |-> <<>>] /\ hist = <<>> /\ rets = <<>>
RECURSIVE SumSeqV(_, _)
SumSeqV(s, k) == IF k > Len(s) THEN ZeroV(MaxP) ELSE VAdd(s[k], SumSeqV(s, k + 1))
Decompose(p, n0) == LET fresh == [k \in 1..(d - 1) |-> UnitV(MaxP, n0 + k)]
                    IN Append(fresh, VSub(BaseV(p, rets), SumSeqV(fresh, 1)))
GetBlock(p, k) == /\ Len(hist) < MaxCalls /\ k \in 1..d
                  /\ (p = NB => Len(hist) >= 1)
                  /\ IF blocks[p] = <<>>
                     THEN /\ np + (d - 1) + (d - 1) <= MaxP       \* (d - 1 more leaves are kept for the second partition of the driver)
                          /\ blocks' = [blocks EXCEPT ![p] = Decompose(p, np)]
                          /\ np' = np + d - 1
                     ELSE UNCHANGED <<blocks, np>>
                  /\ hist' = Append(hist, [p |-> p, k |-> k])
                  /\ rets' = Append(rets, blocks'[p][k])
                  /\ UNCHANGED <<d, ctor>>
\* the solve-time generation of the partition constraints may also happen in the middle (a solve, then more points are
\* decomposed, then another solve): [p |-> 0, k |-> 0] in the history.  It changes no block.
Gen == /\ Len(hist) < MaxCalls /\ Len(hist) >= 1 /\ hist[Len(hist)].p # 0
       /\ \A i \in 1..Len(hist) : hist[i].p # 0                       \* at most one intermediate generation
       /\ hist' = Append(hist, [p |-> 0, k |-> 0]) /\ rets' = Append(rets, ZeroV(MaxP))
       /\ UNCHANGED <<d, np, blocks, ctor>>
Next == (\E p \in 1..NB, k \in 1..MaxD : GetBlock(p, k)) \/ Gen
Spec == Init /\ [][Next]_vars
\* ---- what the property says, on a table of blocks
Decomposed(B) == {p \in 1..Len(B) : B[p] # <<>>}
SumsBack(B, BV) == \A p \in Decomposed(B) : SumSeqV(B[p], 1) = BV[p]
OneBlockIdentity(B, dd, BV) == dd = 1 => \A p \in Decomposed(B) : B[p] = <<BV[p]>>
Ortho(B, dd) == {NormForm(Inner(0, B[p][k], B[q][l]), "eq") : p \in Decomposed(B), q \in Decomposed(B), k \in 1..dd, l \in 1..dd}
\* only k # l
OrthoSet(B, dd) == {NormForm(Inner(0, B[pq[1]][kl[1]], B[pq[2]][kl[2]]), "eq") :
                       pq \in Decomposed(B) \X Decomposed(B), kl \in {x \in (1..dd) \X (1..dd) : x[1] # x[2]}} \ {<<"trivial">>}
BVNow == [p \in 1..NB |-> BaseV(p, rets)]
InvSum == SumsBack(blocks, BVNow)
InvOne == OneBlockIdentity(blocks, d, BVNow)
InvSame == \A i, j \in 1..Len(hist) : hist[i] = hist[j] => rets[i] = rets[j]
\* ---- real coordinate partitions of Z^3 into dd blocks: projections are orthogonal and sum back (validates the spec itself)
Dim == 3
CoordPartitions(dd) == {f \in [1..Dim -> 1..dd] : \A b \in 1..dd : \E c \in 1..Dim : f[c] = b}
Proj(f, b, v) == [c \in 1..Dim |-> IF f[c] = b THEN v[c] ELSE Z]
Grid == {<<RI(1), RI(0), RI(-1)>>, <<RI(1), RI(2), RI(1)>>}
RealOK == \A dd \in 1..MaxD : \A f \in CoordPartitions(dd) : \A v, w \in Grid :
             /\ LET RECURSIVE S(_)  S(b) == IF b > dd THEN [c \in 1..Dim |-> Z] ELSE VAdd(Proj(f, b, v), S(b + 1)) IN S(1) = v
             /\ \A b1, b2 \in 1..dd : b1 # b2 => VDot(Proj(f, b1, v), Proj(f, b2, w)) = Z
ASSUME RealOK
Emit == (Len(hist) = MaxCalls /\ hist[Len(hist)].p # 0) => PrintT(ToJson([d |-> d, ctor |-> ctor, h |-> hist]))
=============================================================================
