-------------------------------- MODULE Solve --------------------------------
(* The protocol of ONE call of PEP.solve between the problem object and its wrapper (PEPit/pep.py:359-640,            *)
(* PEPit/wrapper.py): every wrapper method call and the two PEP-level steps that follow are one action each.          *)
(*    Call -> SetMain -> Send* (in the order of the plan) -> Generate -> Solve                                         *)
(*         -> NoValue                                      (the solver found no finite optimum: solve returns None)   *)
(*         -> AssignDuals -> GetPrimal                     (the certificate is the one of the FIRST solve)             *)
(*            [-> Prepare -> (Weight -> HSolve -> HGetPrimal)^n]   (dimension reduction: n = 1 for trace, n for logdetn)*)
(*         -> Eval -> Check -> Return                                                                                  *)
(* The plan is the declared model in the order pep.py sends it: metrics, the problem's constraints, its LMIs, per     *)
(* leaf function its class constraints then class LMIs, per function with own constraints those then its LMIs, per    *)
(* partition its constraints.                                                                                          *)
(* Real solves are recorded call by call (harness/pepsolve.py, recording subclasses installed through                  *)
(* PEPit.wrappers.WRAPPERS) and validated against this machine by SolveProtoTrace.tla; the invariants below are the    *)
(* protocol-level halves of C05 (everything declared is sent, before the problem is generated), C14 (multipliers of     *)
(* the first solve, instance of the last) and C16 (no value -> nothing evaluated).  The Dev* constants switch on two   *)
(* wrong orders a change of pep.py could introduce: each must break an invariant (vacuity control).                    *)
EXTENDS Integers, Sequences, FiniteSets, TLC
CONSTANTS MaxFun, MaxIter,
          DevDualsLate,            \* the multipliers are (also) taken after the heuristic solves
          DevKeepFirstPrimal       \* the returned instance stays the one of the first solve
VARIABLES pc, model, opts, sent, nsolve, finite, dualsFrom, primalFrom, prepared, weightSet, iters, evaluated, ret
vars == <<pc, model, opts, sent, nsolve, finite, dualsFrom, primalFrom, prepared, weightSet, iters, evaluated, ret>>
EmptyModel == [metrics |-> 0, pepcons |-> 0, peplmis |-> 0, leafs |-> <<>>, fwc |-> <<>>, parts |-> <<>>]
Rep(tok, n) == [i \in 1..n |-> tok]
RECURSIVE CatF(_, _, _)
CatF(g(_), n, i) == IF i > n THEN <<>> ELSE g(i) \o CatF(g, n, i + 1)
Plan(m) == Rep("metric", m.metrics) \o Rep("pep", m.pepcons) \o Rep("peplmi", m.peplmis)
           \o CatF(LAMBDA i : Rep("class:" \o ToString(i), m.leafs[i][1]) \o Rep("classlmi:" \o ToString(i), m.leafs[i][2]), Len(m.leafs), 1)
           \o CatF(LAMBDA j : Rep("fun:" \o ToString(j), m.fwc[j][1]) \o Rep("funlmi:" \o ToString(j), m.fwc[j][2]), Len(m.fwc), 1)
           \o CatF(LAMBDA q : Rep("part:" \o ToString(q), m.parts[q]), Len(m.parts), 1)
Init == /\ pc = "idle" /\ model = EmptyModel /\ opts = [n |-> 0, mode |-> "dual"] /\ sent = <<>> /\ nsolve = 0
        /\ finite = FALSE /\ dualsFrom = 0 /\ primalFrom = 0 /\ prepared = FALSE /\ weightSet = FALSE /\ iters = 0
        /\ evaluated = FALSE /\ ret = "-"
Call(n, md) == /\ pc = "idle"
               /\ opts' = [n |-> n, mode |-> md] /\ pc' = "called"
               /\ UNCHANGED <<model, sent, nsolve, finite, dualsFrom, primalFrom, prepared, weightSet, iters, evaluated, ret>>
SetMain(m) == /\ pc = "called"
              /\ model' = m /\ pc' = "send"
              /\ UNCHANGED <<opts, sent, nsolve, finite, dualsFrom, primalFrom, prepared, weightSet, iters, evaluated, ret>>
Send(tok) == /\ pc = "send" /\ Len(sent) < Len(Plan(model)) /\ tok = Plan(model)[Len(sent) + 1]
             /\ sent' = Append(sent, tok)
             /\ UNCHANGED <<pc, model, opts, nsolve, finite, dualsFrom, primalFrom, prepared, weightSet, iters, evaluated, ret>>
Generate == /\ pc = "send" /\ Len(sent) = Len(Plan(model))
            /\ pc' = "generated"
            /\ UNCHANGED <<model, opts, sent, nsolve, finite, dualsFrom, primalFrom, prepared, weightSet, iters, evaluated, ret>>
Solve1(fin) == /\ pc = "generated"
               /\ nsolve' = 1 /\ finite' = fin /\ pc' = "solved"
               /\ UNCHANGED <<model, opts, sent, dualsFrom, primalFrom, prepared, weightSet, iters, evaluated, ret>>
NoValue == /\ pc = "solved" /\ ~finite
           /\ ret' = "none" /\ pc' = "done"
           /\ UNCHANGED <<model, opts, sent, nsolve, finite, dualsFrom, primalFrom, prepared, weightSet, iters, evaluated>>
AssignDuals == /\ \/ pc = "solved" /\ finite /\ pc' = "duals"
                  \/ DevDualsLate /\ pc = "eval" /\ dualsFrom # nsolve /\ pc' = "eval"
               /\ dualsFrom' = nsolve
               /\ UNCHANGED <<model, opts, sent, nsolve, finite, primalFrom, prepared, weightSet, iters, evaluated, ret>>
GetPrimal == /\ pc = "duals"
             /\ primalFrom' = nsolve /\ pc' = IF opts.n = 0 THEN "eval" ELSE "heur"
             /\ UNCHANGED <<model, opts, sent, nsolve, finite, dualsFrom, prepared, weightSet, iters, evaluated, ret>>
Prepare == /\ pc = "heur" /\ ~prepared
           /\ prepared' = TRUE
           /\ UNCHANGED <<pc, model, opts, sent, nsolve, finite, dualsFrom, primalFrom, weightSet, iters, evaluated, ret>>
Weight == /\ pc = "heur" /\ prepared /\ ~weightSet /\ iters < opts.n
          /\ weightSet' = TRUE
          /\ UNCHANGED <<pc, model, opts, sent, nsolve, finite, dualsFrom, primalFrom, prepared, iters, evaluated, ret>>
HSolve == /\ pc = "heur" /\ weightSet
          /\ nsolve' = nsolve + 1 /\ weightSet' = FALSE /\ iters' = iters + 1 /\ pc' = "hsolved"
          /\ UNCHANGED <<model, opts, sent, finite, dualsFrom, primalFrom, prepared, evaluated, ret>>
HGetPrimal == /\ pc = "hsolved"
              /\ primalFrom' = IF DevKeepFirstPrimal THEN primalFrom ELSE nsolve
              /\ pc' = IF iters = opts.n THEN "eval" ELSE "heur"
              /\ UNCHANGED <<model, opts, sent, nsolve, finite, dualsFrom, prepared, weightSet, iters, evaluated, ret>>
Eval == /\ pc = "eval"
        /\ evaluated' = TRUE /\ pc' = "check"
        /\ UNCHANGED <<model, opts, sent, nsolve, finite, dualsFrom, primalFrom, prepared, weightSet, iters, ret>>
Check == /\ pc = "check"
         /\ pc' = "ret"
         /\ UNCHANGED <<model, opts, sent, nsolve, finite, dualsFrom, primalFrom, prepared, weightSet, iters, evaluated, ret>>
Return == /\ pc = "ret"
          /\ ret' = opts.mode /\ pc' = "done"
          /\ UNCHANGED <<model, opts, sent, nsolve, finite, dualsFrom, primalFrom, prepared, weightSet, iters, evaluated>>
\* ---- the bounded design model: small declared models, every option
Pairs == {<<0, 0>>, <<2, 0>>, <<2, 1>>}
Models == {[metrics |-> k, pepcons |-> c, peplmis |-> l, leafs |-> lf, fwc |-> fw, parts |-> pt] :
             k \in 1..2, c \in 0..1, l \in 0..1,
             lf \in UNION {[1..n -> Pairs] : n \in 0..MaxFun},
             fw \in {<<>>, <<<<1, 0>>>>, <<<<0, 1>>>>},
             pt \in {<<>>, <<4>>}}
Next == \/ \E n \in 0..MaxIter, md \in {"dual", "primal"} : Call(n, md)
        \/ \E m \in Models : SetMain(m)
        \/ \E tok \in {Plan(model)[k] : k \in 1..Len(Plan(model))} : Send(tok)
        \/ Generate \/ (\E fin \in BOOLEAN : Solve1(fin)) \/ NoValue \/ AssignDuals \/ GetPrimal
        \/ Prepare \/ Weight \/ HSolve \/ HGetPrimal \/ Eval \/ Check \/ Return
Spec == Init /\ [][Next]_vars
\* ---- invariants
\* C05 (protocol half): the problem is generated only after the whole declared model was sent, in the order of the plan
AllSent == pc \notin {"idle", "called", "send"} => sent = Plan(model)
\* C14: the multipliers are those of the first solve (the heuristic solves only change the instance) ...
DualsFirst == dualsFrom \in {0, 1}
\* ... and the instance evaluated and returned is the one of the last solve
PrimalLast == pc \in {"check", "ret", "done"} /\ ret # "none" => primalFrom = nsolve
\* the heuristic objective is only set once the optimal value is fixed as a constraint
HeurPrepared == weightSet => prepared
\* exactly 1 + n solver calls for a finished solve with n heuristic iterations
SolveCount == pc = "done" /\ ret # "none" => nsolve = 1 + opts.n /\ iters = opts.n
\* C16: without a finite optimum nothing is evaluated, no multiplier is assigned, None is returned after one solver call
NoValueClean == pc = "done" /\ ret = "none" => ~evaluated /\ dualsFrom = 0 /\ nsolve = 1 /\ ~finite
Returns == pc = "done" /\ ret # "none" => finite /\ evaluated /\ dualsFrom = 1 /\ ret = opts.mode
=============================================================================
