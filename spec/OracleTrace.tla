---------------------------- MODULE OracleTrace ----------------------------
(* C07 trace validation.  A trace is a call sequence executed on real PEPit Function objects; after every    *)
(* call the driver logs the tables (stored weights, samples, stationary list) of every function that changed. *)
(* The C07 invariants I1..I4 of Oracle.tla are evaluated ON THE OBSERVED TABLES after every call (verdict);    *)
(* the observed step is also compared with Oracle!Call applied to the previous observed state (drift).         *)
EXTENDS Oracle, IOUtils
Traces == ndJsonDeserialize(IOEnv.TRACE_FILE)
VARIABLES tid, l, obs, bad
tvars == <<tid, l, obs, bad, W, hist>>
T == Traces[tid]
Sparse(s, n) == [k \in 1..n |-> LET S == {i \in 1..Len(s) : s[i][1] = k} IN
                                IF S = {} THEN Z ELSE LET i == CHOOSE i \in S : TRUE IN <<s[i][2], s[i][3]>>]
DecFn(j) == [leaf |-> j.leaf = 1, diff |-> j.diff = 1,
             w |-> [k \in 1..Len(j.w) |-> <<j.w[k][1], <<j.w[k][2], j.w[k][3]>>>>],
             pts |-> [k \in 1..Len(j.pts) |-> [x |-> Sparse(j.pts[k].x, MaxP), g |-> Sparse(j.pts[k].g, MaxP),
                                               f |-> Sparse(j.pts[k].f, MaxE)]],
             stat |-> j.stat]
ApplyChg(funs, chg) == [fid \in 1..Len(funs) |->
     LET S == {i \in 1..Len(chg) : chg[i].fid = fid} IN
     IF S = {} THEN funs[fid] ELSE DecFn(chg[CHOOSE i \in S : TRUE].fn)]
Obs0(t) == [np |-> t.np0, ne |-> t.ne0, funs |-> [k \in 1..Len(t.funs0) |-> DecFn(t.funs0[k])]]
\* property clauses on an observed table
PropClauses(step, funs) ==
     {<<step, "I1", fid>> : fid \in {f \in 1..Len(funs) : ~I1(<<funs[f]>>)}}
\cup {<<step, "I2", fid>> : fid \in {f \in 1..Len(funs) : ~I2(<<funs[f]>>)}}
\cup {<<step, "I3", fid>> : fid \in {f \in 1..Len(funs) : ~funs[f].leaf /\ ~ZeroFun(funs, f) /\
                                                        \E s \in 1..Len(funs[f].pts) : ~I3At(funs, f, s)}}
\cup {<<step, "I3zero", fid>> : fid \in {f \in 1..Len(funs) : ZeroFun(funs, f) /\
                                  \E s \in 1..Len(funs[f].pts) : ~(VIsZero(funs[f].pts[s].g) /\ VIsZero(funs[f].pts[s].f))}}
\cup {<<step, "I4", fid>> : fid \in {f \in 1..Len(funs) : ~I4(<<funs[f]>>)}}
\cup {<<step, "I6-differentiable-sum-of-a-non-differentiable-term", fid>> : fid \in {f \in 1..Len(funs) :
          ~funs[f].leaf /\ funs[f].diff /\ \E k \in 1..Len(NonZero(funs[f].w)) : ~funs[NonZero(funs[f].w)[k][1]].diff}}
\* what the call returned must be what the tables say
RetClause(step, c, ret, funs) ==
  LET P == funs[c.f].pts
      qv == IF c.q = 0 THEN ZeroP ELSE Queries[c.q].v
      rg == Sparse(ret.g, MaxP)  rf == Sparse(ret.f, MaxE)  rx == Sparse(ret.x, MaxP)
      ok == CASE c.op = "oracle" -> \E i \in 1..Len(P) : P[i].x = qv /\ P[i].g = rg /\ P[i].f = rf
              [] c.op = "gradient" -> \E i \in 1..Len(P) : P[i].x = qv /\ P[i].g = rg
              [] c.op \in {"value", "call"}  -> \E i \in 1..Len(P) : P[i].x = qv /\ P[i].f = rf
              [] c.op = "stat"   -> \E k \in 1..Len(funs[c.f].stat) : LET i == funs[c.f].stat[k] IN
                                       i \in 1..Len(P) /\ P[i].x = rx /\ VIsZero(P[i].g)
              [] c.op = "fixed"  -> \E i \in 1..Len(P) : P[i].x = rx /\ P[i].g = rx /\ P[i].f = rf
              [] c.op = "prox"   -> /\ \E i \in 1..Len(P) : P[i].x = rx /\ P[i].g = rg /\ P[i].f = rf
                                    /\ VAdd(rx, VScale(Half, rg)) = qv              \* x + gamma g = x0
  IN IF ok THEN {} ELSE {<<step, "return-not-in-table", c.f>>}
TInit == /\ tid \in 1..Len(Traces)
         /\ l = 1
         /\ obs = Obs0(Traces[tid])
         /\ bad = PropClauses(0, Obs0(Traces[tid]).funs)
         /\ W = [np |-> 0, ne |-> 0, funs |-> <<>>] /\ hist = <<>>
Step == /\ l <= Len(T.steps)
        /\ LET s == T.steps[l]  c == T.h[l]
               now == [np |-> s.np, ne |-> s.ne, funs |-> ApplyChg(obs.funs, s.chg)]
               raised == s.exc # ""
               model == IF raised THEN obs ELSE CallOn(obs, c)
               drift == IF raised \/ model = now THEN {} ELSE {<<l, "drift", c.f>>}
               exc == IF raised THEN {<<l, "raises", c.f>>} ELSE {}
           IN /\ obs' = now
              /\ bad' = bad \cup PropClauses(l, now.funs) \cup exc \cup drift
                            \cup (IF raised THEN {} ELSE RetClause(l, c, s.ret, now.funs))
        /\ l' = l + 1
        /\ UNCHANGED <<tid, W, hist>>
Report == l = Len(T.steps) + 1 => PrintT(ToJson(<<"V", tid, bad>>))
=============================================================================
