------------------------------ MODULE OracleAlg ------------------------------
(* C07, second machine: the ALGEBRA OF FUNCTIONS (PEPit/function.py __add__, __sub__, __neg__, __rmul__, __mul__,       *)
(* __truediv__) followed by oracle calls.  Where Oracle.tla works on eight fixed functions, here the functions are     *)
(* built by the behaviour itself: starting from three leaf functions (non-differentiable, differentiable,              *)
(* non-differentiable), every step either builds a new function from existing ones or queries one.                      *)
(* Stored weights follow merge_dict: the keys of the left operand in their order, then the new keys of the right        *)
(* operand; zero weights are kept; a sum is differentiable iff both operands are; a scalar multiple keeps the flag.     *)
EXTENDS Oracle
CONSTANTS MaxBuild        \* how many functions may be built
Leaves == << Fn(TRUE, FALSE, <<<<1, One>>>>), Fn(TRUE, TRUE, <<<<2, One>>>>), Fn(TRUE, FALSE, <<<<3, One>>>>) >>
AInit == W = [np |-> 2, ne |-> 0, funs |-> Leaves] /\ hist = <<>>
\* weights as stored by merge_dict(a, b)
RECURSIVE MergeW(_, _, _)
MergeW(a, b, k) == IF k > Len(b) THEN a ELSE
   LET I == {i \in 1..Len(a) : a[i][1] = b[k][1]} IN
   IF I = {} THEN MergeW(Append(a, b[k]), b, k + 1)
   ELSE LET i == CHOOSE i \in I : TRUE IN MergeW([a EXCEPT ![i] = <<a[i][1], RAdd(a[i][2], b[k][2])>>], b, k + 1)
ScaleW(s, a) == [i \in 1..Len(a) |-> <<a[i][1], RMul(s, a[i][2])>>]
FScalars == << MOne, Z, Two, Half >>
BuildOn(Wx, c) ==
  LET A == Wx.funs[c.f]
      B == IF c.g = 0 THEN A ELSE Wx.funs[c.g]
      s == IF c.s = 0 THEN One ELSE FScalars[c.s]
      new == CASE c.op = "fadd" -> Fn(FALSE, A.diff /\ B.diff, MergeW(A.w, B.w, 1))
               [] c.op = "fsub" -> Fn(FALSE, A.diff /\ B.diff, MergeW(A.w, ScaleW(MOne, B.w), 1))
               [] c.op = "fneg" -> Fn(FALSE, A.diff, ScaleW(MOne, A.w))
               [] c.op \in {"frmul", "fmul"} -> Fn(FALSE, A.diff, ScaleW(s, A.w))
               [] c.op = "fdiv" -> Fn(FALSE, A.diff, ScaleW(RInv(s), A.w))
  IN [Wx EXCEPT !.funs = Append(@, new)]
IsBuild(c) == c.op \in {"fadd", "fsub", "fneg", "frmul", "fmul", "fdiv"}
StepOn(Wx, c) == IF IsBuild(c) THEN BuildOn(Wx, c) ELSE CallOn(Wx, c)
NBuilt == Len(W.funs) - Len(Leaves)
Builds == {[op |-> o, f |-> a, g |-> b, s |-> 0, q |-> 0] : o \in {"fadd", "fsub"}, a \in 1..Len(W.funs), b \in 1..Len(W.funs)}
     \cup {[op |-> "fneg", f |-> a, g |-> 0, s |-> 0, q |-> 0] : a \in 1..Len(W.funs)}
     \cup {[op |-> o, f |-> a, g |-> 0, s |-> k, q |-> 0] : o \in {"frmul", "fmul"}, a \in 1..Len(W.funs), k \in 1..Len(FScalars)}
     \cup {[op |-> "fdiv", f |-> a, g |-> 0, s |-> k, q |-> 0] : a \in 1..Len(W.funs), k \in {j \in 1..Len(FScalars) : FScalars[j] # Z}}
Queries2 == {[op |-> o, f |-> fid, g |-> 0, s |-> 0, q |-> qi] : o \in OpSet, fid \in 1..Len(W.funs), qi \in QSet}
       \cup {[op |-> o, f |-> fid, g |-> 0, s |-> 0, q |-> 0] : o \in {"stat", "fixed"}, fid \in 1..Len(W.funs)}
ANextSet == (IF NBuilt < MaxBuild THEN Builds ELSE {}) \cup (IF NBuilt >= 1 THEN Queries2 ELSE {})
ANext == /\ Room
         /\ \E c \in (IF Sim THEN {RandomElement(ANextSet)} ELSE ANextSet) : W' = StepOn(W, c) /\ hist' = Append(hist, c)
\* the C07 invariants on functions that are not identically zero (the all-zero combination is finding F15)
AInvI1 == I1(W.funs)
AInvI2 == I2(W.funs)
AInvI3 == I3(W.funs)
AInvI4 == I4(W.funs)
AInvI6 == I6(W.funs)
AEmit == (Len(hist) = MaxCalls \/ ~Room) => PrintT(ToJson([h |-> hist]))
=============================================================================
