------------------------------- MODULE Access -------------------------------
(* C16.  "No number without a solution": which observable outcome every accessor of every kind of object must  *)
(* have in every history of its model, and what solve() must do on models without a finite optimum and with     *)
(* invalid option values (PEPit/point.py:291, expression.py:407, constraint.py:109, psd_matrix.py:164,           *)
(* pep.py:563-570, :621, :646).                                                                                    *)
(* State: the scenario the model is in and the accesses made so far; Expected(scn, obj, acc) is the documented    *)
(* outcome.  Behaviours (hist) are exported as programs, run on the real library, and AccessTrace.tla compares.   *)
EXTENDS Integers, Sequences, TLC, Json
CONSTANTS MaxAccesses
Scenarios == {"fresh",                \* built, never solved
              "unbounded1",           \* non-smooth convex f, metric f(x0) - f(xs): unbounded
              "unbounded2",           \* no initial condition
              "unbounded3",           \* metric is a free leaf expression
              "unbounded4",           \* no performance metric at all (the minimum over no metric)
              "infeasible1",          \* |x1 - x0|^2 <= -1
              "infeasible2",          \* t <= 0 and t >= 1
              "infeasible3",          \* LMI [[t, 0], [0, -1]] >> 0
              "infeasible4",          \* a condition that prunes to a constant: 0 * |x0 - xs|^2 >= 1
              "other-solved",         \* model A solved, then a NEW model B built and not solved: B's objects
              "solved"}               \* sanity: a successful solve
Objects == {"leafpoint", "derivedpoint", "leafexpr", "derivedexpr", "constraint", "lmi", "metric",
            "zeropoint",       \* 0 * x0: a derived point whose only term has weight zero
            "zeroexpr",        \* 0 * f(x0): the stored term has weight zero (a product by a scalar is not pruned)
            "zeroprod",        \* (1 - theta) * |x1 - xs|^2 with theta = 1
            "function"}        \* the function itself: its tables of multipliers (get_class_constraints_duals)
\* (sums, differences and comparisons prune zero terms: 0 * f(x0) + 0 is the CONSTANT 0 and has a value without any solve)
Accessors(o) == IF o \in {"constraint", "lmi"} THEN {"eval", "eval_dual"} ELSE IF o = "function" THEN {"duals"} ELSE {"eval"}
HasSolution(scn) == scn = "solved"
\* (the tables of a function whose class constraints were never generated - no solve was attempted on its model - are empty:
\*  no number either)
Expected(scn, o, a) == IF HasSolution(scn) THEN "ok"
                       ELSE IF o = "function" /\ scn \in {"fresh", "other-solved"} THEN "empty" ELSE "raises:ValueError"
SolveReturns(scn) == CASE scn \in {"unbounded1", "unbounded2", "unbounded3", "unbounded4", "infeasible1", "infeasible2", "infeasible3", "infeasible4"} -> "none"
                       [] scn = "solved" -> "num" [] OTHER -> "n/a"
\* invalid option values: must end in an error, never in a number
BadOptions == {[opt |-> "return_primal_or_dual", val |-> v] : v \in {"both", "Dual", ""}}
         \cup {[opt |-> "dimension_reduction_heuristic", val |-> v] : v \in {"foo", "logdet", "logdetx", "Trace", "logdet1.5"}}
         \cup {[opt |-> "solver", val |-> v] : v \in {"CLARABELL", "", "no-such-solver"}}
VARIABLES scn, hist, mode
vars == <<scn, hist, mode>>
Init == scn \in Scenarios /\ hist = <<>> /\ mode \in {"access", "badopt"}
Next == \/ /\ mode = "access" /\ Len(hist) < MaxAccesses
           /\ \E o \in Objects : \E a \in Accessors(o) : hist' = Append(hist, [o |-> o, a |-> a, v |-> ""])
           /\ UNCHANGED <<scn, mode>>
        \/ /\ mode = "badopt" /\ hist = <<>> /\ scn = "fresh"
           /\ \E b \in BadOptions : hist' = <<[o |-> "solve", a |-> b.opt, v |-> b.val]>>
           /\ UNCHANGED <<scn, mode>>
Spec == Init /\ [][Next]_vars
\* the design-level statement: an access answers with a number only if the model has a solution
NoNumberWithoutSolution == \A k \in 1..Len(hist) : hist[k].o # "solve" => (Expected(scn, hist[k].o, hist[k].a) = "ok" <=> HasSolution(scn))
Emit == ((mode = "access" /\ Len(hist) = MaxAccesses) \/ (mode = "badopt" /\ Len(hist) = 1))
        => PrintT(ToJson([scn |-> scn, mode |-> mode, h |-> hist]))
=============================================================================
