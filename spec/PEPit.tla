-------------------------------- MODULE PEPit --------------------------------
(* The PEPit process as ONE state machine, at the level of ownership and counting: the class-level registries           *)
(* (PEPit/pep.py:106), the problem under construction, its functions with their numbers of samples, its partitions,      *)
(* what a solve creates and sends.  The focused machines refine parts of this state:                                    *)
(*     Algebra.tla (what an operator denotes)        Oracle.tla / OracleAlg.tla (the sample tables)                      *)
(*     Steps.tla (what a step records)               Partition.tla (blocks and orthogonality)                            *)
(*     Classes.tla / Members.tla (class conditions)  Pep.tla + SolveTrace.tla (the solve)        Registry.tla (reset)    *)
(* Here every public call is one action and its effect on the registries is stated: how many leaf points, leaf           *)
(* expressions, constraints, matrices, functions it creates.  TLC checks the cross-cutting invariants below for all     *)
(* interleavings of a few calls, and behaviours are replayed on the real library, comparing every registry after every  *)
(* call (PEPitTrace.tla).  A difference there is DRIFT of this integrated model (implementation detail), it is not by     *)
(* itself a violation of a listed property; it is reported in the evidence of C12.                                        *)
EXTENDS Integers, Sequences, FiniteSets, TLC, Json
CONSTANTS MaxActions
\* classes, by what their constraints need
Classes == {"smooth",        \* SmoothStronglyConvexFunction: differentiable, n(n-1) class rows for n samples
            "convex",        \* ConvexFunction: non-differentiable, n(n-1) rows
            "qg"}            \* ConvexQGFunction: non-differentiable, creates a stationary sample at the first solve if none
Diff(c) == c = "smooth"
ClassRows(c, n, nstat) == CASE c = "qg" -> n * (n - 1) + nstat * (n - 1)         \* convexity + qg_convexity (S x all, same sample skipped)
                            [] OTHER -> n * (n - 1)
ZeroReg == [pt |-> 0, ex |-> 0, fn |-> 0, nfun |-> 0, co |-> 0, psd |-> 0, bp |-> 0, pep |-> 0]
VARIABLES reg,       \* Point.counter, Expression.counter, Function.counter, len(Function.list_of_functions), Constraint.counter,
                     \* PSDMatrix.counter, BlockPartition.counter, PEP.counter
          funs,      \* per leaf function: [cls, n (samples), nstat (stationary samples), xs (points already sampled: ids)]
          npts,      \* user points available (initial points): 1..npts
          metrics, pcons, plmis,     \* declared on the problem
          parts,     \* per partition: [d, dec (number of decomposed points), rows (constraints it holds)]
          ncomp,     \* composite functions built with + (registered, never leaf)
          fcons,     \* function-level constraints declared (f.add_constraint)
          solves, hist
vars == <<reg, funs, npts, metrics, pcons, plmis, parts, ncomp, fcons, solves, hist>>
Init == /\ reg = ZeroReg /\ funs = <<>> /\ npts = 0 /\ metrics = 0 /\ pcons = 0 /\ plmis = 0 /\ parts = <<>> /\ solves = 0
        /\ ncomp = 0 /\ fcons = 0
        /\ hist = <<>>
Log(a) == hist' = Append(hist, a)
Started == reg.pep = 1
NewPEP == /\ reg' = [ZeroReg EXCEPT !.pep = 1]
          /\ funs' = <<>> /\ npts' = 0 /\ metrics' = 0 /\ pcons' = 0 /\ plmis' = 0 /\ parts' = <<>> /\ solves' = 0
          /\ ncomp' = 0 /\ fcons' = 0
          /\ Log([a |-> "pep", f |-> 0, k |-> 0, c |-> ""])
Declare(c) == /\ Started /\ Len(funs) < 2
              /\ funs' = Append(funs, [cls |-> c, n |-> 0, nstat |-> 0, xs |-> {}])
              /\ reg' = [reg EXCEPT !.fn = @ + 1, !.nfun = @ + 1]
              /\ Log([a |-> "declare", f |-> 0, k |-> 0, c |-> c]) /\ UNCHANGED <<npts, metrics, pcons, plmis, parts, ncomp, fcons, solves>>
InitPoint == /\ Started /\ npts < 2
             /\ npts' = npts + 1 /\ reg' = [reg EXCEPT !.pt = @ + 1]
             /\ Log([a |-> "point", f |-> 0, k |-> 0, c |-> ""]) /\ UNCHANGED <<funs, metrics, pcons, plmis, parts, ncomp, fcons, solves>>
\* f.oracle(x_k): a new sample (one gradient leaf, one value leaf) unless the function is differentiable and knows x_k;
\* a non-differentiable function that knows x_k records a new subgradient with the known value
Oracle(f, k) == /\ Started /\ f \in 1..Len(funs) /\ k \in 1..npts
                /\ LET F == funs[f]  known == k \in F.xs IN
                   IF known /\ Diff(F.cls) THEN UNCHANGED <<funs, reg>>
                   ELSE /\ funs' = [funs EXCEPT ![f].n = @ + 1, ![f].xs = @ \cup {k}]
                        /\ reg' = [reg EXCEPT !.pt = @ + 1, !.ex = @ + (IF known THEN 0 ELSE 1)]
                /\ Log([a |-> "oracle", f |-> f, k |-> k, c |-> ""]) /\ UNCHANGED <<npts, metrics, pcons, plmis, parts, ncomp, fcons, solves>>
Stationary(f) == /\ Started /\ f \in 1..Len(funs) /\ funs[f].nstat = 0
                 /\ funs' = [funs EXCEPT ![f].n = @ + 1, ![f].nstat = @ + 1]
                 /\ reg' = [reg EXCEPT !.pt = @ + 1, !.ex = @ + 1]
                 /\ Log([a |-> "stationary", f |-> f, k |-> 0, c |-> ""]) /\ UNCHANGED <<npts, metrics, pcons, plmis, parts, ncomp, fcons, solves>>
\* a comparison of two expressions creates one Constraint object; declaring it on the problem does not create anything
Condition == /\ Started /\ npts >= 1 /\ pcons < 2
             /\ pcons' = pcons + 1 /\ reg' = [reg EXCEPT !.co = @ + 1]
             /\ Log([a |-> "condition", f |-> 0, k |-> 0, c |-> ""]) /\ UNCHANGED <<funs, npts, metrics, plmis, parts, ncomp, fcons, solves>>
Metric == /\ Started /\ npts >= 1 /\ metrics < 2
          /\ metrics' = metrics + 1 /\ UNCHANGED reg
          /\ Log([a |-> "metric", f |-> 0, k |-> 0, c |-> ""]) /\ UNCHANGED <<funs, npts, pcons, plmis, parts, ncomp, fcons, solves>>
Lmi == /\ Started /\ npts >= 1 /\ plmis < 1
       /\ plmis' = plmis + 1 /\ reg' = [reg EXCEPT !.psd = @ + 1, !.ex = @ + 1]         \* [[|x|^2 + 1, t], [t, 1]] with a fresh leaf t
       /\ Log([a |-> "lmi", f |-> 0, k |-> 0, c |-> ""]) /\ UNCHANGED <<funs, npts, metrics, pcons, parts, ncomp, fcons, solves>>
Partition(d) == /\ Started /\ Len(parts) < 1
                /\ parts' = Append(parts, [d |-> d, dec |-> 0, rows |-> 0])
                /\ reg' = [reg EXCEPT !.bp = @ + 1]
                /\ Log([a |-> "partition", f |-> 0, k |-> d, c |-> ""]) /\ UNCHANGED <<funs, npts, metrics, pcons, plmis, ncomp, fcons, solves>>
\* get_block on a point not yet decomposed: d - 1 fresh leaf points
Block(k) == /\ Started /\ Len(parts) = 1 /\ k \in 1..npts /\ parts[1].dec < k          \* points are decomposed in order 1, 2
            /\ parts[1].dec = k - 1
            /\ parts' = [parts EXCEPT ![1].dec = k]
            /\ reg' = [reg EXCEPT !.pt = @ + parts[1].d - 1]
            /\ Log([a |-> "block", f |-> 0, k |-> k, c |-> ""]) /\ UNCHANGED <<funs, npts, metrics, pcons, plmis, ncomp, fcons, solves>>
\* solve: the objective leaf; class constraints re-created for every leaf function; a qg function without stationary
\* sample gets one (a leaf point and a leaf expression) the first time; the partition APPENDS its orthogonality
\* constraints at every solve (finding F4 - modelled as implemented); one constraint object per metric
OrthoRows(d, dec) == dec * dec * ((d * (d - 1)) \div 2)
Solve == /\ Started /\ metrics >= 1 /\ solves < 2
         /\ LET auto == {f \in 1..Len(funs) : funs[f].cls = "qg" /\ funs[f].nstat = 0}
                f2 == [f \in 1..Len(funs) |-> IF f \in auto THEN [funs[f] EXCEPT !.n = @ + 1, !.nstat = 1] ELSE funs[f]]
                RECURSIVE Rows(_)
                Rows(f) == IF f > Len(f2) THEN 0 ELSE ClassRows(f2[f].cls, f2[f].n, f2[f].nstat) + Rows(f + 1)
                prow == IF Len(parts) = 1 THEN OrthoRows(parts[1].d, parts[1].dec) ELSE 0
            IN /\ funs' = f2
               /\ parts' = IF Len(parts) = 1 THEN [parts EXCEPT ![1].rows = @ + prow] ELSE parts
               /\ reg' = [reg EXCEPT !.ex = @ + 1 + Cardinality(auto), !.pt = @ + Cardinality(auto),
                                     !.co = @ + Rows(1) + prow + metrics]
         /\ solves' = solves + 1
         /\ Log([a |-> "solve", f |-> 0, k |-> 0, c |-> ""]) /\ UNCHANGED <<npts, metrics, pcons, plmis, ncomp, fcons>>
\* F = f + g: a registered function that is not a leaf (no Function.counter of its own)
Compose(f, g) == /\ Started /\ f \in 1..Len(funs) /\ g \in 1..Len(funs) /\ f < g /\ ncomp < 1
                 /\ ncomp' = ncomp + 1 /\ reg' = [reg EXCEPT !.nfun = @ + 1]
                 /\ Log([a |-> "compose", f |-> f, k |-> g, c |-> ""])
                 /\ UNCHANGED <<funs, npts, metrics, pcons, plmis, parts, fcons, solves>>
\* f.add_constraint(|x_1|^2 <= 2): the comparison creates one Constraint object
FunCondition(f) == /\ Started /\ f \in 1..Len(funs) /\ npts >= 1 /\ fcons < 1
                   /\ fcons' = fcons + 1 /\ reg' = [reg EXCEPT !.co = @ + 1]
                   /\ Log([a |-> "fcondition", f |-> f, k |-> 0, c |-> ""])
                   /\ UNCHANGED <<funs, npts, metrics, pcons, plmis, parts, ncomp, solves>>
\* proximal_step(x_k, f, 1): a fresh subgradient leaf and a fresh value leaf, recorded as one more sample of f at the NEW
\* (non-leaf) point x_k - g
Prox(f, k) == /\ Started /\ f \in 1..Len(funs) /\ k \in 1..npts /\ funs[f].n < 3
              /\ funs' = [funs EXCEPT ![f].n = @ + 1]
              /\ reg' = [reg EXCEPT !.pt = @ + 1, !.ex = @ + 1]
              /\ Log([a |-> "prox", f |-> f, k |-> k, c |-> ""])
              /\ UNCHANGED <<npts, metrics, pcons, plmis, parts, ncomp, fcons, solves>>
Next == /\ Len(hist) < MaxActions
        /\ \/ NewPEP \/ (\E c \in Classes : Declare(c)) \/ InitPoint \/ (\E f \in 1..2, k \in 1..2 : Oracle(f, k))
           \/ (\E f \in 1..2 : Stationary(f)) \/ Condition \/ Metric \/ Lmi \/ (\E d \in {1, 2, 3} : Partition(d))
           \/ (\E k \in 1..2 : Block(k)) \/ Solve
           \/ (\E f, g \in 1..2 : Compose(f, g)) \/ (\E f \in 1..2 : FunCondition(f)) \/ (\E f \in 1..2, k \in 1..2 : Prox(f, k))
Spec == Init /\ [][Next]_vars
\* ---- cross-cutting invariants of the design
\* a new problem starts from a clean slate whatever happened before
CleanSlate == (hist # <<>> /\ hist[Len(hist)].a = "pep") => reg = [ZeroReg EXCEPT !.pep = 1]
\* the registries count what exists: one function counter per declared function, at least one leaf point per sample
Counting == Started => /\ reg.fn = Len(funs) /\ reg.nfun = Len(funs) + ncomp
                       /\ reg.bp = Len(parts)
                       /\ LET RECURSIVE S(_) S(f) == IF f > Len(funs) THEN 0 ELSE funs[f].n + S(f + 1) IN reg.pt >= npts + S(1)
\* the number of leaf expressions grows by exactly one objective per solve on top of what the user's calls created
Monotone == [][\A n \in DOMAIN reg : (hist' # <<>> /\ hist'[Len(hist')].a # "pep") => reg'[n] >= reg[n]]_vars
Emit == Len(hist) = MaxActions => PrintT(ToJson([h |-> hist]))
=============================================================================
