----------------------------- MODULE StepsTrace -----------------------------
(* C08 trace validation (structure).  Every call of a program executed on the real primitive steps is      *)
(* compared with Steps!Apply evaluated on the previously OBSERVED state: the returned tuple, the new       *)
(* samples per function and the new function-level constraints (as a set of conditions normalised by       *)
(* positive rescaling) must be the documented ones UP TO A PERMUTATION OF THE FRESH LEAVES of the call      *)
(* (the order in which an implementation allocates its fresh leaves is not part of the property).          *)
(* Nothing missing (the recording would be weaker), nothing extra (stronger).                              *)
(* A constraint recorded on another function of the table, or an unused extra leaf, does not change the    *)
(* feasible set: reported with the prefix "drift-".                                                         *)
EXTENDS Steps, IOUtils
Traces == ndJsonDeserialize(IOEnv.TRACE_FILE)
VARIABLES tid, l, obs, olast, bad
T == Traces[tid]
tvars == <<tid, l, obs, olast, bad, st, prev, last, plast, hist>>
\* ---- decoding of the sparse interchange format
RECURSIVE SetP(_, _, _)
SetP(v, sp, i) == IF i > Len(sp) THEN v ELSE SetP([v EXCEPT ![sp[i][1]] = <<sp[i][2], sp[i][3]>>], sp, i + 1)
DPt(sp, dp) == SetP(ZeroV(dp), sp, 1)
RECURSIVE SetG(_, _, _, _)
SetG(v, sg, i, dp) == IF i > Len(sg) THEN v
                      ELSE SetG([v EXCEPT ![PairIdx(dp, sg[i][1], sg[i][2])] = <<sg[i][3], sg[i][4]>>], sg, i + 1, dp)
DEx(j, dp, de) == [F |-> SetP(ZeroV(de), j.F, 1), G |-> SetG(ZeroV(NPairs(dp)), j.G, 1, dp), c |-> <<j.c[1], j.c[2]>>]
DObj(j, dp, de) == IF j.k = "pt" THEN Pt(DPt(j.p, dp)) ELSE IF j.k = "ex" THEN Ex(DEx(j, dp, de))
                   ELSE [k |-> j.k, p |-> 0, e |-> 0]
Decode(j, dp, de) ==
  [exc |-> j.exc, np |-> j.np, ne |-> j.ne, stray |-> j.stray,
   ret |-> [i \in 1..Len(j.ret) |-> DObj(j.ret[i], dp, de)],
   ns |-> [f \in 1..NF |-> [i \in 1..Len(j.ns[f]) |->
              [x |-> DPt(j.ns[f][i].x, dp), g |-> DPt(j.ns[f][i].g, dp), f |-> DEx(j.ns[f][i], dp, de)]]],
   nc |-> [f \in 1..NF |-> [i \in 1..Len(j.nc[f]) |-> [e |-> DEx(j.nc[f][i], dp, de), sense |-> j.nc[f][i].s]]]]
\* ---- renaming of leaves
IdP(n) == [k \in 1..n |-> k]
ExtPerm(n, W, pi) == [k \in 1..n |-> IF k \in W THEN pi[k] ELSE k]
PermV(v, sg) == [k \in 1..Len(v) |-> v[sg[k]]]
PermG(e, sg) == LET dp == Len(sg)  ps == PST[dp] IN
                [k \in 1..Len(ps) |-> e.G[PairIdx(dp, sg[ps[k][1]], sg[ps[k][2]])]]
PermF(e, ta) == [k \in 1..Len(e.F) |-> e.F[ta[k]]]
PermEx(e, sg, ta) == [F |-> PermF(e, ta), G |-> PermG(e, sg), c |-> e.c]
ExEq(edoc, eobs, sg, ta) == edoc.c = eobs.c /\ PermF(edoc, ta) = eobs.F /\ PermG(edoc, sg) = eobs.G
Max(a, b) == IF a >= b THEN a ELSE b
NonTriv(S) == S \ {<<"trivial">>}
\* ---- comparison of one observed delta d with the documented effect doc = Apply(c, pre, ..)
Compare(pre, doc, d) ==
  LET dp == pre.dp  de == pre.de
      dNS == [f \in 1..NF |-> NewS(pre, doc.st, f)]
      dNC == [f \in 1..NF |-> NewC(pre, doc.st, f)]
      kp == Max(doc.st.np, d.np) - pre.np
      ke == Max(doc.st.ne, d.ne) - pre.ne
      Wp == (pre.np + 1)..(pre.np + kp)
      We == (pre.ne + 1)..(pre.ne + ke)
      \* a renaming = (sg on leaf points, ta on leaf expressions); points and the G part of an expression depend on
      \* sg only, the F part on ta only: the candidates are filtered separately before the joint comparisons
      RetP(sg) == /\ Len(doc.ret) = Len(d.ret)
                  /\ \A i \in DOMAIN d.ret :
                        /\ d.ret[i].k = doc.ret[i].k
                        /\ d.ret[i].k = "pt" => PermV(doc.ret[i].p, sg) = d.ret[i].p
                        /\ d.ret[i].k = "ex" => doc.ret[i].e.c = d.ret[i].e.c /\ PermG(doc.ret[i].e, sg) = d.ret[i].e.G
      RetF(ta) == /\ Len(doc.ret) = Len(d.ret)
                  /\ \A i \in DOMAIN d.ret : (d.ret[i].k = "ex" /\ doc.ret[i].k = "ex") => PermF(doc.ret[i].e, ta) = d.ret[i].e.F
      PS(s, sg, ta) == [x |-> PermV(s.x, sg), g |-> PermV(s.g, sg), f |-> PermEx(s.f, sg, ta)]
      PSp(s, sg) == <<PermV(s.x, sg), PermV(s.g, sg), PermG(s.f, sg), s.f.c>>
      OSp(o) == <<o.x, o.g, o.f.G, o.f.c>>
      DocS(f, sg, ta) == {PS(dNS[f][i], sg, ta) : i \in DOMAIN dNS[f]}
      SampP(sg) == \A f \in 1..NF : /\ Len(dNS[f]) = Len(d.ns[f])
                                      /\ {PSp(dNS[f][i], sg) : i \in DOMAIN dNS[f]} = {OSp(d.ns[f][i]) : i \in DOMAIN d.ns[f]}
      SampF(ta) == \A f \in 1..NF : {PermF(dNS[f][i].f, ta) : i \in DOMAIN dNS[f]} = {d.ns[f][i].f.F : i \in DOMAIN d.ns[f]}
      SampOK(sg, ta) == \A f \in 1..NF : Len(dNS[f]) = Len(d.ns[f]) /\ DocS(f, sg, ta) = Range(d.ns[f])
      SampPNoOwner(sg) == UNION {{PSp(dNS[f][i], sg) : i \in DOMAIN dNS[f]} : f \in 1..NF}
                          = UNION {{OSp(d.ns[f][i]) : i \in DOMAIN d.ns[f]} : f \in 1..NF}
      SampNoOwner(sg, ta) == UNION {DocS(f, sg, ta) : f \in 1..NF} = UNION {Range(d.ns[f]) : f \in 1..NF}
      DocC(f, sg, ta) == NonTriv({NormForm(PermEx(dNC[f][i].e, sg, ta), dNC[f][i].sense) : i \in DOMAIN dNC[f]})
      ObsC(f) == NonTriv(NormSet(d.nc[f]))
      AllDocC(sg, ta) == UNION {DocC(f, sg, ta) : f \in 1..NF}
      AllObsC == UNION {ObsC(f) : f \in 1..NF}
      ConsOK(sg, ta) == \A f \in 1..NF : DocC(f, sg, ta) = ObsC(f)
      Diff(a) == LET dc == AllDocC(a[1], a[2]) IN Cardinality((dc \ AllObsC) \cup (AllObsC \ dc))
      idp == IdP(dp)  ide == IdP(de)
      extra == (IF d.np # doc.st.np \/ d.ne # doc.st.ne THEN {"drift-leaves"} ELSE {})
  IN
  IF d.exc # "" THEN {"raises"}
  ELSE IF pre.np + kp > dp \/ pre.ne + ke > de THEN {"machinery-dim"}
  ELSE IF d.stray # 0 THEN {"owner"}
  ELSE IF RetP(idp) /\ RetF(ide) /\ SampOK(idp, ide) /\ ConsOK(idp, ide) THEN extra
  ELSE
  LET SG == {ExtPerm(dp, Wp, pi) : pi \in Permutations(Wp)}
      TA == {ExtPerm(de, We, pi) : pi \in Permutations(We)}
      SG1 == {sg \in SG : RetP(sg)}
      TA1 == {ta \in TA : RetF(ta)}
  IN
  IF SG1 = {} \/ TA1 = {} THEN {"returned"}
  ELSE
  LET SG2 == {sg \in SG1 : SampP(sg)}
      TA2 == {ta \in TA1 : SampF(ta)}
      A2 == {a \in SG2 \X TA2 : SampOK(a[1], a[2])}
  IN
  IF A2 = {} THEN (IF \E sg \in {x \in SG1 : SampPNoOwner(x)} : \E ta \in TA1 : SampNoOwner(sg, ta)
                   THEN {"owner"} ELSE {"samples"})
  ELSE IF \E a \in A2 : ConsOK(a[1], a[2]) THEN extra
  ELSE
  LET a == CHOOSE a \in A2 : \A b \in A2 : Diff(a) <= Diff(b)
      dc == AllDocC(a[1], a[2])
  IN (IF dc \ AllObsC # {} THEN {"constraints-missing"} ELSE {})
     \cup (IF AllObsC \ dc # {} THEN {"constraints-extra"} ELSE {})
     \cup (IF dc = AllObsC THEN {"drift-constraint-owner"} ELSE {})
     \cup extra
\* a call that refers to the last returned tuple needs point components there
ArgsOK(c, ls) ==
  LET shapes == {c.a, c.b} \cup Range(c.dirs) IN
  /\ ("R1" \in shapes => Len(ls) >= 1 /\ ls[1].k = "pt")
  /\ ("R2" \in shapes => Len(ls) >= 2 /\ ls[2].k = "pt")
\* ---- the trace machine
TInit == /\ tid \in 1..Len(Traces)
         /\ l = 1
         /\ obs = InitSt(Traces[tid].dp, Traces[tid].de, Traces[tid].init.np, Traces[tid].init.ne)
         /\ olast = <<>>
         /\ bad = IF Traces[tid].init.np = 2 /\ Traces[tid].init.ne = 0 THEN {} ELSE {<<0, "init", "-", "machinery-init">>}
         /\ st = 0 /\ prev = 0 /\ last = 0 /\ plast = 0 /\ hist = <<>>
TStep == /\ l <= Len(T.h)
         /\ LET c == T.h[l]
                d == Decode(T.d[l], T.dp, T.de)
                \* variant 2: every composite function is a new object at each call (formed at the call site): it has no
                \* memory of its own samples; its terms keep theirs
                pre == IF T.variant = 2
                       THEN [obs EXCEPT !.S = [f \in 1..NF |-> IF FT[f].kind = "sum" THEN <<>> ELSE obs.S[f]],
                                        !.C = [f \in 1..NF |-> IF FT[f].kind = "sum" THEN <<>> ELSE obs.C[f]]]
                       ELSE obs
                cl == IF Bogus(c) THEN (IF d.exc = "ValueError" THEN {} ELSE {"raises"})
                      ELSE IF ~ArgsOK(c, olast) THEN {"skipped"}
                      ELSE Compare(pre, Apply(c, pre, olast), d)
            IN /\ bad' = bad \cup {<<l, c.step, c.opt, x>> : x \in cl}
               /\ obs' = [obs EXCEPT !.np = d.np, !.ne = d.ne,
                                     !.S = [f \in 1..NF |-> obs.S[f] \o d.ns[f]],
                                     !.C = [f \in 1..NF |-> obs.C[f] \o d.nc[f]]]
               /\ olast' = IF d.exc = "" /\ Len(d.ret) >= 2 THEN d.ret ELSE olast
         /\ l' = l + 1
         /\ UNCHANGED <<tid, st, prev, last, plast, hist>>
TSpec == TInit /\ [][TStep]_tvars
Report == l = Len(T.h) + 1 => PrintT(ToJson(<<"V", tid, bad>>))
=============================================================================
