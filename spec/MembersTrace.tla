---------------------------- MODULE MembersTrace ----------------------------
(* C03 trace validation.  One trace = one (class, parameters, declaration history) replayed on the real      *)
(* class: the role of every leaf point / leaf expression (free point, (sub)gradient at x, stationary point,  *)
(* fixed point, block of a point, infimal displacement vector, value at x) and THE CODE'S generated class    *)
(* constraints and class LMIs as sparse normal forms over the leaves.                                        *)
(* For every member of the class (Members!MembersOf), every assignment of the free leaves to grid vectors,   *)
(* every stationary / fixed point of the member and every enumerated choice of subgradients, the leaves get  *)
(* their real values and every generated constraint is evaluated exactly:                                    *)
(*     inequality <= 0,   equality = 0,   LMI = entries as written symmetric and the matrix PSD.             *)
(* A failure means: a real execution on a real member of the class is cut off by the relaxation.             *)
EXTENDS Members, IOUtils
Traces == ndJsonDeserialize(IOEnv.TRACE_FILE)
VARIABLES tid, mi, bad, nev, tight
tvars == <<tid, mi, bad, nev, tight, ci, phase, fails>>
T == Traces[tid]
TP(t) == [i \in 1..Len(t.P) |-> <<t.P[i][1], t.P[i][2]>>]
Mems(t) == MembersOf(t.cls, TP(t))
\* ---- sparse normal forms: point = <<k, n, d>>*, expression = [F: <<k, n, d>>*, G: <<i, j, n, d>>*, c: <<n, d>>]
RECURSIVE SPt(_, _, _, _)
SPt(s, env, dim, i) == IF i > Len(s) THEN ZeroVec(dim)
                       ELSE VAdd(VScale(<<s[i][2], s[i][3]>>, env[s[i][1]]), SPt(s, env, dim, i + 1))
RECURSIVE SumF(_, _, _), SumG(_, _, _)
SumF(F, fenv, i) == IF i > Len(F) THEN Z ELSE RAdd(RMul(<<F[i][2], F[i][3]>>, fenv[F[i][1]]), SumF(F, fenv, i + 1))
SumG(G, gram, i) == IF i > Len(G) THEN Z ELSE RAdd(RMul(<<G[i][3], G[i][4]>>, gram[G[i][1]][G[i][2]]), SumG(G, gram, i + 1))
SVal(e, gram, fenv) == RAdd(RAdd(SumF(e.F, fenv, 1), SumG(e.G, gram, 1)), <<e.c[1], e.c[2]>>)
\* the same expression as a dense LinForm normal form (cross-check of SVal against LinForm!EVal)
Dense(e, np, ne) ==
  [F |-> [k \in 1..ne |-> LET I == {i \in 1..Len(e.F) : e.F[i][1] = k} IN
                          IF I = {} THEN Z ELSE LET i == CHOOSE i \in I : TRUE IN <<e.F[i][2], e.F[i][3]>>],
   G |-> [q \in 1..NPairs(np) |-> LET pr == PairSeq(np)[q]  I == {i \in 1..Len(e.G) : e.G[i][1] = pr[1] /\ e.G[i][2] = pr[2]} IN
                                  IF I = {} THEN Z ELSE LET i == CHOOSE i \in I : TRUE IN <<e.G[i][3], e.G[i][4]>>],
   c |-> <<e.c[1], e.c[2]>>]
\* ---- the values a leaf point can take, given the values of the earlier leaves
Choices(ctx, k, env) ==
  LET r == ctx.t.roles[k]  m == ctx.m  dim == m.dim IN
  CASE r.t = "free" -> Free(dim)
    [] r.t = "grad" -> LET x == SPt(r.x, env, dim, 1) IN IF MDom(m, x) THEN MGrads(m, x) ELSE <<>>
    [] r.t = "gradT" -> << MGradT(m, SPt(r.x, env, dim, 1)) >>
    [] r.t = "stat" -> ctx.stat
    [] r.t = "fix" -> ctx.fix
    [] r.t = "blk" -> LET p == SPt(r.x, env, dim, 1) IN << [i \in 1..dim |-> IF i = r.b THEN p[i] ELSE Z] >>
    [] r.t = "v" -> << m.v >>
    [] r.t = "att" -> ctx.att
ZeroAcc == [n |-> 0, bad |-> {}, tight |-> {}, x |-> {}]
Merge(a, b) == [n |-> a.n + b.n, bad |-> a.bad \cup b.bad, tight |-> a.tight \cup b.tight, x |-> a.x \cup b.x]
LeafEval(ctx, env) ==
  LET t == ctx.t  m == ctx.m  dim == m.dim  np == t.NP
      fenv == [k \in 1..t.NE |-> MVal(m, SPt(t.fr[k], env, dim, 1))]
      gram == [i \in 1..np |-> [j \in 1..np |-> IF i <= j THEN VDot(env[i], env[j]) ELSE Z]]
      cv == [c \in 1..Len(t.cons) |-> SVal(t.cons[c], gram, fenv)]
      badc == {c \in 1..Len(t.cons) : IF t.cons[c].s = "eq" THEN ~RIsZ(cv[c]) ELSE RPos(cv[c])}
      tightc == {c \in 1..Len(t.cons) : t.cons[c].s = "ineq" /\ RIsZ(cv[c])}
      lv == [l \in 1..Len(t.lmis) |-> LET n == t.lmis[l].n IN
               [i \in 1..n |-> [j \in 1..n |-> SVal(t.lmis[l].E[(i - 1) * n + j], gram, fenv)]]]
      asym == {l \in 1..Len(t.lmis) : \E i \in 1..t.lmis[l].n : \E j \in 1..t.lmis[l].n : lv[l][i][j] # lv[l][j][i]}
      npsd == {l \in 1..Len(t.lmis) : l \notin asym /\ ~PSDm(lv[l], t.lmis[l].n)}
      \* machinery cross-check on the first evaluation of each (trace, member): SVal agrees with LinForm!EVal
      xc == IF ctx.first /\ np > 0
            THEN {c \in 1..Len(t.cons) : cv[c] # EVal(Dense(t.cons[c], np, t.NE), env, fenv)} ELSE {}
  IN [n |-> 1,
      bad |-> {<<t.cons[c].nm, m.tag>> : c \in badc} \cup {<<t.lmis[l].nm \o "-not-psd", m.tag>> : l \in npsd}
              \cup {<<t.lmis[l].nm \o "-not-symmetric", m.tag>> : l \in asym},
      tight |-> {t.cons[c].nm : c \in tightc},
      x |-> {t.cons[c].nm : c \in xc}]
RECURSIVE Walk(_, _, _), Fold(_, _, _, _, _)
Walk(ctx, k, env) == IF k > ctx.t.NP THEN LeafEval(ctx, env) ELSE Fold(ctx, k, env, Choices(ctx, k, env), 1)
Fold(ctx, k, env, ch, c) ==
  IF c > Len(ch) THEN ZeroAcc
  ELSE Merge(Walk([ctx EXCEPT !.first = ctx.first /\ c = 1], k + 1, Append(env, ch[c])), Fold(ctx, k, env, ch, c + 1))
\* ---- the trace machine: one step per member of the class
TInit == /\ tid \in 1..Len(Traces)
         /\ mi = 0 /\ bad = {} /\ nev = 0 /\ tight = {}
         /\ ci = 0 /\ phase = 0 /\ fails = {}          \* (variables of the model run of Members.tla, unused here)
Step == /\ mi < Len(Mems(T))
        /\ LET m == Mems(T)[mi + 1]
               ctx == [t |-> T, m |-> m, stat |-> StatSeq(m), fix |-> FixSeq(m), att |-> AttSeq(m), first |-> TRUE]
               \* a history that uses the block partition needs a member whose dimension carries the blocks
               r == IF T.d > m.dim THEN ZeroAcc ELSE Walk(ctx, 1, <<>>)
           IN /\ bad' = bad \cup r.bad \cup {<<"MACHINERY-sparse-evaluation", nm>> : nm \in r.x}
              /\ nev' = nev + r.n
              /\ tight' = tight \cup r.tight
        /\ mi' = mi + 1 /\ tid' = tid /\ UNCHANGED <<ci, phase, fails>>
TSpec == TInit /\ [][Step]_tvars
Report == mi = Len(Mems(T)) => PrintT(<<"V", tid, bad, nev, tight>>)
=============================================================================
