---------------------------- MODULE MembersTrace ----------------------------
(* C03 trace validation.  One trace = one (class, parameters, declaration history) replayed on the real      *)
(* class: the role of every leaf point / leaf expression (free point, (sub)gradient at x, stationary point,  *)
(* fixed point, block of a point, infimal displacement vector, value at x) and THE CODE'S generated class    *)
(* constraints and class LMIs as sparse normal forms over the leaves.                                        *)
(* For every member of the class (Members!MembersOf), every assignment of the free leaves to grid vectors,   *)
(* every stationary / fixed point of the member and every enumerated choice of subgradients, the leaves get  *)
(* their real values and every generated constraint is evaluated exactly:                                    *)
(*     inequality <= 0,   equality = 0,   LMI = entries as written symmetric and the matrix PSD.             *)
(* A failure means: a real execution on a real member of the class is cut off by the relaxation.             *)
EXTENDS Members, IOUtils
Traces == ndJsonDeserialize(IOEnv.TRACE_FILE)
VARIABLES tid, mi, bad, nev, tight, nov
tvars == <<tid, mi, bad, nev, tight, nov, ci, phase, fails>>
T == Traces[tid]
TP(t) == [i \in 1..Len(t.P) |-> <<t.P[i][1], t.P[i][2]>>]
\* constant-level tables (TLC evaluates them once): the members of every case and their special points
\* (in reverse order: the two-dimensional members, which cost most, come first in TLC's breadth-first search)
Rev(q) == [i \in 1..Len(q) |-> q[Len(q) + 1 - i]]
MemTab == [c \in 1..Len(Cases) |-> Rev(MembersOf(Cases[c].cls, Cases[c].P))]
StatTab == [c \in 1..Len(Cases) |-> [i \in 1..Len(MemTab[c]) |-> StatSeq(MemTab[c][i])]]
FixTab == [c \in 1..Len(Cases) |-> [i \in 1..Len(MemTab[c]) |-> FixSeq(MemTab[c][i])]]
AttTab == [c \in 1..Len(Cases) |-> [i \in 1..Len(MemTab[c]) |->
             IF Cases[c].cls = "NonexpansiveOperator" THEN AttSeq(MemTab[c][i]) ELSE <<>>]]
\* the trace names its case by index; the index must denote the class and parameters the driver used
CaseOK(t) == t.ci \in 1..Len(Cases) /\ Cases[t.ci].cls = t.cls /\ Cases[t.ci].P = TP(t)
Mems(t) == MemTab[t.ci]
\* ---- sparse normal forms: point = <<k, n, d>>*, expression = [F: <<k, n, d>>*, G: <<i, j, n, d>>*, c: <<n, d>>]
RECURSIVE SPt(_, _, _, _)
SPt(s, env, dim, i) == IF i > Len(s) THEN ZeroVec(dim)
                       ELSE TAdd(TScale(<<s[i][2], s[i][3]>>, env[s[i][1]]), SPt(s, env, dim, i + 1))
RECURSIVE SumF(_, _, _), SumG(_, _, _)
SumF(F, fenv, i) == IF i > Len(F) THEN Z ELSE SAdd(SMul(<<F[i][2], F[i][3]>>, fenv[F[i][1]]), SumF(F, fenv, i + 1))
SumG(G, gram, i) == IF i > Len(G) THEN Z ELSE SAdd(SMul(<<G[i][3], G[i][4]>>, gram[G[i][1]][G[i][2]]), SumG(G, gram, i + 1))
SVal(e, gram, fenv) == SAdd(SAdd(SumF(e.F, fenv, 1), SumG(e.G, gram, 1)), <<e.c[1], e.c[2]>>)
\* the same expression as a dense LinForm normal form (cross-check of SVal against LinForm!EVal)
Dense(e, np, ne) ==
  [F |-> [k \in 1..ne |-> LET I == {i \in 1..Len(e.F) : e.F[i][1] = k} IN
                          IF I = {} THEN Z ELSE LET i == CHOOSE i \in I : TRUE IN <<e.F[i][2], e.F[i][3]>>],
   G |-> [q \in 1..NPairs(np) |-> LET pr == PairSeq(np)[q]  I == {i \in 1..Len(e.G) : e.G[i][1] = pr[1] /\ e.G[i][2] = pr[2]} IN
                                  IF I = {} THEN Z ELSE LET i == CHOOSE i \in I : TRUE IN <<e.G[i][3], e.G[i][4]>>],
   c |-> <<e.c[1], e.c[2]>>]
\* ---- the values a leaf point can take, given the values of the earlier leaves
Choices(ctx, k, env) ==
  LET r == ctx.t.roles[k]  m == ctx.m  dim == m.dim IN
  CASE r.t = "free" -> Free(dim)
    [] r.t = "grad" -> LET x == SPt(r.x, env, dim, 1) IN IF MDom(m, x) THEN MGrads(m, x) ELSE <<>>
    [] r.t = "gradT" -> << MGradT(m, SPt(r.x, env, dim, 1)) >>
    [] r.t = "stat" -> ctx.stat
    [] r.t = "fix" -> ctx.fix
    [] r.t = "blk" -> LET p == SPt(r.x, env, dim, 1) IN << IF dim = 1 THEN <<IF r.b = 1 THEN p[1] ELSE Z>>
                                                                   ELSE <<IF r.b = 1 THEN p[1] ELSE Z, IF r.b = 2 THEN p[2] ELSE Z>> >>
    [] r.t = "v" -> << m.v >>
    [] r.t = "att" -> ctx.att
(* TLC keeps a function constructor [x \in S |-> e] as a lazy function and re-evaluates e at every            *)
(* application, so every shared table below (Gram matrix, values of the leaf expressions, values of the       *)
(* constraints) is bound by a quantifier over a singleton set - The({body : v \in {table}}) -: enumerating     *)
(* the set evaluates the table once and the bound identifier holds the evaluated value.                       *)
\* n: assignments evaluated; ov: assignments dropped because a leaf value left the 32-bit guard; unk: constraint / LMI
\* evaluations whose value left the guard (not judged)
ZeroAcc == [n |-> 0, ov |-> 0, unk |-> 0, bad |-> {}, tight |-> {}]
\* (bad keeps the first witness per <<constraint family, member>>)
Merge(a, b) == [n |-> a.n + b.n, ov |-> a.ov + b.ov, unk |-> a.unk + b.unk,
                bad |-> IF b.bad = {} THEN a.bad ELSE a.bad \cup {x \in b.bad : \A y \in a.bad : y[1] # x[1] \/ y[2] # x[2]},
                tight |-> a.tight \cup b.tight]
Judge(t, m, env, cv, lv) ==
  LET unkc == {c \in 1..Len(t.cons) : IsOvf(cv[c])}
      badc == {c \in 1..Len(t.cons) : c \notin unkc /\ IF t.cons[c].s = "eq" THEN ~RIsZ(cv[c]) ELSE RPos(cv[c])}
      tightc == {c \in 1..Len(t.cons) : c \notin unkc /\ t.cons[c].s = "ineq" /\ RIsZ(cv[c])}
      unkl == {l \in 1..Len(t.lmis) : \E i \in 1..t.lmis[l].n : \E j \in 1..t.lmis[l].n : IsOvf(lv[l][i][j])}
      asym == {l \in 1..Len(t.lmis) : l \notin unkl /\ \E i \in 1..t.lmis[l].n : \E j \in 1..t.lmis[l].n : lv[l][i][j] # lv[l][j][i]}
      psd == [l \in 1..Len(t.lmis) |-> IF l \in unkl \/ l \in asym THEN 2 ELSE PSD3(lv[l], t.lmis[l].n)]
  IN The({[n |-> 1, ov |-> 0,
           unk |-> Cardinality(unkc) + Cardinality({l \in 1..Len(t.lmis) : l \notin asym /\ ps[l] = 2}),
           \* failing <<constraint family, member, witness = the values of the leaf points>>
           bad |-> {<<t.cons[c].nm, m.tag, ToString(env)>> : c \in badc}
                   \cup {<<t.lmis[l].nm \o "-not-psd", m.tag, ToString(env)>> : l \in {l \in 1..Len(t.lmis) : ps[l] = 0}}
                   \cup {<<t.lmis[l].nm \o "-not-symmetric", m.tag, ToString(env)>> : l \in asym},
           tight |-> {t.cons[c].nm : c \in tightc}] : ps \in {psd}})
Eval2(t, m, env, gram, fenv) ==
  The({Judge(t, m, env, cv, lv) :
         cv \in {[c \in 1..Len(t.cons) |-> SVal(t.cons[c], gram, fenv)]},
         lv \in {[l \in 1..Len(t.lmis) |-> LET n == t.lmis[l].n IN
                    [i \in 1..n |-> [j \in 1..n |-> SVal(t.lmis[l].E[(i - 1) * n + j], gram, fenv)]]]}})
(* What the public calls returned must be able to carry EVERY real execution on the member:                      *)
(*  - the value returned with a sample is the member's value at that point (a value shared with another point    *)
(*    cuts off members whose values differ there);                                                               *)
(*  - an oracle call whose (sub)gradient is not a new free leaf pins the subgradient: that is only harmless if    *)
(*    the member has exactly that one (sub)gradient at the point.                                                 *)
SampleBad(t, m, env, gram, fenv) ==
  LET E == t.events
      xv(k) == SPt(E[k].x, env, m.dim, 1)
      gv(k) == SPt(E[k].g, env, m.dim, 1)
      ok(k) == ~HasOvf(xv(k)) /\ MDom(m, xv(k))
      vbad == {k \in 1..Len(E) : ok(k) /\ E[k].own = 1 /\ E[k].hasv = 1 /\ m.k # "lin" /\
                 LET a == SVal(E[k].v, gram, fenv)  b == MVal(m, xv(k)) IN ~IsOvf(a) /\ ~IsOvf(b) /\ a # b}
      gbad == {k \in 1..Len(E) : ok(k) /\ E[k].own = 1 /\ E[k].k = "oracle" /\ E[k].fresh = 0 /\ ~HasOvf(gv(k)) /\
                 \E g \in Range(MGrads(m, xv(k))) : ~HasOvf(g) /\ g # gv(k)}
  IN {<<"returned-value-is-not-the-value-at-that-point", m.tag, ToString(env)>> : k \in vbad}
     \cup {<<"oracle-pins-the-subgradient-where-the-member-has-several", m.tag, ToString(env)>> : k \in gbad}
SampleBadOf(t, m, env) ==
  The({SampleBad(t, m, env, gram, fenv) :
         gram \in {[i \in 1..t.NP |-> [j \in 1..t.NP |-> IF i <= j THEN TDot(env[i], env[j]) ELSE Z]]},
         fenv \in {[k \in 1..t.NE |-> MVal(m, SPt(t.fr[k], env, m.dim, 1))]}})
LeafEval0(t, m, env) ==
  The({Eval2(t, m, env, gram, fenv) :
         gram \in {[i \in 1..t.NP |-> [j \in 1..t.NP |-> IF i <= j THEN TDot(env[i], env[j]) ELSE Z]]},
         fenv \in {[k \in 1..t.NE |-> MVal(m, SPt(t.fr[k], env, m.dim, 1))]}})
LeafEval(t, m, env) ==
  The({[r EXCEPT !.bad = IF sb = {} THEN @ ELSE @ \cup {x \in sb : \A y \in @ : y[1] # x[1] \/ y[2] # x[2]}] :
         r \in {LeafEval0(t, m, env)}, sb \in {SampleBadOf(t, m, env)}})
RECURSIVE Walk(_, _, _), Fold(_, _, _, _, _)
Walk(ctx, k, env) == IF k > ctx.t.NP THEN LeafEval(ctx.t, ctx.m, env)
                     ELSE The({Fold(ctx, k, env, ch, 1) : ch \in {Choices(ctx, k, env)}})
Fold(ctx, k, env, ch, c) ==
  IF c > Len(ch) THEN ZeroAcc
  ELSE Merge(IF HasOvf(ch[c]) THEN [ZeroAcc EXCEPT !.ov = 1] ELSE Walk(ctx, k + 1, Append(env, ch[c])),
             Fold(ctx, k, env, ch, c + 1))
\* machinery cross-check, once per trace: the sparse evaluation agrees with LinForm!EVal on a fixed environment
XEnv(t) == [k \in 1..t.NP |-> <<RI(k - 2), Q(1, k)>>]
XFenv(t) == [k \in 1..t.NE |-> Q(k, 3)]
XCheck(t) == LET env == XEnv(t)  fenv == XFenv(t)
                 gram == [i \in 1..t.NP |-> [j \in 1..t.NP |-> IF i <= j THEN TDot(env[i], env[j]) ELSE Z]] IN
             {t.cons[c].nm : c \in {c \in 1..Len(t.cons) :
                  t.NP > 0 /\ SVal(t.cons[c], gram, fenv) # EVal(Dense(t.cons[c], t.NP, t.NE), env, fenv)}}
\* ---- the trace machine: one step per member of the class
TInit == /\ tid \in 1..Len(Traces)
         /\ mi = 0 /\ bad = {} /\ nev = 0 /\ tight = {} /\ nov = <<0, 0>>
         /\ ci = 0 /\ phase = 0 /\ fails = {}          \* (variables of the model run of Members.tla, unused here)
Step == /\ mi < Len(Mems(T))
        /\ LET m == Mems(T)[mi + 1]
               ctx == [t |-> T, m |-> m, stat |-> StatTab[T.ci][mi + 1], fix |-> FixTab[T.ci][mi + 1],
                       att |-> AttTab[T.ci][mi + 1]]
               \* a history that uses the block partition needs a member whose dimension carries the blocks
               r == IF T.d > m.dim THEN ZeroAcc ELSE Walk(ctx, 1, <<>>)
               \* Function.stationary_point() documents "create a NEW stationary point": two calls that hand out one and
               \* the same point force two minimisers / zeros of the member to coincide (the quadratic class documents
               \* "the unique stationary point created in __init__" instead and is not judged here)
               E == T.events
               merged == IF /\ T.cls # "SmoothStronglyConvexQuadraticFunction"
                            /\ Cardinality(Range(ctx.stat)) >= 2
                            /\ \E k1 \in 1..Len(E) : \E k2 \in (k1 + 1)..Len(E) :
                                  /\ E[k1].k = "stat" /\ E[k2].k = "stat" /\ E[k1].own = 1 /\ E[k2].own = 1
                                  /\ E[k1].x = E[k2].x
                         THEN {<<"two-stationary-points-are-one-point-where-the-member-has-several", m.tag, "">>} ELSE {}
           IN \E rr \in {r} :      \* (bound once: see The)
              /\ bad' = bad \cup rr.bad \cup merged \cup (IF mi = 0 THEN {<<"MACHINERY-sparse-evaluation", nm, "">> : nm \in XCheck(T)} ELSE {})
                        \cup (IF CaseOK(T) THEN {} ELSE {<<"MACHINERY-case-index", T.cls, "">>})
              /\ nev' = nev + rr.n
              /\ nov' = <<nov[1] + rr.ov, nov[2] + rr.unk>>
              /\ tight' = tight \cup rr.tight
        /\ mi' = mi + 1 /\ tid' = tid /\ UNCHANGED <<ci, phase, fails>>
TSpec == TInit /\ [][Step]_tvars
\* one JSON line per trace (core.verdicts): the failing <<constraint family, member>> pairs, the number of (member,
\* assignment) evaluations and the inequality families that were tight (= 0) at some member (vacuity indicator)
Report == mi = Len(Mems(T)) => PrintT(ToJson(<<"V", tid, [bad |-> bad, n |-> nev, tight |-> tight, ov |-> nov[1], unk |-> nov[2]]>>))
=============================================================================
