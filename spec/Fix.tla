------------------------------- MODULE Fix -------------------------------
(* Fixed point numbers in units of 1e-6 for OBSERVED solver output (multipliers, Gram matrix, values).     *)
(* Products with exact rationals and with each other are computed without 32-bit overflow.                 *)
EXTENDS Rat, Sequences
U == 1000000
\* x (fixed) times p/q (q > 0): floor towards zero, no intermediate overflow while the result fits
MulRat(x, p, q) == IF x = 0 \/ p = 0 THEN 0 ELSE
                   LET s == IF (x < 0) # (p < 0) THEN -1 ELSE 1
                       ax == Abs(x)  ap == Abs(p)
                   IN s * ((ax \div q) * ap + ((ax % q) * ap) \div q)
\* exact bound (in units) on the quantisation + truncation error of MulRat(x, p, q) when x is within 1/2 unit
QErr(p, q) == (Abs(p) \div q) + 2
\* product of two fixed-point numbers (|a|, |b| < 46 units of 1e6), result fixed point, via base-1000 limbs
MulFix(a, b) == IF a = 0 \/ b = 0 THEN 0 ELSE
                LET s == IF (a < 0) # (b < 0) THEN -1 ELSE 1
                    aa == Abs(a)  bb == Abs(b)
                    a1 == aa \div 1000  a0 == aa % 1000
                    b1 == bb \div 1000  b0 == bb % 1000
                IN s * (a1 * b1 + (a1 * b0 + a0 * b1) \div 1000 + (a0 * b0) \div 1000000)
InRange(x) == Abs(x) < 40 * U
RECURSIVE SumOver(_, _, _)
SumOver(f(_), lo, hi) == IF lo > hi THEN 0 ELSE f(lo) + SumOver(f, lo + 1, hi)
\* dot product of two fixed-point vectors
DotFix(u, v) == LET f(k) == MulFix(u[k], v[k]) IN SumOver(f, 1, Len(u))
=============================================================================
