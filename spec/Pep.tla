-------------------------------- MODULE Pep --------------------------------
(* The PEP life cycle (PEPit/pep.py, wrapper.py, wrappers/cvxpy_wrapper.py) as a state machine.              *)
(*   build phase : the user declares a function class, steps, user constraints, LMIs, metrics, a partition   *)
(*   Solve       : objective leaf, class constraints, partition constraints, the list sent to the wrapper     *)
(*                 (documented order, pep.py:403-546), the native cvxpy constraint list                        *)
(*                 [G >> 0] o (scalar -> 1 row | n x n LMI -> 1 PSD + n*n entry equalities) [o extra row of    *)
(*                 the dimension-reduction heuristic], the index walk of _recover_dual_values, epochs/caches   *)
(*   Eval        : a held object is evaluated; its cache remembers the epoch it was computed at               *)
(* Behaviours of this machine are exported as programs (hist) and run on the real library (drv_solve.py);    *)
(* SolveTrace.tla validates what the real solve exposed.  Named deviations of the implementation:            *)
(*   DevF3 : class LMIs are appended at every solve (set_class_constraints resets only the scalar list)       *)
(*   DevF4 : partition constraints are appended at every solve                                                 *)
(*   DevF5 : caches of held objects are never invalidated                                                      *)
(*   DevSkip : (vacuity control) the dual index walk skips n*n - 1 entry equalities instead of n*n            *)
EXTENDS Integers, Sequences, FiniteSets, TLC, Json
CONSTANTS MaxFeatures,     \* optional features per program
          MaxSolves,
          Classes,         \* set of class indices used (see harness/pepsolve.py class_table)
          DevF3, DevF4, DevF5, DevSkip,
          Wrappers,        \* {"cvxpy"} or {"cvxpy", "mosek"}
          Plain,           \* TRUE: solves use the default options (dual, no heuristic, silent); edits stay free
          Allowed          \* kinds of optional features that may be added: subset of AllFeatures
AllFeatures == {"steps", "comp", "cons", "lmi", "metrics", "part", "lmimetric", "unsent"}
LmiSize(code) == CASE code = "L1" -> 1 [] code = "S3" -> 3 [] OTHER -> 2
ConsCodes == {"pi", "pe", "pg", "pm", "pd", "fi", "ci", "dup", "dupf", "se", "pS", "pq"}   \* pq: an equality with a non-zero constant; se: a direction of prescribed small size |e|^2 = 1/4096; dup: the SAME constraint object declared twice
LmiCodes == {"S2", "D2", "L1", "N2", "S3", "F2", "V2", "B2", "Z2", "C2"}   \* C2: a non-zero CONSTANT off the diagonal;   \* Z2: an entry whose mirrored inner-product key carries an explicit zero;   \* B2 declares TWO matrices (a re-used numpy buffer)
ClassLmis(c) == IF c \in {4, 6, 7} THEN 1 ELSE IF c = 8 THEN 2 ELSE 0
VARIABLES prog, solves, phase, epoch, sent, native, dualpos, cache, nClassLmi, nPartRows, hist
vars == <<prog, solves, phase, epoch, sent, native, dualpos, cache, nClassLmi, nPartRows, hist>>
Init == /\ prog \in {[cls |-> c, steps |-> "g", comp |-> 0, ucons |-> <<>>, lmis |-> <<>>, metrics |-> 1, part |-> 0,
                      lmimetric |-> 0, unsent_lmi |-> 0] : c \in Classes}
        /\ solves = <<>> /\ phase = "build" /\ epoch = 0 /\ sent = <<>> /\ native = <<>> /\ dualpos = <<>>
        /\ cache = 0 /\ nClassLmi = 0 /\ nPartRows = 0 /\ hist = <<>>
NFeat == (IF prog.steps = "g" THEN 0 ELSE 1) + prog.comp + Len(prog.ucons) + Len(prog.lmis) + (prog.metrics - 1)
         + (IF prog.part = 0 THEN 0 ELSE 1) + prog.lmimetric + prog.unsent_lmi
CanAdd == phase = "build" /\ NFeat < MaxFeatures
InSeq(s, x) == \E i \in 1..Len(s) : s[i] = x
Feature ==
  /\ CanAdd
  /\ \/ "steps" \in Allowed /\ prog.steps = "g" /\ \E st \in {"gg", "gi", "gl"} \cup (IF prog.comp = 1 THEN {"gI"} ELSE {}) : prog' = [prog EXCEPT !.steps = st]
        \* gi: an inexact gradient step (its side constraint is declared on the function by the step);
        \* gI: the same step on a composite f + h built inline and not kept by the user
     \/ "comp" \in Allowed /\ prog.comp = 0 /\ prog.cls \in {1, 2, 3, 4, 11, 12} /\ prog' = [prog EXCEPT !.comp = 1]
     \/ "cons" \in Allowed /\ \E c \in ConsCodes : ~InSeq(prog.ucons, c) /\ (c = "ci" => prog.comp = 1) /\ prog' = [prog EXCEPT !.ucons = Append(@, c)]
     \/ "lmi" \in Allowed /\ \E c \in LmiCodes : Len(prog.lmis) < 2 /\ prog' = [prog EXCEPT !.lmis = Append(@, c)]
     \/ "metrics" \in Allowed /\ prog.metrics = 1 /\ prog' = [prog EXCEPT !.metrics = 2]
     \/ "part" \in Allowed /\ prog.part = 0 /\ \E w \in {1, 2} : prog' = [prog EXCEPT !.part = w]   \* 1: pep.declare_block_partition(d)  2: BlockPartition(d)
     \/ "lmimetric" \in Allowed /\ prog.lmimetric = 0 /\ Len(prog.lmis) > 0 /\ prog.lmis[1] # "L1" /\ prog' = [prog EXCEPT !.lmimetric = 1]
     \/ "unsent" \in Allowed /\ prog.unsent_lmi = 0 /\ prog' = [prog EXCEPT !.unsent_lmi = 1]
  /\ UNCHANGED <<solves, phase, epoch, sent, native, dualpos, cache, nClassLmi, nPartRows, hist>>
\* ---- the list sent to the wrapper, abstractly: a sequence of [src, k ("sc" | "lmi"), n]
Rep(x, n) == [i \in 1..n |-> x]
Sc(src) == [src |-> src, k |-> "sc", n |-> 1]
Lm(src, n) == [src |-> src, k |-> "lmi", n |-> n]
PepCons(p) == SelectSeq(p.ucons, LAMBDA c : c \in {"pi", "pe", "pg", "pm", "pd", "dup", "dupf", "se", "pS", "pq"})     \* pS: coefficients 2^16
DupPep(p) == SelectSeq(p.ucons, LAMBDA c : c \in {"dup", "se"})      \* codes that put two rows on the problem
FunCons(p) == SelectSeq(p.ucons, LAMBDA c : c \in {"fi", "ci", "dupf"}) \o (IF p.steps \in {"gi", "gI"} THEN <<"step">> ELSE IF p.steps = "gl" THEN <<"step", "step">> ELSE <<>>)   \* gl: exact line search (two orthogonality rows)
PepLmis(p) == SelectSeq(p.lmis, LAMBDA c : c # "F2")
FunLmis(p) == SelectSeq(p.lmis, LAMBDA c : c = "F2")
ClassRows == 2        \* abstract: the number of class rows is decided by the class (C04), not here
\* rows of a partition of 2 blocks with 2 decomposed points (+ 1 per "block" edit): k * k orthogonality relations for k
\* decomposed points (4, 9), plus the user's own constraint on the partition (declared with part = 1 only)
\* (with part = 1 the model also has a SECOND partition that decomposes one point: one more orthogonality relation)
PartRows(p, nb) == (IF p.part = 1 THEN 2 ELSE 0) + 4 + 5 * nb
SentList(p, edits, classLmis, partRows) ==
     Rep(Sc("metric"), p.metrics + edits.metric)
  \o <<Sc("pep")>>                                                   \* the initial condition
  \o [i \in 1..Len(PepCons(p)) |-> Sc("pep")] \o [i \in 1..Len(DupPep(p)) |-> Sc("pep")]
  \o [i \in 1..Len(PepLmis(p)) |-> Lm("pep", LmiSize(PepLmis(p)[i]))]
  \o [i \in 1..Len(SelectSeq(p.lmis, LAMBDA c : c = "B2")) |-> Lm("pep", 2)] \o Rep(Lm("pep", 2), edits.lmi)
  \o Rep(Sc("class"), ClassRows) \o Rep(Lm("class", 2), classLmis)
  \o [i \in 1..Len(FunCons(p)) |-> Sc("fun")] \o Rep(Sc("fun"), edits.fcons) \o [i \in 1..Len(FunLmis(p)) |-> Lm("fun", 2)]
  \o Rep(Sc("part"), partRows)
\* native cvxpy list: entries [kind, item] where item = index in the sent list (0 for G and the extra row)
RECURSIVE NativeFrom(_, _)
NativeFrom(s, k) == IF k > Len(s) THEN <<>> ELSE
   (IF s[k].k = "sc" THEN <<[kind |-> "row", item |-> k]>>
    ELSE <<[kind |-> "psd", item |-> k]>> \o Rep([kind |-> "entry", item |-> k], s[k].n * s[k].n)) \o NativeFrom(s, k + 1)
NativeList(s, heur) == <<[kind |-> "gram", item |-> 0]>> \o NativeFrom(s, 1)
                       \o (IF heur THEN <<[kind |-> "extra", item |-> 0]>> ELSE <<>>)
\* _recover_dual_values: position in the native list whose dual is given to each sent item
RECURSIVE Walk(_, _, _)
Walk(s, k, counter) == IF k > Len(s) THEN <<>> ELSE
   <<counter>> \o Walk(s, k + 1, IF s[k].k = "sc" THEN counter + 1
                                 ELSE counter + 1 + (IF DevSkip THEN s[k].n * s[k].n - 1 ELSE s[k].n * s[k].n))
Edits == [metric |-> Cardinality({i \in 1..Len(solves) : solves[i].edit \in {"metric", "step"}}),
          lmi |-> Cardinality({i \in 1..Len(solves) : solves[i].edit = "lmi"}),
          fcons |-> Cardinality({i \in 1..Len(solves) : solves[i].edit = "fcons"})]
SolveOpts == [wrapper : Wrappers, mode : {"dual", "primal"}, heur : {"none", "trace", "logdet1", "logdet2"},
              edit : {"none", "init", "metric", "lmi", "block", "tsample", "fcons", "step", "infeasible", "feasible-again"}, verbose : {0, 1}]
Infeasible(sv) == Cardinality({i \in 1..Len(sv) : sv[i].edit = "infeasible"}) > Cardinality({i \in 1..Len(sv) : sv[i].edit = "feasible-again"})
Solve ==
  /\ Len(solves) < MaxSolves
  /\ \E o \in SolveOpts :
       /\ (o.edit # "none" => Len(solves) >= 1)                      \* edits happen between solves
       /\ (o.edit = "feasible-again" => Infeasible(solves))
       /\ (o.edit = "infeasible" => ~Infeasible(solves))
       /\ (o.edit = "step" => \A i \in 1..Len(solves) : solves[i].edit # "step")      \* one more step of the method, new metric
       /\ (o.edit = "fcons" => \A i \in 1..Len(solves) : solves[i].edit # "fcons")
       /\ (o.edit = "tsample" => prog.cls = 8 /\ \A i \in 1..Len(solves) : solves[i].edit # "tsample")   \* sample the adjoint once more
       /\ (o.edit = "block" => prog.part # 0 /\ \A i \in 1..Len(solves) : solves[i].edit # "block")   \* decompose one more point
       /\ (o.verbose = 1 => o.heur = "none" /\ o.mode = "dual")
       /\ (Plain => o.mode = "dual" /\ o.heur = "none" /\ o.verbose = 0)
       /\ LET sv == Append(solves, o)
              ok == ~Infeasible(sv)
              cl == IF DevF3 THEN nClassLmi + ClassLmis(prog.cls) ELSE ClassLmis(prog.cls)
              nb == Cardinality({i \in 1..Len(sv) : sv[i].edit = "block"})
              pr == IF prog.part = 0 THEN 0 ELSE IF DevF4 THEN nPartRows + PartRows(prog, nb) ELSE PartRows(prog, nb)
              ed == [metric |-> Cardinality({i \in 1..Len(sv) : sv[i].edit \in {"metric", "step"}}),
                     lmi |-> Cardinality({i \in 1..Len(sv) : sv[i].edit = "lmi"}),
                     fcons |-> Cardinality({i \in 1..Len(sv) : sv[i].edit = "fcons"})]
              s == SentList(prog, ed, cl, pr) \o (IF Infeasible(sv) THEN <<Sc("pep")>> ELSE <<>>)
          IN /\ solves' = sv
             /\ nClassLmi' = cl /\ nPartRows' = pr
             /\ sent' = s
             /\ native' = NativeList(s, ok /\ o.heur # "none")
             /\ dualpos' = IF ok THEN Walk(s, 1, 2) ELSE <<>>
             /\ phase' = IF ok THEN "solved" ELSE "failed"
             /\ epoch' = IF ok THEN epoch + 1 ELSE epoch
             /\ cache' = IF DevF5 THEN cache ELSE 0                  \* ideal: every solve invalidates the caches
             /\ hist' = Append(hist, o)
  /\ UNCHANGED prog
\* the user evaluates a held object: it is (re)computed from the current leaf values unless cached
Eval == /\ phase = "solved" /\ cache = 0
        /\ cache' = epoch
        /\ UNCHANGED <<prog, solves, phase, epoch, sent, native, dualpos, nClassLmi, nPartRows, hist>>
Next == Feature \/ Solve \/ Eval
Spec == Init /\ [][Next]_vars
\* ---- invariants of the design
\* C01 (i): each sent item receives the multiplier of the native entry created for it
DualMap == \A k \in 1..Len(dualpos) :
             /\ dualpos[k] \in 1..Len(native)
             /\ native[dualpos[k]].item = k
             /\ native[dualpos[k]].kind = (IF sent[k].k = "sc" THEN "row" ELSE "psd")
\* C05: every declared source reaches the solver once; nothing else
SentOnce == phase = "build" \/
   LET ed == Edits IN
   /\ Cardinality({k \in 1..Len(sent) : sent[k].src = "metric"}) = prog.metrics + ed.metric
   /\ Cardinality({k \in 1..Len(sent) : sent[k].src = "class" /\ sent[k].k = "lmi"}) = ClassLmis(prog.cls)
   /\ Cardinality({k \in 1..Len(sent) : sent[k].src = "part"})
        = (IF prog.part # 0 THEN PartRows(prog, Cardinality({i \in 1..Len(solves) : solves[i].edit = "block"})) ELSE 0)
\* C13: a cached value belongs to the current epoch
Fresh == cache # 0 => cache = epoch
\* C05: the native list has exactly one entry per scalar, 1 + n*n per LMI, the Gram PSD first, one extra row with a heuristic
NativeShape == phase = "build" \/
   /\ native[1].kind = "gram"
   /\ \A k \in 1..Len(sent) : Cardinality({j \in 1..Len(native) : native[j].item = k}) = (IF sent[k].k = "sc" THEN 1 ELSE 1 + sent[k].n * sent[k].n)
\* ---- export: every program that has at least one solve
Emit == (Len(solves) >= 1 /\ (Len(solves) = MaxSolves \/ TRUE)) => PrintT(ToJson([prog |-> prog, solves |-> solves]))
=============================================================================
