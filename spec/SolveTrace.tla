---------------------------- MODULE SolveTrace ----------------------------
(* Trace validation of real solves (C01, C02, C05, C13, C14, part of C11/C16).                              *)
(* A trace = one PEP program built with the real DSL + a sequence of solves; after each solve the driver     *)
(* logs: every declared item by source, the list sent to the wrapper, the natively probed cvxpy problem,     *)
(* the multipliers exposed by the objects, the residual, the primal matrices, evaluated objects, and the     *)
(* wrapper phase events.  Symbolic data are exact rationals (normal forms), solver output is fixed point.    *)
(* Every clause below is one conjunct of a property, evaluated on the OBSERVED data.                         *)
EXTENDS MosekTask, Fix, TLC, Json, IOUtils
CONSTANTS TolAbs,        \* absolute solver tolerance in units of 1e-6
          TolRelPpm      \* relative tolerance in parts per million of the magnitude involved
Traces == ndJsonDeserialize(IOEnv.TRACE_FILE)
VARIABLES tid, l, bad, stats
vars == <<tid, l, bad, stats>>
T == Traces[tid]
Max(a, b) == IF a > b THEN a ELSE b
RECURSIVE MaxOver(_, _, _)
MaxOver(f(_), lo, hi) == IF lo > hi THEN 0 ELSE Max(f(lo), MaxOver(f, lo + 1, hi))
Tol(mag, q) == TolAbs + q + (Abs(mag) \div 1000000) * TolRelPpm + ((Abs(mag) % 1000000) * TolRelPpm) \div 1000000
\* ------------------------------------------------------------------------------------------------ one solve
Clauses(S, P, hasPrev, TauSet) ==   \* S = this solve's observation, P = previous solve's observation (meaningful iff hasPrev)
  LET np == S.np  ne == S.ne  npair == NPairs(np)  NK == ne + npair + 1
      Items == S.items
      nI == Len(Items)
      vecs == [i \in 1..nI |-> [e \in 1..Len(Items[i].e) |-> Flatten(DE(Items[i].e[e]))]]
      IsSc(i) == Items[i].k = "sc"
      solved == S.ret = "num"
      prev == P
      \* ---------------- C05: what was sent
      leafFuns == SelectSeq(S.decl.funs, LAMBDA f : f.leaf = 1)
      RECURSIVE Cat(_, _, _)
      Cat(sq, g(_), k) == IF k > Len(sq) THEN <<>> ELSE g(sq[k]) \o Cat(sq, g, k + 1)
      expected == S.decl.pep_cons \o S.decl.pep_lmis
                  \o Cat(leafFuns, LAMBDA f : f.ccons \o f.clmis, 1)
                  \o Cat(S.decl.funs, LAMBDA f : f.cons \o f.lmis, 1)
                  \o Cat(S.decl.parts, LAMBDA p : p, 1)
      BagOf(sq) == [i \in 1..nI |-> Cardinality({k \in 1..Len(sq) : sq[k] = i})]
      declaredIdx == {expected[k] : k \in 1..Len(expected)}
      metricRows == SelectSeq(S.sent, LAMBDA i : i \notin declaredIdx)
      nonMetric == SelectSeq(S.sent, LAMBDA i : i \in declaredIdx)
      tauVec == [k \in 1..NK |-> IF k = S.tau THEN One ELSE Z]
      metricVec(m) == Flatten(DE(S.metrics[m]))
      MetricOK == /\ Len(metricRows) = Len(S.metrics)
                  /\ \A m \in 1..Len(S.metrics) : m <= Len(metricRows) =>
                        /\ IsSc(metricRows[m]) /\ Items[metricRows[m]].sense = "ineq"
                        /\ vecs[metricRows[m]][1] = [k \in 1..NK |-> RSub(tauVec[k], metricVec(m)[k])]
      c05a == IF BagOf(nonMetric) = BagOf(expected) THEN {}
              ELSE {<<"C05", "sent-is-not-declared", Len(nonMetric) - Len(expected)>>}
      c05b == IF S.tau \in 1..ne /\ MetricOK THEN {} ELSE {<<"C05", "metric-rows", Len(metricRows)>>}
      c05c == IF BagOf(S.pep_sent_cons \o S.pep_sent_lmis) = BagOf(S.sent) THEN {}
              ELSE {<<"C05", "pep-tracking-differs-from-wrapper", 0>>}
      \* what the user declared through the public API, recorded by the driver AT DECLARATION TIME (not read back from the
      \* library's lists): every such item reaches the solver as often as it was declared, with the entries as written
      UD == S.user_decl
      udCount(i) == Cardinality({k \in 1..Len(UD) : UD[k].i = i})
      sentCount(i) == Cardinality({k \in 1..Len(S.sent) : S.sent[k] = i})
      udMissing == {UD[k].i : k \in {j \in 1..Len(UD) : sentCount(UD[j].i) # udCount(UD[j].i)}}
      udAltered == {UD[k].i : k \in {j \in 1..Len(UD) : UD[j].k = "lmi" /\
                       [e \in 1..Len(UD[j].e) |-> Flatten(DE(UD[j].e[e]))] # vecs[UD[j].i]}}
      c05f == (IF udMissing = {} THEN {} ELSE {<<"C05", "user-declared-item-not-sent-as-often-as-declared", CHOOSE i \in udMissing : TRUE>>})
              \cup (IF udAltered = {} THEN {} ELSE {<<"C05", "matrix-sent-differs-from-the-matrix-declared", CHOOSE i \in udAltered : TRUE>>})
      \* the blocks of every point the user decomposed, as the partition's public accessor returned them: the
      \* orthogonality of different blocks (of one point or of two points) is part of the declared model
      PB == S.part_blocks
      sentEq == {NormForm(DE(Items[S.sent[j]].e[1]), "eq") :
                    j \in {q \in 1..Len(S.sent) : IsSc(S.sent[q]) /\ Items[S.sent[q]].sense = "eq"}}
      orthMissing == {w \in (1..Len(PB)) \X (1..2) \X (1..Len(PB)) \X (1..2) :
                        /\ w[1] <= w[3] /\ w[2] # w[4] /\ (w[1] = w[3] => w[2] < w[4])
                        /\ LET nf == NormForm(Inner(ne, RV(PB[w[1]][w[2]]), RV(PB[w[3]][w[4]])), "eq")
                           IN nf # <<"trivial">> /\ nf \notin sentEq}
      c05g == IF orthMissing = {} THEN {}
              ELSE {<<"C05", "orthogonality-of-declared-blocks-not-sent", Cardinality(orthMissing)>>}
      \* ---------------- C05: the native cvxpy problem denotes the sent list
      NatL == S.native
      msz == S.msizes
      MOff(m) == ne + npair + SumOver(LAMBDA j : NPairs(msz[j]), 1, m - 1)
      NV == MOff(Len(msz) + 1)
      RowV(r) == RV(r.v)
      Pad(v) == [k \in 1..NV |-> IF k <= ne + npair THEN v[k] ELSE Z]
      UnitN(k) == [j \in 1..NV |-> IF j = k THEN One ELSE Z]
      IsConstR(r, q) == r.c.t = "r" /\ <<r.c.v[1], r.c.v[2]>> = q
      PsdOn(entry, off, n) == /\ entry.kind = "psd" /\ Len(entry.rows) = n * n
                              /\ \A i, j \in 1..n : LET r == entry.rows[(i - 1) * n + j] IN
                                    RowV(r) = UnitN(off + PairIdx(n, i, j)) /\ IsConstR(r, Z)
      ScalarIs(entry, i) == /\ entry.kind = Items[i].sense /\ Len(entry.rows) = 1
                            /\ RowV(entry.rows[1]) = Pad(vecs[i][1]) /\ IsConstR(entry.rows[1], vecs[i][1][NK])
      EntryEqIs(entry, off, n, a, b, ev) ==
         /\ entry.kind = "eq" /\ Len(entry.rows) = 1
         /\ LET want == [k \in 1..NV |-> RSub(UnitN(off + PairIdx(n, a, b))[k], Pad(ev)[k])]
                got == RowV(entry.rows[1])
            IN \/ got = want /\ IsConstR(entry.rows[1], RNeg(ev[NK]))
               \/ got = VNeg(want) /\ IsConstR(entry.rows[1], ev[NK])
      \* walk the sent list and the native list together.  An LMI of size n is encoded as one PSD matrix variable M
      \* followed by equality rows M[a,b] - entry(a,b) = 0.  The encoding is judged by its meaning, not its row count:
      \* every row of the block must be such a coupling, and every entry (a,b) of the declared matrix must be coupled
      \* (one row serves (a,b) and (b,a) when the two entries are the same expression, since M is symmetric).
      CouplesM(entry, off, n) == entry.kind = "eq" /\ Len(entry.rows) = 1 /\
                                 \E k \in (off + 1)..(off + NPairs(n)) : RowV(entry.rows[1])[k] # Z
      RECURSIVE BlockLen(_, _, _)
      BlockLen(pos, off, n) == IF pos <= Len(NatL) /\ CouplesM(NatL[pos], off, n) THEN 1 + BlockLen(pos + 1, off, n) ELSE 0
      RECURSIVE Walk(_, _, _)
      Walk(k, pos, m) ==      \* k: index in sent; pos: next native position; m: number of LMIs seen so far
         IF k > Len(S.sent) THEN [ok |-> TRUE, pos |-> pos, at |-> 0]
         ELSE LET i == S.sent[k] IN
              IF IsSc(i)
              THEN IF pos <= Len(NatL) /\ ScalarIs(NatL[pos], i) THEN Walk(k + 1, pos + 1, m)
                   ELSE [ok |-> FALSE, pos |-> pos, at |-> k]
              ELSE LET n == Items[i].n
                       off == MOff(m + 1)
                       len == IF pos + 1 <= Len(NatL) /\ m + 1 <= Len(msz) THEN BlockLen(pos + 1, off, n) ELSE 0
                       rowsOf == (pos + 1)..(pos + len)
                   IN
                   IF /\ pos <= Len(NatL) /\ m + 1 <= Len(msz) /\ msz[m + 1] = n
                      /\ PsdOn(NatL[pos], off, n)
                      /\ \A r \in rowsOf : \E a, b \in 1..n : EntryEqIs(NatL[r], off, n, a, b, vecs[i][(a - 1) * n + b])
                      /\ \A a, b \in 1..n : \E r \in rowsOf : EntryEqIs(NatL[r], off, n, a, b, vecs[i][(a - 1) * n + b])
                   THEN Walk(k + 1, pos + 1 + len, m + 1)
                   ELSE [ok |-> FALSE, pos |-> pos, at |-> k]
      walk == Walk(1, 2, 0)
      heur == S.opts.heur # "none"
      \* the heuristic's only extra row:  (optimum - tol) - tau <= 0
      ExtraOK == IF ~heur \/ ~solved THEN walk.pos = Len(NatL) + 1
                 ELSE /\ walk.pos = Len(NatL)
                      /\ NatL[Len(NatL)].kind = "ineq" /\ Len(NatL[Len(NatL)].rows) = 1
                      /\ LET r == NatL[Len(NatL)].rows[1] IN
                            /\ RowV(r) = VNeg(UnitN(S.tau))                       \* (optimum - tol) - tau <= 0
                            /\ r.c.t = "x"
                            /\ \E k \in 1..Len(S.phases) : S.phases[k].ev = "prepare_heuristic" /\
                                   Abs(r.c.v[1] - (S.phases[k].wc - S.phases[k].tol)) <= 2
      hasNative == Len(NatL) > 0
      c05d == IF ~hasNative THEN {}
              ELSE IF ~(Len(NatL) >= 1 /\ PsdOn(NatL[1], ne, np)) THEN {<<"C05", "native-gram-psd", 0>>}
              ELSE IF ~walk.ok THEN {<<"C05", "native-row-does-not-denote-sent-item", walk.at>>}
              ELSE IF ~ExtraOK THEN {<<"C05", "native-extra-rows", Len(NatL) + 1 - walk.pos>>} ELSE {}
      c05e == IF ~hasNative THEN {}
              ELSE IF RV(S.obj.v) = [k \in 1..(ne + npair) |-> IF k = S.tau THEN One ELSE Z] /\ S.obj.c = <<0, 1>>
                      /\ S.objsense \in {"maximize", "n/a"} THEN {}
              ELSE {<<"C05", "objective", 0>>}
      \* ---------------- C01: the dual certificate
      Dual(i) == S.duals[i]
      rows == S.pep_sent_cons
      lmis == S.pep_sent_lmis
      haveDuals == /\ \A r \in 1..Len(rows) : Len(Dual(rows[r])) = 1
                   /\ \A r \in 1..Len(lmis) : Len(Dual(lmis[r])) = Items[lmis[r]].n * Items[lmis[r]].n
                   /\ Len(S.resid) = npair
      allDuals == [i \in 1..nI |-> S.duals[i]]
      inRange == /\ \A i \in 1..nI : \A e \in 1..Len(S.duals[i]) : InRange(S.duals[i][e])
                 /\ \A k \in 1..Len(S.resid) : InRange(S.resid[k])
      RowTerm(key) == SumOver(LAMBDA r : MulRat(Dual(rows[r])[1], vecs[rows[r]][1][key][1], vecs[rows[r]][1][key][2]), 1, Len(rows))
      RowErr(key) == SumOver(LAMBDA r : IF vecs[rows[r]][1][key][1] = 0 THEN 0 ELSE QErr(vecs[rows[r]][1][key][1], vecs[rows[r]][1][key][2]), 1, Len(rows))
      LmiTerm(key) == SumOver(LAMBDA r : SumOver(LAMBDA e : MulRat(Dual(lmis[r])[e], vecs[lmis[r]][e][key][1], vecs[lmis[r]][e][key][2]),
                                                 1, Len(Dual(lmis[r]))), 1, Len(lmis))
      LmiErr(key) == SumOver(LAMBDA r : SumOver(LAMBDA e : IF vecs[lmis[r]][e][key][1] = 0 THEN 0 ELSE QErr(vecs[lmis[r]][e][key][1], vecs[lmis[r]][e][key][2]),
                                                1, Len(Dual(lmis[r]))), 1, Len(lmis))
      ResTerm(key) == IF key > ne /\ key < NK THEN S.resid[key - ne] ELSE 0
      ObjTerm(key) == IF key = S.tau THEN U ELSE 0
      Lhs(key) == ObjTerm(key) - RowTerm(key) + ResTerm(key) + LmiTerm(key)
      certConst == Lhs(NK)
      KeyErr(key) == IF key = NK THEN 0 ELSE Abs(Lhs(key))
      KeyTol(key) == Tol(Max(Abs(RowTerm(key)), Abs(LmiTerm(key))), RowErr(key) + LmiErr(key) + 2)
      badKeys == {key \in 1..(NK - 1) : KeyErr(key) > KeyTol(key)}
      maxKeyErr == MaxOver(KeyErr, 1, NK - 1)
      nonSymLmi == \E r \in 1..Len(lmis) : LET i == lmis[r]  n == Items[i].n IN
                      \E a, b \in 1..n : vecs[i][(a - 1) * n + b] # vecs[i][(b - 1) * n + a]
      \* every product multiplier x coefficient must stay far from TLC's 32-bit integers (a term of the identity of one of
      \* these O(1) models that exceeds 60 in absolute value cannot be part of a certificate that closes within tolerance)
      TermFits(x, p, q) == p = 0 \/ Abs(x) <= 60000000 \div ((Abs(p) \div q) + 1)
      termsOK == /\ \A r \in 1..Len(rows) : \A key \in 1..NK : TermFits(Dual(rows[r])[1], vecs[rows[r]][1][key][1], vecs[rows[r]][1][key][2])
                 /\ \A r \in 1..Len(lmis) : \A e \in 1..Len(Dual(lmis[r])) : \A key \in 1..NK :
                       TermFits(Dual(lmis[r])[e], vecs[lmis[r]][e][key][1], vecs[lmis[r]][e][key][2])
      doCert == solved /\ haveDuals /\ inRange /\ termsOK
      \* When some product multiplier x coefficient does not fit (termsOK fails) the identity is not computed.  One case is
      \* still decided soundly: a monomial in which exactly ONE term does not fit (it is > 60 in absolute value) while
      \* the absolute values of all the other terms add up to less than 59 cannot sum to zero.  (Two or more large
      \* terms may cancel - redundant equalities, e.g. the mirrored entries of an LMI, carry arbitrary opposite
      \* multipliers - and are left undecided.)
      BigRows(key) == {r \in 1..Len(rows) : ~TermFits(Dual(rows[r])[1], vecs[rows[r]][1][key][1], vecs[rows[r]][1][key][2])}
      BigLmis(key) == {re \in UNION {{<<r, e>> : e \in 1..Len(Dual(lmis[r]))} : r \in 1..Len(lmis)} :
                         ~TermFits(Dual(lmis[re[1]])[re[2]], vecs[lmis[re[1]]][re[2]][key][1], vecs[lmis[re[1]]][re[2]][key][2])}
      SmallAbs(key) == SumOver(LAMBDA r : IF r \in BigRows(key) THEN 0
                                          ELSE Abs(MulRat(Dual(rows[r])[1], vecs[rows[r]][1][key][1], vecs[rows[r]][1][key][2])), 1, Len(rows))
                       + SumOver(LAMBDA r : SumOver(LAMBDA e : IF <<r, e>> \in BigLmis(key) THEN 0
                                          ELSE Abs(MulRat(Dual(lmis[r])[e], vecs[lmis[r]][e][key][1], vecs[lmis[r]][e][key][2])),
                                                    1, Len(Dual(lmis[r]))), 1, Len(lmis))
                       + Abs(ResTerm(key)) + Abs(ObjTerm(key))
      lonelyBig == {key \in 1..(NK - 1) : Cardinality(BigRows(key)) + Cardinality(BigLmis(key)) = 1 /\ SmallAbs(key) < 59000000}
      c01h == IF solved /\ haveDuals /\ ~termsOK /\ (\A k \in 1..Len(S.resid) : InRange(S.resid[k])) /\ lonelyBig # {}
              THEN {<<"C01", "identity-cannot-close:one-term-exceeds-60-and-all-others-together-stay-below", CHOOSE k \in lonelyBig : TRUE>>} ELSE {}
      c01a == IF ~solved THEN {} ELSE IF ~haveDuals THEN {<<"C01", "multiplier-missing", 0>>} ELSE {}
      c01b == IF doCert /\ badKeys # {} THEN {<<"C01", IF nonSymLmi THEN "identity-with-lmi-not-symmetric-as-written:" \o S.lmishape ELSE "identity",
                                                CHOOSE k \in badKeys : \A j \in badKeys : KeyErr(j) <= KeyErr(k)>>} ELSE {}
      c01c == IF doCert /\ S.opts.mode = "dual" /\ Abs(certConst - S.retv) > Tol(S.retv, RowErr(NK) + LmiErr(NK) + 2)
              THEN {<<"C01", "returned-bound-is-not-the-certificate-constant", certConst - S.retv>>} ELSE {}
      negDuals == {r \in 1..Len(rows) : Items[rows[r]].sense = "ineq" /\ Dual(rows[r])[1] < -Tol(0, 0)}
      c01d == IF doCert /\ negDuals # {} THEN {<<"C01", "negative-multiplier", Cardinality(negDuals)>>} ELSE {}
      c01e == IF doCert /\ S.resid_mineig < -Tol(0, 0) THEN {<<"C01", "residual-not-psd", S.resid_mineig>>} ELSE {}
      c01f == IF doCert /\ \E r \in 1..Len(lmis) : S.dual_mineig[lmis[r]] < -Tol(0, 0)
              THEN {<<"C01", "lmi-multiplier-not-psd", 0>>} ELSE {}
      c01g == IF solved /\ S.resid_shape # <<np, np>> THEN {<<"C01", "residual-shape", 0>>} ELSE {}
      \* ---------------- C02: the primal instance
      coordsOK == solved /\ Len(S.coords) = np /\ \A i \in 1..np : Len(S.coords[i]) > 0
      dim == IF coordsOK /\ np > 0 THEN Len(S.coords[1]) ELSE 0
      \* (S.toolarge: magnitude sensor of the driver - some sent or held expression evaluates, at the returned instance,
      \*  through partial sums beyond 1500, e.g. a free variable of the model that the solver left at a huge value: the
      \*  instance-side clauses are then not computed, as when a coordinate is out of range - 32-bit integers)
      primRange == solved /\ coordsOK /\ S.toolarge = 0 /\ (\A i \in 1..np : \A c \in 1..dim : InRange(S.coords[i][c]))
                   /\ (\A k \in 1..Len(S.F) : InRange(S.F[k])) /\ (\A k \in 1..Len(S.G) : InRange(S.G[k]))
      ps == PairSeq(np)
      gramOf == [k \in 1..npair |-> DotFix(S.coords[ps[k][1]], S.coords[ps[k][2]])]
      GTol(k) == Tol(S.Gproj[k], 2 * dim + 2)
      badGram == {k \in 1..npair : Abs(gramOf[k] - S.Gproj[k]) > GTol(k)}
      c02a == IF solved /\ ~coordsOK THEN {<<"C02", "leaf-point-without-value", 0>>} ELSE {}
      c02b == IF primRange /\ badGram # {} THEN {<<"C02", "coordinates-do-not-reproduce-gram", Cardinality(badGram)>>} ELSE {}
      \* values from the leaf values: F from fvals (what leaf expressions evaluate to), inner products from coordinates
      leafF == [k \in 1..ne |-> IF k <= Len(S.fvals) /\ Len(S.fvals[k]) = 1 THEN S.fvals[k][1] ELSE 0]
      fvalsOK == solved /\ Len(S.fvals) = ne /\ \A k \in 1..ne : Len(S.fvals[k]) = 1
      EvalVec(v) == SumOver(LAMBDA k : MulRat(leafF[k], v[k][1], v[k][2]), 1, ne)
                    + SumOver(LAMBDA k : MulRat(gramOf[k], v[ne + k][1], v[ne + k][2]), 1, npair)
                    + MulRat(U, v[NK][1], v[NK][2])
      EvalErr(v) == SumOver(LAMBDA k : IF v[k][1] = 0 THEN 0 ELSE QErr(v[k][1], v[k][2]) * (2 * dim + 2), 1, NK) + 2
      EvalMag(v) == SumOver(LAMBDA k : Abs(MulRat(leafF[k], v[k][1], v[k][2])), 1, ne)
                    + SumOver(LAMBDA k : Abs(MulRat(gramOf[k], v[ne + k][1], v[ne + k][2])), 1, npair)
      EvalPt(p, c) == SumOver(LAMBDA i : MulRat(S.coords[i][c], p[i][1], p[i][2]), 1, np)
      PtErr(p) == SumOver(LAMBDA i : IF p[i][1] = 0 THEN 0 ELSE QErr(p[i][1], p[i][2]), 1, np) + 2
      c02c == IF solved /\ ~fvalsOK THEN {<<"C02", "leaf-expression-without-value", 0>>} ELSE {}
      c02d == IF primRange /\ fvalsOK /\ \E k \in 1..ne : Abs(leafF[k] - S.F[k]) > 1
              THEN {<<"C02", "leaf-expression-value-is-not-the-solver-value", 0>>} ELSE {}
      HeldBad(h) ==
         IF h.out # "ok" THEN (IF solved THEN "held-object-has-no-value:" \o h.out ELSE "")
         ELSE IF ~(primRange /\ fvalsOK) THEN ""
         ELSE CASE h.k = "pt" -> LET p == RV(h.p) IN
                     IF Len(h.val) = dim /\ \A c \in 1..dim : Abs(h.val[c] - EvalPt(p, c)) <= Tol(h.val[c], PtErr(p))
                     THEN "" ELSE "derived-point-value"
                [] h.k \in {"ex", "co"} -> LET v == Flatten(DE(h.e[1])) IN
                     IF Len(h.val) = 1 /\ Abs(h.val[1] - EvalVec(v)) <= Tol(EvalMag(v), EvalErr(v))
                     THEN "" ELSE "derived-expression-value"
                [] h.k = "mx" -> IF Len(h.val) = Len(h.e) /\ \A e \in 1..Len(h.e) : LET v == Flatten(DE(h.e[e])) IN
                                       Abs(h.val[e] - EvalVec(v)) <= Tol(EvalMag(v), EvalErr(v))
                                 THEN "" ELSE "derived-matrix-value"
                [] OTHER -> ""
      c02e == {<<"C02", HeldBad(S.held[k]), k>> : k \in {j \in 1..Len(S.held) : HeldBad(S.held[j]) # ""}}
      \* every sent row holds at the values (as evaluated by the library AND as recomputed here)
      RowBad(i) ==
         IF ~(primRange /\ fvalsOK) THEN ""
         ELSE IF Len(S.item_evals[i]) # Len(Items[i].e) THEN "sent-item-has-no-value"
         ELSE IF IsSc(i) THEN
              LET v == vecs[i][1]  mine == EvalVec(v)  t == Tol(EvalMag(v), EvalErr(v)) IN
              IF Abs(S.item_evals[i][1] - mine) > t THEN "constraint-value-differs-from-its-expression"
              ELSE IF Items[i].sense = "ineq" /\ mine > t THEN "inequality-violated-at-the-instance"
              ELSE IF Items[i].sense = "eq" /\ Abs(mine) > t THEN "equality-violated-at-the-instance" ELSE ""
         ELSE IF \E e \in 1..Len(Items[i].e) : LET v == vecs[i][e] IN
                    Abs(S.item_evals[i][e] - EvalVec(v)) > Tol(EvalMag(v), EvalErr(v)) THEN "lmi-value-differs-from-its-entries"
         ELSE IF S.item_mineig[i] < -Tol(0, 0) THEN "lmi-violated-at-the-instance" ELSE ""
      sentSet == {S.sent[k] : k \in 1..Len(S.sent)}
      c02f == IF ~solved THEN {} ELSE {<<"C02", RowBad(i), i>> : i \in {j \in sentSet : RowBad(j) # ""}}
      metricVals == [m \in 1..Len(S.metrics) |-> EvalVec(metricVec(m))]
      minMetric == LET RECURSIVE Mn(_, _)  Mn(k, b) == IF k > Len(metricVals) THEN b ELSE Mn(k + 1, IF metricVals[k] < b THEN metricVals[k] ELSE b)
                   IN Mn(2, metricVals[1])
      tauVal == IF S.tau \in 1..Len(S.F) THEN S.F[S.tau] ELSE 0
      mTol == Tol(tauVal, 50)
      c02g == IF primRange /\ fvalsOK /\ Len(S.metrics) > 0 /\ Abs(tauVal - minMetric) > mTol + MaxOver(LAMBDA m : EvalErr(metricVec(m)), 1, Len(S.metrics))
              THEN {<<"C02", "objective-is-not-the-smallest-metric", tauVal - minMetric>>} ELSE {}
      c02h == IF primRange /\ doCert /\ tauVal > certConst + Tol(tauVal, RowErr(NK) + LmiErr(NK) + 2)
              THEN {<<"C02", "primal-exceeds-dual", tauVal - certConst>>} ELSE {}
      c02j == {<<"C02", "object-built-after-a-new-leaf-point:" \o S.postleaf[k].out, k>> :
                  k \in {j \in 1..Len(S.postleaf) : S.postleaf[j].out # "ok"}}
      c02i == IF solved /\ S.Gasym > 1 THEN {<<"C02", "gram-not-symmetric", S.Gasym>>} ELSE {}
      \* ---------------- C14: dimension reduction keeps the guarantee
      ph == S.phases
      idxOf(name) == {k \in 1..Len(ph) : ph[k].ev = name}
      firstSolve == IF idxOf("solve") = {} THEN 0 ELSE CHOOSE k \in idxOf("solve") : \A j \in idxOf("solve") : k <= j
      lastSolve == IF idxOf("solve") = {} THEN 0 ELSE CHOOSE k \in idxOf("solve") : \A j \in idxOf("solve") : k >= j
      c14a == IF ~solved \/ ~heur THEN {}
              ELSE IF Cardinality(idxOf("assign_duals")) # 1 THEN {<<"C14", "multipliers-assigned-more-than-once", Cardinality(idxOf("assign_duals"))>>}
              ELSE IF \E a \in idxOf("assign_duals") : \E s \in idxOf("solve") : s # firstSolve /\ s < a
                   THEN {<<"C14", "multipliers-taken-after-the-heuristic", 0>>} ELSE {}
      c14b == IF solved /\ heur /\ S.opts.mode = "primal" /\ firstSolve # 0
                 /\ S.retv < ph[firstSolve].value - S.opts.tol - Tol(S.retv, 5)
              THEN {<<"C14", "primal-value-left-the-tolerance", S.retv - ph[firstSolve].value>>} ELSE {}
      c14c == IF solved /\ heur /\ firstSolve # 0 /\ doCert /\ S.opts.mode = "dual"
                 /\ Abs(S.retv - ph[firstSolve].value) > Tol(S.retv, 50) + 100
              THEN {<<"C14", "dual-bound-moved", S.retv - ph[firstSolve].value>>} ELSE {}
      c14d == IF solved /\ S.opts.heur = "trace" /\ firstSolve # 0 /\ lastSolve # firstSolve
                 /\ ph[lastSolve].trace > ph[firstSolve].trace + Tol(ph[firstSolve].trace, 10)
              THEN {<<"C14", "trace-increased", ph[lastSolve].trace - ph[firstSolve].trace>>} ELSE {}
      c14e == IF solved /\ heur /\ lastSolve # 0 /\ primRange
                 /\ \E k \in 1..Len(S.G) : Abs(S.G[k] - ph[lastSolve].G[k]) > 1
              THEN {<<"C14", "returned-instance-is-not-the-last-solution", 0>>} ELSE {}
      \* the objective of the last internal cvxpy problem is <W, G> with W the LAST weight handed to heuristic()
      hEv == SelectSeq(S.phases, LAMBDA e : e.ev = "heuristic")
      pairsNP == PairSeq(np)
      c14f == IF solved /\ heur /\ Len(S.heurobj) = npair /\ Len(hEv) > 0 /\ hEv[Len(hEv)].n = np /\
                 (LET W == hEv[Len(hEv)] IN \E k \in 1..npair :
                     LET i == pairsNP[k][1] - 1  j == pairsNP[k][2] - 1
                         w == IF i = j THEN W.W[i * W.n + j + 1] ELSE W.W[i * W.n + j + 1] + W.W[j * W.n + i + 1]
                     IN Abs(S.heurobj[k] - w) > Tol(w, 2) + 2)
              THEN {<<"C14", "heuristic-objective-is-not-the-last-weight", 0>>} ELSE {}
      \* ---------------- C13: solving again
      sameModel == hasPrev /\ S.edit = "none"
      \* every solve creates one fresh objective leaf (pep.py:404): compare the sent rows without the metric rows and
      \* without the coordinates of the objective leaves
      Strip(v, nE) == LET keep == SelectSeq([k \in 1..Len(v) |-> k], LAMBDA k : ~(k <= nE /\ k \in TauSet))
                      IN [j \in 1..Len(keep) |-> v[keep[j]]]
      NormSent(X) == LET dI == {X.decl.pep_cons[k] : k \in 1..Len(X.decl.pep_cons)}
                         fl(i) == [e \in 1..Len(X.items[i].e) |-> Strip(Flatten(DE(X.items[i].e[e])), X.ne)]
                         real == SelectSeq(X.sent, LAMBDA i : X.items[i].origin # "solve-time")
                     IN {<<X.items[real[k]].k, X.items[real[k]].sense, fl(real[k]),
                           Cardinality({j \in 1..Len(real) : X.items[real[j]].k = X.items[real[k]].k
                                           /\ X.items[real[j]].sense = X.items[real[k]].sense /\ fl(real[j]) = fl(real[k])})>>
                         : k \in 1..Len(real)}
      nClassLmis(X) == SumOver(LAMBDA k : Len(X.decl.funs[k].clmis), 1, Len(X.decl.funs))
      nPartRows(X) == SumOver(LAMBDA k : Len(X.decl.parts[k]), 1, Len(X.decl.parts))
      c13a == IF ~(sameModel /\ prev.ret = "num" /\ solved /\ prev.np = np) THEN {}
              ELSE IF nClassLmis(prev) # nClassLmis(S) THEN {<<"C13", "class-lmis-accumulate-over-solves", nClassLmis(S) - nClassLmis(prev)>>}
              ELSE IF nPartRows(prev) # nPartRows(S) THEN {<<"C13", "partition-constraints-accumulate-over-solves", nPartRows(S) - nPartRows(prev)>>}
              ELSE IF NormSent(prev) # NormSent(S) THEN {<<"C13", "data-sent-changed-between-solves-of-an-unedited-model", Len(S.sent) - Len(prev.sent)>>}
              ELSE {}
      c13b == IF sameModel /\ prev.np # np THEN {<<"C13", "resolve-created-new-leaf-points", np - prev.np>>} ELSE {}
      c13c == IF sameModel /\ prev.ret = "num" /\ solved /\ prev.opts.heur = "none" /\ S.opts.heur = "none"
                 /\ Abs(prev.retv - S.retv) > Tol(S.retv, 100) + 100
              THEN {<<"C13", "value-changed-on-resolve", S.retv - prev.retv>>} ELSE {}
      \* "behaves like solving a newly built equivalent model": S is that newly built model, prev the re-solved one
      c13e == IF ~(hasPrev /\ S.edit = "fresh-twin") THEN {}
              ELSE IF (prev.ret = "num") # solved THEN {<<"C13", "resolve-and-fresh-model-disagree-on-having-a-value", 0>>}
              ELSE IF solved /\ Abs(prev.retv - S.retv) > Tol(S.retv, 100) + 100
                   THEN {<<"C13", "resolve-differs-from-a-newly-built-equivalent-model", prev.retv - S.retv>>} ELSE {}
      PartSet(X) == {<<X.items[X.sent[k]].sense, DE(X.items[X.sent[k]].e[1]).G>> :
                        k \in {j \in 1..Len(X.sent) : X.items[X.sent[j]].origin = "part"}}
      \* (compared by the number of DISTINCT rows: classes that create a stationary point at solve time number their
      \*  leaf points differently in the two models, and the accumulation of duplicates over solves is finding F4)
      c13f == IF hasPrev /\ S.edit = "fresh-twin" /\ prev.np = np /\ Cardinality(PartSet(prev)) # Cardinality(PartSet(S))
              THEN {<<"C13", "resolve-sends-other-partition-constraints-than-a-newly-built-equivalent-model",
                      Cardinality(PartSet(S)) - Cardinality(PartSet(prev))>>} ELSE {}
      c13d == IF hasPrev /\ S.edit # "fresh-twin" /\ ~solved /\ \E k \in 1..Len(S.held) : S.held[k].out = "ok"
              THEN {<<"C13", "stale-value-after-unsuccessful-solve", 0>>} ELSE {}
      \* ---------------- C11: the MOSEK task recorded from the real MosekWrapper (stand-in mosek module)
      evs == S.task
      hasTask == Len(evs) > 0
      tk == TaskAtFirstSolve(evs)
      tkAll == Fold(evs)
      c11a == IF ~hasTask THEN {} ELSE {<<"C11", "task-call-ill-formed: " \o b[2], b[1]>> : b \in tkAll.bad}
      c11b == IF hasTask /\ ~(Len(tk.bardims) >= 1 /\ tk.bardims[1] = np /\ tk.nvar = ne + 1 /\ tk.vfree = 0..(ne - 1))
              THEN {<<"C11", "task-variables", tk.nvar>>} ELSE {}
      wellFormed == hasTask /\ tkAll.bad = {} /\ Len(tk.bardims) >= 1 /\ tk.bardims[1] = np /\ tk.nvar = ne + 1
      NVt == NVars(tk)
      ExpRow(v, bar, n, a, b) ==      \* expected task row for an expression vector v, coupled (if bar > 0) to bar variable `bar` at (a, b)
         [k \in 1..NVt |-> IF k <= ne THEN v[k]
                           ELSE IF k = ne + 1 THEN Z
                           ELSE IF k <= ne + 1 + npair THEN v[k - 1]
                           ELSE IF bar > 0 /\ k = BarOff(tk, bar) + PairIdx(n, a, b) THEN MOne ELSE Z]
      BoundIs(row, bk, q) == LET cb == tk.cb[row + 1] IN
                                cb.bk = bk /\ Len(cb.n) = 2 /\ (bk = "up" \/ <<cb.n[1], cb.d[1]>> = q) /\ <<cb.n[2], cb.d[2]>> = q
      RECURSIVE WalkM(_, _, _)
      WalkM(k, row, m) ==
         IF k > Len(S.sent) THEN [ok |-> TRUE, row |-> row, at |-> 0, rows |-> <<>>, bars |-> <<>>]
         ELSE LET i == S.sent[k] IN
              IF IsSc(i)
              THEN IF row < tk.ncon /\ RowExact(tk, row) /\ RowVec(tk, row) = ExpRow(vecs[i][1], 0, 0, 0, 0)
                      /\ BoundIs(row, IF Items[i].sense = "ineq" THEN "up" ELSE "fx", RNeg(vecs[i][1][NK]))
                   THEN LET w == WalkM(k + 1, row + 1, m) IN [w EXCEPT !.rows = <<row>> \o @, !.bars = <<0>> \o @]
                   ELSE [ok |-> FALSE, row |-> row, at |-> k, rows |-> <<>>, bars |-> <<>>]
              ELSE LET n == Items[i].n  bar == m + 1 IN
                   IF /\ row + n * n <= tk.ncon /\ bar < Len(tk.bardims) /\ tk.bardims[bar + 1] = n
                      /\ \A a, b \in 1..n : LET r == row + (a - 1) * n + (b - 1) IN
                            /\ RowExact(tk, r) /\ RowVec(tk, r) = ExpRow(vecs[i][(a - 1) * n + b], bar, n, a, b)
                            /\ BoundIs(r, "fx", RNeg(vecs[i][(a - 1) * n + b][NK]))
                   THEN LET w == WalkM(k + 1, row + n * n, m + 1) IN [w EXCEPT !.rows = <<row>> \o @, !.bars = <<bar>> \o @]
                   ELSE [ok |-> FALSE, row |-> row, at |-> k, rows |-> <<>>, bars |-> <<>>]
      wm == WalkM(1, 0, 0)
      c11c == IF ~wellFormed THEN {} ELSE IF ~wm.ok THEN {<<"C11", "task-row-does-not-denote-sent-item", wm.at>>}
              ELSE IF wm.row # tk.ncon THEN {<<"C11", "task-has-extra-rows", tk.ncon - wm.row>>} ELSE {}
      objOK == /\ tk.sense = "maximize" /\ tk.barc = {}
               /\ \A x \in tk.c : (x[1] = S.tau - 1 /\ x[2] = One) \/ (x[1] # S.tau - 1 /\ x[2] = Z)
               /\ \E x \in tk.c : x[1] = S.tau - 1
      c11d == IF wellFormed /\ ~objOK THEN {<<"C11", "task-objective-is-not-tau", 0>>} ELSE {}
      PackIdx(n, r, c) == LET hi == IF r >= c THEN r ELSE c  lo == IF r >= c THEN c ELSE r IN      \* 0-based (r, c) -> 1-based index
                          lo * n - (lo * (lo - 1)) \div 2 + (hi - lo) + 1
      BarS(b) == LET X == {x \in tkAll.bars : x.bar = b} IN IF X = {} THEN <<>> ELSE (CHOOSE x \in X : TRUE).v
      dualsFromTask == wellFormed /\ wm.ok /\ solved /\ haveDuals /\ Len(tkAll.gety) = tk.ncon
      badDual == {k \in 1..Len(S.sent) :
                    LET i == S.sent[k] IN
                    IF IsSc(i) THEN Abs(Dual(i)[1] - tkAll.gety[wm.rows[k] + 1]) > 1
                    ELSE LET n == Items[i].n  bs == BarS(wm.bars[k]) IN
                         Len(bs) # NPairs(n) \/ \E a, b \in 1..n : Abs(Dual(i)[(a - 1) * n + b] + bs[PackIdx(n, a - 1, b - 1)]) > 1}
      c11e == IF dualsFromTask /\ badDual # {} THEN {<<"C11", "multiplier-read-from-another-row-or-with-another-sign", CHOOSE k \in badDual : TRUE>>} ELSE {}
      c11f == IF dualsFromTask /\ (Len(BarS(0)) # npair \/ \E k \in 1..npair : LET pr == ps[k] IN
                    Abs(S.resid[k] + (IF pr[1] = pr[2] THEN 1 ELSE 2) * BarS(0)[PackIdx(np, pr[1] - 1, pr[2] - 1)]) > 2)
              THEN {<<"C11", "residual-is-not-minus-barsj0", 0>>} ELSE {}
      \* both accessors of the multipliers agree: the wrapper's get_dual_variables() and the objects' eval_dual()
      c11y == IF solved /\ S.wdual > 2 THEN {<<"C11", "wrapper-multipliers-differ-from-the-multipliers-of-the-objects", S.wdual>>} ELSE {}
      c11g == IF wellFormed /\ solved /\ S.opts.mode = "primal" /\ (S.tau > Len(tkAll.xx) \/ Abs(S.retv - tkAll.xx[S.tau]) > 1)
              THEN {<<"C11", "returned-value-is-not-tau", 0>>} ELSE {}
      \* the heuristic objective: the k-th putbarcj puts <W_k, G> on matrix variable 0, W_k the k-th weight handed to
      \* heuristic() - as a lower-triangular sparse symmetric matrix whose entries ARE the entries of W (MOSEK counts an
      \* off-diagonal entry of the lower triangle for both sides)
      heurEvs == SelectSeq(S.phases, LAMBDA e : e.ev = "heuristic")
      WEntry(h, i, j) == h.W[i * h.n + j + 1]                           \* 0-based (i, j), row-major
      HeurBad(k) == LET bc == tkAll.barclog[k]  h == heurEvs[k] IN
                    \/ bc.bar # 0 \/ Len(bc.mats) # 1
                    \/ LET m == tkAll.mats[bc.mats[1] + 1] IN
                       \/ m.dim # h.n
                       \/ \E q \in 1..Len(m.i) : Abs(m.x[q] - WEntry(h, m.i[q], m.j[q])) > 1
                       \/ \E i \in 0..(h.n - 1) : \E j \in 0..i : Abs(WEntry(h, i, j)) > 1 /\ ~\E q \in 1..Len(m.i) : m.i[q] = i /\ m.j[q] = j
      c11h == IF ~(hasTask /\ tkAll.bad = {}) THEN {}
              ELSE IF Len(tkAll.barclog) # Len(heurEvs) THEN {<<"C11", "heuristic-objective-not-set-once-per-heuristic-call", Len(tkAll.barclog)>>}
              ELSE {<<"C11", "heuristic-objective-is-not-the-weight-matrix", k>> : k \in {q \in 1..Len(heurEvs) : HeurBad(q)}}
      \* cross back-end: this solve is the twin (same program, other back-end) of the previous one
      twin == hasPrev /\ S.edit = "twin"
      c11x == IF ~twin THEN {}
              ELSE IF (prev.ret = "num") # solved THEN {<<"C11", "one-back-end-finds-a-value-the-other-does-not", 0>>}
              ELSE IF solved /\ Abs(prev.retv - S.retv) > Tol(S.retv, 100) + 70 THEN {<<"C11", "back-ends-disagree-on-the-value", S.retv - prev.retv>>}
              ELSE IF prev.np = np /\ NormSent(prev) # NormSent(S) THEN {<<"C11", "back-ends-were-sent-different-constraint-lists", 0>>} ELSE {}
      cXa == IF S.crash # "" THEN {<<"ALL", "solve-raises: " \o S.crash, 0>>} ELSE {}
      info == IF doCert THEN {<<"INFO", "max-identity-error", maxKeyErr>>} ELSE {}
  IN info \cup cXa \cup c05a \cup c05b \cup c05c \cup c05d \cup c05e \cup c05f \cup c05g \cup c01h
     \cup c01a \cup c01b \cup c01c \cup c01d \cup c01e \cup c01f \cup c01g
     \cup c02a \cup c02b \cup c02c \cup c02d \cup c02e \cup c02f \cup c02g \cup c02h \cup c02i \cup c02j
     \cup c14a \cup c14b \cup c14c \cup c14d \cup c14e \cup c14f
     \cup c13a \cup c13b \cup c13c \cup c13d \cup c13e \cup c13f
     \cup c11a \cup c11b \cup c11c \cup c11d \cup c11e \cup c11f \cup c11g \cup c11h \cup c11x \cup c11y
Tag(step, cl) == {<<step, c[1], c[2], c[3]>> : c \in cl}
TInit == /\ tid \in 1..Len(Traces)
         /\ l = 1
         /\ bad = {}
         /\ stats = <<>>
Step == /\ l <= Len(T.solves)
        /\ bad' = bad \cup Tag(l, Clauses(T.solves[l], T.solves[IF l = 1 THEN 1 ELSE l - 1], l > 1,
                                            {T.solves[k].tau : k \in 1..Len(T.solves)}))
        /\ l' = l + 1
        /\ UNCHANGED <<tid, stats>>
Report == l = Len(T.solves) + 1 => PrintT(ToJson(<<"V", tid, bad>>))
=============================================================================
