--------------------------- MODULE OracleAlgTrace ---------------------------
(* Trace validation for OracleAlg.tla: function-building steps are checked by MEANING (the new function's weights as a   *)
(* map leaf -> coefficient, its differentiability flag), query steps exactly as in OracleTrace.tla.                       *)
EXTENDS OracleAlg, IOUtils
Traces == ndJsonDeserialize(IOEnv.TRACE_FILE)
VARIABLES tid, l, obs, bad
T == Traces[tid]
Sparse(s, n) == [k \in 1..n |-> LET S == {i \in 1..Len(s) : s[i][1] = k} IN
                                IF S = {} THEN Z ELSE LET i == CHOOSE i \in S : TRUE IN <<s[i][2], s[i][3]>>]
DecFn(j) == [leaf |-> j.leaf = 1, diff |-> j.diff = 1,
             w |-> [k \in 1..Len(j.w) |-> <<j.w[k][1], <<j.w[k][2], j.w[k][3]>>>>],
             pts |-> [k \in 1..Len(j.pts) |-> [x |-> Sparse(j.pts[k].x, MaxP), g |-> Sparse(j.pts[k].g, MaxP),
                                               f |-> Sparse(j.pts[k].f, MaxE)]],
             stat |-> j.stat]
\* observed tables after a step: the step lists the functions whose table changed (and new functions, with fid = Len + 1)
ApplyChg(funs, chg, n) == [fid \in 1..n |->
     LET S == {i \in 1..Len(chg) : chg[i].fid = fid} IN
     IF S = {} THEN funs[fid] ELSE DecFn(chg[CHOOSE i \in S : TRUE].fn)]
Obs0(t) == [np |-> t.np0, ne |-> t.ne0, funs |-> [k \in 1..Len(t.funs0) |-> DecFn(t.funs0[k])]]
WMap(w) == [k \in 1..3 |-> LET I == {i \in 1..Len(w) : w[i][1] = k} IN
                           IF I = {} THEN Z ELSE LET RECURSIVE S(_) S(J) == IF J = {} THEN Z ELSE LET i == CHOOSE i \in J : TRUE IN RAdd(w[i][2], S(J \ {i})) IN S(I)]
PropClauses(step, funs) ==
     {<<step, "I1", fid>> : fid \in {f \in 1..Len(funs) : ~I1(<<funs[f]>>)}}
\cup {<<step, "I2", fid>> : fid \in {f \in 1..Len(funs) : ~I2(<<funs[f]>>)}}
\cup {<<step, "I3", fid>> : fid \in {f \in 1..Len(funs) : ~funs[f].leaf /\ ~ZeroFun(funs, f) /\
                                                        \E s \in 1..Len(funs[f].pts) : ~I3At(funs, f, s)}}
\cup {<<step, "I4", fid>> : fid \in {f \in 1..Len(funs) : ~I4(<<funs[f]>>)}}
\cup {<<step, "I6-differentiable-sum-of-a-non-differentiable-term", fid>> : fid \in {f \in 1..Len(funs) :
          ~funs[f].leaf /\ funs[f].diff /\ \E k \in 1..Len(NonZero(funs[f].w)) : ~funs[NonZero(funs[f].w)[k][1]].diff}}
TInit == /\ tid \in 1..Len(Traces) /\ l = 1 /\ obs = Obs0(Traces[tid]) /\ bad = PropClauses(0, Obs0(Traces[tid]).funs)
         /\ W = [np |-> 0, ne |-> 0, funs |-> <<>>] /\ hist = <<>>
Step == /\ l <= Len(T.steps)
        /\ LET s == T.steps[l]  c == T.h[l]
               n == IF IsBuild(c) /\ s.exc = "" THEN Len(obs.funs) + 1 ELSE Len(obs.funs)
               ext == IF n > Len(obs.funs) THEN Append(obs.funs, Fn(FALSE, FALSE, <<>>)) ELSE obs.funs
               now == [np |-> s.np, ne |-> s.ne, funs |-> ApplyChg(ext, s.chg, n)]
               raised == s.exc # ""
               model == IF raised THEN obs ELSE StepOn(obs, c)
               \* a built function MEANS the combination of its operands: same weight on every leaf, flag = conjunction
               build == IF ~IsBuild(c) \/ raised THEN {} ELSE
                        LET got == now.funs[n]  want == model.funs[n] IN
                        (IF WMap(got.w) = WMap(want.w) THEN {} ELSE {<<l, "function-algebra-weights", n>>})
                        \cup (IF got.diff = want.diff THEN {} ELSE {<<l, "function-algebra-differentiability-flag", n>>})
                        \cup (IF got.leaf THEN {<<l, "function-algebra-result-is-a-leaf", n>>} ELSE {})
                        \cup (IF \A f \in 1..Len(obs.funs) : now.funs[f] = obs.funs[f] THEN {} ELSE {<<l, "function-algebra-operand-mutated", n>>})
               drift == IF raised \/ model = now THEN {} ELSE {<<l, "drift", c.f>>}
               exc == IF raised THEN {<<l, "raises", c.f>>} ELSE {}
           IN /\ obs' = now
              /\ bad' = bad \cup PropClauses(l, now.funs) \cup exc \cup drift \cup build
        /\ l' = l + 1
        /\ UNCHANGED <<tid, W, hist>>
Report == l = Len(T.steps) + 1 => PrintT(ToJson(<<"V", tid, bad>>))
=============================================================================
