--------------------------- MODULE RegistryTrace ---------------------------
(* C12 trace validation: model B run after history H in one process vs B alone in a fresh interpreter.           *)
EXTENDS Registry, IOUtils
Traces == ndJsonDeserialize(IOEnv.TRACE_FILE)
VARIABLES tid, bad
T == Traces[tid]
Clauses(t) ==
     {<<"registry-not-reset", t.snap[k][1]>> : k \in {j \in 1..Len(t.snap) : j > Len(t.ref_snap) \/ t.snap[j] # t.ref_snap[j]}}
\cup (IF Len(t.snap) = Len(t.ref_snap) THEN {} ELSE {<<"registry-set-differs", "count">>})
\cup (IF t.hash = t.ref_hash THEN {} ELSE {<<"solver-input-differs", "conic-data">>})
\cup (IF t.rows = t.ref_rows THEN {} ELSE {<<"solver-input-differs", "sent-rows">>})
\cup (IF t.val = t.ref_val THEN {} ELSE {<<"result-differs", "value">>})
\cup (IF t.out = t.ref_out THEN {} ELSE {<<"result-differs", "outcome">>})
\* "... and whatever the verbosity": the fresh-interpreter run at the other verbosity level hands the solver the same data
\cup (IF t.ref_hash = t.oth_hash /\ t.ref_rows = t.oth_rows THEN {} ELSE {<<"solver-input-depends-on-verbosity", "conic-data">>})
\cup (IF t.ref_val = t.oth_val THEN {} ELSE {<<"result-depends-on-verbosity", "value">>})
\cup (IF t.ref_out = t.oth_out THEN {} ELSE {<<"result-depends-on-verbosity", "outcome">>})
\* the primal instance kept by the problem object (Gram matrix and function values, exact bits)
\cup (IF t.inst = t.ref_inst THEN {} ELSE {<<"result-differs", "primal-instance">>})
\cup (IF t.ref_inst = t.oth_inst THEN {} ELSE {<<"result-depends-on-verbosity", "primal-instance">>})
TInit == tid \in 1..Len(Traces) /\ bad = Clauses(Traces[tid]) /\ reg = Zero /\ hist = <<>> /\ justReset = FALSE /\ model = 0
TNext == UNCHANGED <<tid, bad, reg, hist, justReset, model>>
Report == PrintT(ToJson(<<"V", tid, bad>>))
=============================================================================
