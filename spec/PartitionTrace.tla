--------------------------- MODULE PartitionTrace ---------------------------
(* C15 trace validation on the OBSERVED blocks and the OBSERVED partition constraints of the real BlockPartition. *)
EXTENDS Partition, IOUtils
Traces == ndJsonDeserialize(IOEnv.TRACE_FILE)
VARIABLES tid, bad, phz
T == Traces[tid]
Sparse(s, n) == [k \in 1..n |-> LET S == {i \in 1..Len(s) : s[i][1] = k} IN
                                IF S = {} THEN Z ELSE LET i == CHOOSE i \in S : TRUE IN <<s[i][2], s[i][3]>>]
SparseE(j) == [F |-> <<>>, G |-> Sparse(j.G, NPairs(MaxP)), c |-> <<j.c[1], j.c[2]>>]
Clauses(t) ==
  LET dd == t.d
      B == [p \in 1..NB |-> [k \in 1..Len(t.blocks[p]) |-> Sparse(t.blocks[p][k], MaxP)]]
      BV == [p \in 1..NB |-> IF p <= Len(Base) THEN Base[p] ELSE Sparse(t.base[p], MaxP)]      \* 5: what the first call returned
      baseOK == \A p \in 1..Len(Base) : Sparse(t.base[p], MaxP) = Base[p]
      obsC == {NormForm(SparseE(t.cons[k].e), t.cons[k].sense) : k \in 1..Len(t.cons)} \ {<<"trivial">>}
      expC == OrthoSet(B, dd)
      c0 == IF baseOK THEN {} ELSE {<<"driver-base-objects", 0>>}
      c1 == IF \A p \in Decomposed(B) : Len(B[p]) = dd THEN {} ELSE {<<"number-of-blocks", 0>>}
      c2 == IF SumsBack(B, BV) THEN {} ELSE {<<"blocks-do-not-sum-to-the-point", 0>>}
      c3 == IF OneBlockIdentity(B, dd, BV) THEN {} ELSE {<<"one-block-partition-is-not-the-identity", 0>>}
      \* what get_block returned is the stored block, and the same object on every repetition
      c4 == {<<"returned-block-is-not-block-k", i>> : i \in {j \in 1..Len(t.h) : t.h[j].p # 0 /\ (
                 t.out[j] # "ok" \/ Len(B[t.h[j].p]) < t.h[j].k \/ Sparse(t.ret[j], MaxP) # B[t.h[j].p][t.h[j].k])}}
      c5 == {<<"asking-again-returns-another-object", i>> : i \in {j \in 1..Len(t.h) :
                 t.h[j].p # 0 /\ \E q \in 1..Len(t.h) : q < j /\ t.h[q] = t.h[j] /\ t.oid[q] # t.oid[j]}}
      c6 == (IF expC \subseteq obsC THEN {} ELSE {<<"orthogonality-relation-missing", Cardinality(expC \ obsC)>>})
            \cup (IF obsC \subseteq expC THEN {} ELSE {<<"constraint-beyond-orthogonality", Cardinality(obsC \ expC)>>})
      c7 == IF \A k \in 1..Len(t.cons) : t.cons[k].sense = "eq" THEN {} ELSE {<<"orthogonality-is-not-an-equality", 0>>}
      \* the fresh leaves of different decomposed points are different leaves (else real projections cannot fit)
      leafOf(p, k) == {i \in 1..MaxP : B[p][k] = UnitV(MaxP, i)}
      c8 == IF \A p, q \in Decomposed(B) : \A k, l \in 1..(dd - 1) : (p # q \/ k # l) => leafOf(p, k) \cap leafOf(q, l) = {}
            THEN {} ELSE {<<"block-leaf-shared-between-decompositions", 0>>}
      \* real side: every coordinate partition of Z^3 into dd blocks, base leaves on a grid, fresh leaves := real projections
      realBad == {<<f, v, w>> \in CoordPartitions(dd) \X Grid \X Grid :
                    LET baseVal4(p) == LET b == Base[p] IN [c \in 1..Dim |-> RAdd(RMul(b[1], v[c]), RMul(b[2], w[c]))]
                        \* the block returned by the first call is the real projection of the point it was asked for
                        baseVal(p) == IF p <= Len(Base) THEN baseVal4(p) ELSE Proj(f, t.h[1].k, baseVal4(t.h[1].p))
                        env == [i \in 1..MaxP |->
                                  IF i = 1 THEN v ELSE IF i = 2 THEN w ELSE
                                  LET S == {<<p, k>> \in Decomposed(B) \X (1..(dd - 1)) : i \in leafOf(p, k)} IN
                                  IF S = {} THEN [c \in 1..Dim |-> Z] ELSE LET s == CHOOSE s \in S : TRUE IN Proj(f, s[2], baseVal(s[1]))]
                        ps == PairSeq(MaxP)
                        RECURSIVE SpEval(_, _)
                        SpEval(g, i) == IF i > Len(g) THEN Z ELSE
                            RAdd(RMul(<<g[i][2], g[i][3]>>, VDot(env[ps[g[i][1]][1]], env[ps[g[i][1]][2]])), SpEval(g, i + 1))
                    IN \E k \in 1..Len(t.cons) : RAdd(SpEval(t.cons[k].e.G, 1), <<t.cons[k].e.c[1], t.cons[k].e.c[2]>>) # Z}
      c9 == IF c8 = {} /\ c1 = {} /\ realBad # {} THEN {<<"real-coordinate-projections-violate-the-model", Cardinality(realBad)>>} ELSE {}
  IN IF t.over = 1
     THEN {<<"more-leaf-points-than-d-1-per-decomposed-point", t.np>>}      \* (nothing else can be projected)
     ELSE c0 \cup c1 \cup c2 \cup c3 \cup c4 \cup c5 \cup c6 \cup c7 \cup c8 \cup c9
\* the clauses are computed in a step (not in the initial predicate) so that TLC's workers share the traces
TInit == tid \in 1..Len(Traces) /\ bad = {} /\ phz = 0 /\ d = 1 /\ np = 2 /\ blocks = <<>> /\ hist = <<>> /\ rets = <<>> /\ ctor = 1
TNext == phz = 0 /\ bad' = Clauses(Traces[tid]) /\ phz' = 1 /\ UNCHANGED <<tid, d, np, blocks, hist, rets, ctor>>
Report == phz = 1 => PrintT(ToJson(<<"V", tid, bad>>))
=============================================================================
