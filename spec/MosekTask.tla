----------------------------- MODULE MosekTask -----------------------------
(* C11.  The MOSEK optimisation task as a state machine over the calls PEPit's MosekWrapper makes              *)
(* (PEPit/wrappers/mosek_wrapper.py): appendbarvars, appendvars, putvarbound, appendcons, appendsparsesymmat,   *)
(* putbaraij, putaijlist, putconbound, putclist, putbarcj, putobjsense, optimize, getxx, getbarxj, gety,        *)
(* getbarsj.  Each call has MOSEK's documented pre-conditions (indices must exist at the time of the call,      *)
(* symmetric matrices are given by their lower triangle, dimensions must agree); Fold replays a recorded call   *)
(* sequence and collects the violated pre-conditions.  RowVec gives the denotation of a constraint row as an    *)
(* affine form over [scalar variables | pairs of bar variable 0 | pairs of bar variable 1 | ...].               *)
(* The calls are recorded from the REAL MosekWrapper running against a stand-in `mosek` module                  *)
(* (harness/fake/mosek); MOSEK itself is not available in this sandbox.                                          *)
EXTENDS LinForm
\* an event: [op, k, i, j, n, d, s, x]  (uniform shape; unused fields are empty / 0)
EmptyTask == [bardims |-> <<>>, nvar |-> 0, vfree |-> {}, ncon |-> 0, mats |-> <<>>, bara |-> {}, a |-> {},
              cb |-> <<>>, c |-> {}, barc |-> {}, sense |-> "minimize", optimized |-> 0,
              gety |-> <<>>, bars |-> {}, barx |-> {}, xx |-> <<>>, bad |-> {}, barclog |-> <<>>]
Vals(e) == [k \in 1..Len(e.n) |-> <<e.n[k], e.d[k]>>]
Bad(t, idx, what) == [t EXCEPT !.bad = @ \cup {<<idx, what>>}]
ApplyCall(t, e, idx) ==
  CASE e.op = "appendbarvars" -> [t EXCEPT !.bardims = @ \o e.i]
    [] e.op = "appendvars" -> [t EXCEPT !.nvar = @ + e.i[1]]
    [] e.op = "putvarbound" ->
         IF e.i[1] \in 0..(t.nvar - 1) THEN (IF e.s = "fr" THEN [t EXCEPT !.vfree = @ \cup {e.i[1]}] ELSE [t EXCEPT !.vfree = @ \ {e.i[1]}])
         ELSE Bad(t, idx, "putvarbound: variable index out of range")
    [] e.op = "appendcons" -> [t EXCEPT !.ncon = @ + e.i[1], !.cb = @ \o [q \in 1..e.i[1] |-> [bk |-> "fr", n |-> <<>>, d |-> <<>>, x |-> <<0, 0>>]]]
    [] e.op = "appendsparsesymmat" ->
         LET ok == /\ Len(e.i) = Len(e.j)
                   /\ \A q \in 1..Len(e.i) : 0 <= e.j[q] /\ e.j[q] <= e.i[q] /\ e.i[q] < e.k          \* lower triangle only
                   /\ \A q, r \in 1..Len(e.i) : q # r => <<e.i[q], e.j[q]>> # <<e.i[r], e.j[r]>>
             m == [dim |-> e.k, i |-> e.i, j |-> e.j, v |-> IF e.s = "inexact" THEN <<>> ELSE Vals(e), exact |-> e.s # "inexact",
                   x |-> e.x]                                   \* the same values in fixed point (always present)
         IN IF ok THEN [t EXCEPT !.mats = Append(@, m)]
            ELSE Bad([t EXCEPT !.mats = Append(@, m)], idx, "appendsparsesymmat: not a lower-triangular sparse matrix")
    [] e.op = "putbaraij" ->
         LET row == e.k  bj == e.i[1]
             ok == /\ row \in 0..(t.ncon - 1) /\ bj \in 0..(Len(t.bardims) - 1)
                   /\ \A q \in 1..Len(e.j) : e.j[q] \in 0..(Len(t.mats) - 1) /\ t.mats[e.j[q] + 1].dim = t.bardims[bj + 1]
         IN IF ok THEN [t EXCEPT !.bara = {b \in @ : ~(b.row = row /\ b.bar = bj)} \cup {[row |-> row, bar |-> bj, mats |-> e.j, w |-> Vals(e)]}]
            ELSE Bad(t, idx, IF bj \notin 0..(Len(t.bardims) - 1) THEN "putbaraij: matrix variable does not exist"
                             ELSE IF row \notin 0..(t.ncon - 1) THEN "putbaraij: constraint does not exist"
                             ELSE "putbaraij: dimension of the coefficient matrix differs from the matrix variable")
    [] e.op = "putaijlist" ->
         LET ok == /\ Len(e.i) = Len(e.j) /\ Len(e.i) = Len(e.n)
                   /\ \A q \in 1..Len(e.i) : e.i[q] \in 0..(t.ncon - 1) /\ e.j[q] \in 0..(t.nvar - 1)
         IN IF ok THEN [t EXCEPT !.a = {x \in @ : ~(\E q \in 1..Len(e.i) : x[1] = e.i[q] /\ x[2] = e.j[q])}
                                        \cup {<<e.i[q], e.j[q], Vals(e)[q]>> : q \in 1..Len(e.i)}]
            ELSE Bad(t, idx, "putaijlist: index out of range")
    [] e.op = "putconbound" ->
         IF e.k \in 0..(t.ncon - 1) THEN [t EXCEPT !.cb[e.k + 1] = [bk |-> e.s, n |-> e.n, d |-> e.d, x |-> e.x]]
         ELSE Bad(t, idx, "putconbound: constraint does not exist")
    [] e.op = "putclist" ->
         IF \A q \in 1..Len(e.j) : e.j[q] \in 0..(t.nvar - 1)
         THEN [t EXCEPT !.c = {x \in @ : ~(\E q \in 1..Len(e.j) : x[1] = e.j[q])} \cup {<<e.j[q], Vals(e)[q]>> : q \in 1..Len(e.j)}]
         ELSE Bad(t, idx, "putclist: variable does not exist")
    [] e.op = "putbarcj" ->
         IF e.k \in 0..(Len(t.bardims) - 1) THEN [t EXCEPT !.barc = {b \in @ : b.bar # e.k} \cup {[bar |-> e.k, mats |-> e.j]},
                                                            !.barclog = Append(@, [bar |-> e.k, mats |-> e.j])]
         ELSE Bad(t, idx, "putbarcj: matrix variable does not exist")
    [] e.op = "putobjsense" -> [t EXCEPT !.sense = e.s]
    [] e.op = "optimize" -> [t EXCEPT !.optimized = @ + 1]
    [] e.op = "gety" -> [t EXCEPT !.gety = IF t.optimized = 1 /\ @ = <<>> THEN e.x ELSE @]
    [] e.op = "getxx" -> [t EXCEPT !.xx = e.x]
    [] e.op = "getbarsj" ->
         IF e.k \in 0..(Len(t.bardims) - 1) THEN [t EXCEPT !.bars = IF t.optimized = 1 THEN @ \cup {[bar |-> e.k, v |-> e.x]} ELSE @]
         ELSE Bad(t, idx, "getbarsj: matrix variable does not exist")
    [] e.op = "getbarxj" ->
         IF e.k \in 0..(Len(t.bardims) - 1) THEN t ELSE Bad(t, idx, "getbarxj: matrix variable does not exist")
    [] OTHER -> t
RECURSIVE FoldFrom(_, _, _, _)
FoldFrom(t, evs, k, upto) == IF k > upto THEN t ELSE FoldFrom(ApplyCall(t, evs[k], k), evs, k + 1, upto)
Fold(evs) == FoldFrom(EmptyTask, evs, 1, Len(evs))
\* position of the first 'optimize' call: the task at that moment is the problem that was solved first
FirstOpt(evs) == LET S == {k \in 1..Len(evs) : evs[k].op = "optimize"} IN IF S = {} THEN Len(evs) ELSE CHOOSE k \in S : \A j \in S : k <= j
TaskAtFirstSolve(evs) == FoldFrom(EmptyTask, evs, 1, FirstOpt(evs))
\* ---- denotation
BarOff(t, b) == t.nvar + LET RECURSIVE S(_)  S(q) == IF q >= b THEN 0 ELSE NPairs(t.bardims[q + 1]) + S(q + 1) IN S(0)     \* b is 0-based
NVars(t) == BarOff(t, Len(t.bardims))
\* coefficient of a symmetric matrix given by its lower triangle on the pair (p <= q), 1-based pair members
MatCoef(m, p, q) == LET S == {r \in 1..Len(m.i) : m.i[r] + 1 = q /\ m.j[r] + 1 = p} IN
                    IF S = {} THEN Z ELSE LET r == CHOOSE r \in S : TRUE IN IF p = q THEN m.v[r] ELSE RMul(Two, m.v[r])
RowVec(t, row) ==
  [k \in 1..NVars(t) |->
     IF k <= t.nvar THEN LET S == {x \in t.a : x[1] = row /\ x[2] = k - 1} IN IF S = {} THEN Z ELSE (CHOOSE x \in S : TRUE)[3]
     ELSE LET b == CHOOSE b \in 0..(Len(t.bardims) - 1) : BarOff(t, b) < k /\ k <= BarOff(t, b) + NPairs(t.bardims[b + 1])
              pr == PairSeq(t.bardims[b + 1])[k - BarOff(t, b)]
              S == {x \in t.bara : x.row = row /\ x.bar = b}
          IN IF S = {} THEN Z ELSE
             LET x == CHOOSE x \in S : TRUE
                 RECURSIVE Sm(_)  Sm(q) == IF q > Len(x.mats) THEN Z ELSE RAdd(RMul(x.w[q], MatCoef(t.mats[x.mats[q] + 1], pr[1], pr[2])), Sm(q + 1))
             IN Sm(1)]
RowExact(t, row) == \A x \in t.bara : x.row = row => \A q \in 1..Len(x.mats) : t.mats[x.mats[q] + 1].exact
=============================================================================
