------------------------------- MODULE Oracle -------------------------------
(* C07.  Oracle bookkeeping of PEPit/function.py (lines 529-739 and the step/stationary/fixed-point entry   *)
(* points), transcribed code path by code path:                                                            *)
(*   Lookup     = _is_already_evaluated_on_point      Needs   = _separate_leaf_functions_regarding_...     *)
(*   AddPoint   = add_point (prune, append, stationary test, prune weights, distribute to the terms, the    *)
(*                last term receives the remainder divided by its weight)                                   *)
(*   OracleOp   = oracle    ValueOp = value    Stationary / Fixed / Prox = stationary_point / fixed_point / *)
(*                proximal_step                                                                             *)
(* Named deviations of the implementation (section 7 of DESIGN.md):                                        *)
(*   DevF9  = TRUE : the need classification iterates over the stored (unpruned) weights   (fixed 43c25de)  *)
(*   DevF12 = TRUE : the lookup compares raw dictionaries, so a query point that carries an explicit zero   *)
(*                   coefficient never matches                                              (fixed f74a91f)  *)
(* With both FALSE this is the code as it is now; the invariants I1..I4 below must hold (except for the     *)
(* all-zero combination, finding F15, which is excluded from the invariants by ZeroFun).                    *)
EXTENDS LinForm, TLC, Json
CONSTANTS MaxP, MaxE,      \* vector lengths (leaf points / leaf expressions available)
          MaxCalls,
          DevF9, DevF12,
          WithZeroFun,     \* include the all-zero combination f1 - f1 (function 9)
          QSet,            \* indices of the query points used
          OpSet,           \* subset of {"oracle", "value", "prox", "gradient", "call"}
          Sim              \* TRUE under -simulate: pick one random call per step instead of enumerating all
ZeroP == ZeroV(MaxP)
ZeroF == ZeroV(MaxE)
UnitP(k) == UnitV(MaxP, k)
UnitF(k) == UnitV(MaxE, k)
\* ---------- world W = [np, ne, funs]; a query point is [v |-> pruned vector, z |-> carries explicit zeros]
Lookup(W, fid, q) == LET P == W.funs[fid].pts
                         S == {i \in 1..Len(P) : P[i].x = q.v /\ (DevF12 => ~q.z)}
                     IN IF S = {} THEN 0 ELSE CHOOSE i \in S : \A j \in S : i <= j
NonZero(w) == SelectSeq(w, LAMBDA t : t[2] # Z)
ClassifyOver(W, fid) == IF DevF9 THEN W.funs[fid].w ELSE NonZero(W.funs[fid].w)
\* category of a term at q: 0 needs nothing, 1 needs a gradient only, 2 needs gradient and value
Cat(W, g, q) == IF Lookup(W, g, q) # 0 THEN (IF W.funs[g].diff THEN 0 ELSE 1) ELSE 2
LeafAdd(W, fid, t) == [W EXCEPT !.funs[fid].pts = Append(@, t),
                                !.funs[fid].stat = IF VIsZero(t.g) THEN Append(@, Len(W.funs[fid].pts) + 1) ELSE @]
\* oracle of a LEAF function: returns [W, g, f]
LeafOracle(W, fid, q) ==
  LET a == Lookup(W, fid, q) IN
  IF a # 0 /\ W.funs[fid].diff THEN [W |-> W, g |-> W.funs[fid].pts[a].g, f |-> W.funs[fid].pts[a].f]
  ELSE LET f  == IF a # 0 THEN W.funs[fid].pts[a].f ELSE UnitF(W.ne + 1)
           W1 == IF a # 0 THEN W ELSE [W EXCEPT !.ne = @ + 1]
           g  == UnitP(W1.np + 1)
           W2 == [W1 EXCEPT !.np = @ + 1]
       IN [W |-> LeafAdd(W2, fid, [x |-> q.v, g |-> g, f |-> f]), g |-> g, f |-> f]
LeafValue(W, fid, q) == LET a == Lookup(W, fid, q) IN
  IF a # 0 THEN [W |-> W, f |-> W.funs[fid].pts[a].f] ELSE LET r == LeafOracle(W, fid, q) IN [W |-> r.W, f |-> r.f]
\* add_point of a composite: all but the last term get their own oracle result, the last the remainder / weight
RECURSIVE Distribute(_, _, _, _, _, _)
Distribute(W, order, i, q, remG, remF) ==
  LET t == order[i] IN
  IF i < Len(order)
  THEN LET r == LeafOracle(W, t[1], q)
       IN Distribute(r.W, order, i + 1, q, VSub(remG, VScale(t[2], r.g)), VSub(remF, VScale(t[2], r.f)))
  ELSE LeafAdd(W, t[1], [x |-> q.v, g |-> VScale(RInv(t[2]), remG), f |-> VScale(RInv(t[2]), remF)])
CompAdd(W, fid, t) ==
  LET q  == [v |-> t.x, z |-> FALSE]                                     \* the stored point is pruned
      W0 == LeafAdd(W, fid, t)                                            \* append + stationary test
      wp == NonZero(W0.funs[fid].w)                                       \* self.decomposition_dict = prune_dict(..)
      W1 == [W0 EXCEPT !.funs[fid].w = wp]
      n0 == SelectSeq(wp, LAMBDA u : Cat(W1, u[1], q) = 0)
      n1 == SelectSeq(wp, LAMBDA u : Cat(W1, u[1], q) = 1)
      n2 == SelectSeq(wp, LAMBDA u : Cat(W1, u[1], q) = 2)
  IN IF n1 \o n2 = <<>> THEN W1 ELSE Distribute(W1, n0 \o n1 \o n2, 1, q, t.g, t.f)
AddPoint(W, fid, t) == IF W.funs[fid].leaf THEN LeafAdd(W, fid, t) ELSE CompAdd(W, fid, t)
\* sums over ALL stored terms (zero weights included: the code calls value()/gradient() on each of them)
RECURSIVE SumValues(_, _, _, _, _)
SumValues(W, ws, i, q, acc) == IF i > Len(ws) THEN [W |-> W, f |-> acc] ELSE
   LET r == LeafValue(W, ws[i][1], q) IN SumValues(r.W, ws, i + 1, q, VAdd(acc, VScale(ws[i][2], r.f)))
RECURSIVE SumGrads(_, _, _, _, _)
SumGrads(W, ws, i, q, acc) == IF i > Len(ws) THEN [W |-> W, g |-> acc] ELSE
   LET r == LeafOracle(W, ws[i][1], q) IN SumGrads(r.W, ws, i + 1, q, VAdd(acc, VScale(ws[i][2], r.g)))
OracleOp(W, fid, q) ==
  IF W.funs[fid].leaf THEN LeafOracle(W, fid, q) ELSE
  LET a == Lookup(W, fid, q) IN
  IF a # 0 /\ W.funs[fid].diff THEN [W |-> W, g |-> W.funs[fid].pts[a].g, f |-> W.funs[fid].pts[a].f]
  ELSE LET cls == ClassifyOver(W, fid)
           all == W.funs[fid].w
           no2 == \A k \in 1..Len(cls) : Cat(W, cls[k][1], q) # 2
           no1 == \A k \in 1..Len(cls) : Cat(W, cls[k][1], q) # 1
           rf  == IF a # 0 THEN [W |-> W, f |-> W.funs[fid].pts[a].f]
                  ELSE IF no2 THEN SumValues(W, all, 1, q, ZeroF)
                  ELSE [W |-> [W EXCEPT !.ne = @ + 1], f |-> UnitF(W.ne + 1)]
           rg  == IF no2 /\ no1 THEN SumGrads(rf.W, all, 1, q, ZeroP)
                  ELSE [W |-> [rf.W EXCEPT !.np = @ + 1], g |-> UnitP(rf.W.np + 1)]
       IN [W |-> CompAdd(rg.W, fid, [x |-> q.v, g |-> rg.g, f |-> rf.f]), g |-> rg.g, f |-> rf.f]
ValueOp(W, fid, q) == LET a == Lookup(W, fid, q) IN
  IF a # 0 THEN [W |-> W, f |-> W.funs[fid].pts[a].f] ELSE LET r == OracleOp(W, fid, q) IN [W |-> r.W, f |-> r.f]
Stationary(W, fid) == LET W1 == [W EXCEPT !.np = @ + 1, !.ne = @ + 1]
                      IN AddPoint(W1, fid, [x |-> UnitP(W.np + 1), g |-> ZeroP, f |-> UnitF(W.ne + 1)])
Fixed(W, fid) == LET W1 == [W EXCEPT !.np = @ + 1, !.ne = @ + 1]
                 IN AddPoint(W1, fid, [x |-> UnitP(W.np + 1), g |-> UnitP(W.np + 1), f |-> UnitF(W.ne + 1)])
\* proximal_step(x0, f, gamma = 1/2): gx, fx fresh; x = x0 - gx/2; f.add_point((x, gx, fx))
Prox(W, fid, q) == LET W1 == [W EXCEPT !.np = @ + 1, !.ne = @ + 1]
                   IN AddPoint(W1, fid, [x |-> VSub(q.v, VScale(Half, UnitP(W.np + 1))), g |-> UnitP(W.np + 1),
                                         f |-> UnitF(W.ne + 1)])
\* ---------- the functions of the bounded model (the driver builds exactly these with the DSL)
Fn(leaf, diff, w) == [leaf |-> leaf, diff |-> diff, w |-> w, pts |-> <<>>, stat |-> <<>>]
BaseFuns == << Fn(TRUE, FALSE, <<<<1, One>>>>),                          \* 1: leaf, non-differentiable
               Fn(TRUE, TRUE,  <<<<2, One>>>>),                          \* 2: leaf, differentiable
               Fn(FALSE, FALSE, <<<<1, One>>, <<2, Half>>>>),            \* 3: f1 + f2/2
               Fn(FALSE, FALSE, <<<<1, Z>>, <<2, One>>>>),               \* 4: f1 - f1 + f2   (zero weight kept)
               Fn(FALSE, TRUE,  <<<<2, Two>>>>),                         \* 5: 2 f2
               Fn(TRUE, FALSE, <<<<6, One>>>>),                          \* 6: leaf, non-differentiable
               Fn(FALSE, FALSE, <<<<1, One>>, <<6, MOne>>>>),            \* 7: f1 - f6   (two non-differentiable terms)
               Fn(FALSE, FALSE, <<<<6, Half>>, <<2, Two>>, <<1, Z>>>>) >> \* 8: f6/2 + 2 f2 + 0 f1
ZeroFunDef == Fn(FALSE, FALSE, <<<<1, Z>>>>)                             \* 9: f1 - f1  (all-zero combination, F15)
InitFuns == IF WithZeroFun THEN Append(BaseFuns, ZeroFunDef) ELSE BaseFuns
\* query points (the driver builds a NEW Python object for every call):
\*   1: x1   2: x2   3: x1 - x2   4: 0 * x2 (the zero point, stored with an explicit zero)   5: x1 - x1 (the zero point)
\*   6: (1 + 2^-20) * x1  - a DIFFERENT point, however close to x1
Queries == << [v |-> UnitP(1), z |-> FALSE], [v |-> UnitP(2), z |-> FALSE],
              [v |-> VSub(UnitP(1), UnitP(2)), z |-> FALSE], [v |-> ZeroP, z |-> TRUE], [v |-> ZeroP, z |-> FALSE],
              [v |-> VScale(<<1048577, 1048576>>, UnitP(1)), z |-> FALSE] >>
\* ---------- state machine
VARIABLES W, hist
vars == <<W, hist>>
Init == W = [np |-> 2, ne |-> 0, funs |-> InitFuns] /\ hist = <<>>
Room == W.np + 4 <= MaxP /\ W.ne + 4 <= MaxE /\ Len(hist) < MaxCalls
\* gradient(x) / subgradient(x) are oracle(x) returning the first component; f(x) (__call__) is value(x)
CallOn(Wx, c) == CASE c.op \in {"oracle", "gradient"} -> OracleOp(Wx, c.f, Queries[c.q]).W
                   [] c.op \in {"value", "call"}  -> ValueOp(Wx, c.f, Queries[c.q]).W
                   [] c.op = "stat"   -> Stationary(Wx, c.f)
                   [] c.op = "fixed"  -> Fixed(Wx, c.f)
                   [] c.op = "prox"   -> Prox(Wx, c.f, Queries[c.q])
Call(c) == CallOn(W, c)
Calls == {[op |-> o, f |-> fid, q |-> qi] : o \in OpSet, fid \in 1..Len(InitFuns), qi \in QSet}
         \cup {[op |-> o, f |-> fid, q |-> 0] : o \in {"stat", "fixed"}, fid \in 1..Len(InitFuns)}
NextCalls == IF Sim THEN {RandomElement(Calls)} ELSE Calls
Next == Room /\ \E c \in NextCalls : W' = Call(c) /\ hist' = Append(hist, c)
Spec == Init /\ [][Next]_vars
\* ---------- C07 invariants, stated on a table of samples (used on the model state AND on observed states)
ZeroFun(funs, fid) == ~funs[fid].leaf /\ NonZero(funs[fid].w) = <<>>
I1(funs) == \A fid \in 1..Len(funs) : \A i, j \in 1..Len(funs[fid].pts) :
        funs[fid].pts[i].x = funs[fid].pts[j].x => funs[fid].pts[i].f = funs[fid].pts[j].f
I2(funs) == \A fid \in 1..Len(funs) : funs[fid].diff =>
        \A i, j \in 1..Len(funs[fid].pts) : funs[fid].pts[i].x = funs[fid].pts[j].x => funs[fid].pts[i].g = funs[fid].pts[j].g
\* every sample of a composite is the weighted sum of SOME samples of its non-zero terms at that point
SumSel(funs, nz, sel, k, what) == LET RECURSIVE S(_)
                                      S(i) == IF i > Len(nz) THEN (IF what = "g" THEN ZeroP ELSE ZeroF)
                                              ELSE VAdd(VScale(nz[i][2], IF what = "g" THEN funs[nz[i][1]].pts[sel[i]].g
                                                                                     ELSE funs[nz[i][1]].pts[sel[i]].f), S(i + 1))
                                  IN S(k)
RECURSIVE MaxLen(_, _)
MaxLen(funs, i) == IF i > Len(funs) THEN 1 ELSE LET m == MaxLen(funs, i + 1) IN IF Len(funs[i].pts) > m THEN Len(funs[i].pts) ELSE m
MaxSamples(funs) == MaxLen(funs, 1)
I3At(funs, fid, s) ==
  LET x == funs[fid].pts[s].x  nz == NonZero(funs[fid].w)
      Cands(k) == {i \in 1..Len(funs[nz[k][1]].pts) : funs[nz[k][1]].pts[i].x = x}
  IN /\ \A k \in 1..Len(nz) : Cands(k) # {}
     /\ \E sel \in [1..Len(nz) -> 1..MaxSamples(funs)] :
          /\ \A k \in 1..Len(nz) : sel[k] \in Cands(k)
          /\ SumSel(funs, nz, sel, 1, "g") = funs[fid].pts[s].g
          /\ SumSel(funs, nz, sel, 1, "f") = funs[fid].pts[s].f
I3(funs) == \A fid \in 1..Len(funs) : (~funs[fid].leaf /\ ~ZeroFun(funs, fid)) =>
              \A s \in 1..Len(funs[fid].pts) : I3At(funs, fid, s)
I3Zero(funs) == \A fid \in 1..Len(funs) : ZeroFun(funs, fid) =>
              \A s \in 1..Len(funs[fid].pts) : VIsZero(funs[fid].pts[s].g) /\ VIsZero(funs[fid].pts[s].f)
\* a sum that claims to be differentiable (one gradient per point) must have only differentiable terms of non-zero
\* weight: otherwise a repeated query pins one subgradient of a non-smooth term
I6(funs) == \A fid \in 1..Len(funs) : (~funs[fid].leaf /\ funs[fid].diff) =>
              \A k \in 1..Len(NonZero(funs[fid].w)) : funs[NonZero(funs[fid].w)[k][1]].diff
I4(funs) == \A fid \in 1..Len(funs) : \A k \in 1..Len(funs[fid].stat) :
              funs[fid].stat[k] \in 1..Len(funs[fid].pts) /\ VIsZero(funs[fid].pts[funs[fid].stat[k]].g)
InvI1 == I1(W.funs)
InvI2 == I2(W.funs)
InvI3 == I3(W.funs)
InvI3Zero == I3Zero(W.funs)
InvI4 == I4(W.funs)
\* ---------- export
Emit == (Len(hist) = MaxCalls \/ ~Room) => PrintT(ToJson([h |-> hist]))
=============================================================================
