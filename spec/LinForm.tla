----------------------------- MODULE LinForm -----------------------------
(* Normal forms of PEPit objects.                                                                         *)
(*   point      = sequence of Rat over the leaf points (index = leaf counter + 1)                         *)
(*   expression = [F |-> Seq(Rat) over leaf expressions, G |-> Seq(Rat) over unordered leaf-point pairs   *)
(*                 (i <= j, row-wise), c |-> Rat]                                                          *)
(* Two DSL objects denote the same function of the leaves iff their normal forms are equal.               *)
EXTENDS Rat, Sequences, FiniteSets
NPairs(np) == (np * (np + 1)) \div 2
PairIdx(np, i, j) == LET a == IF i <= j THEN i ELSE j  b == IF i <= j THEN j ELSE i
                     IN (a - 1) * np - ((a - 1) * (a - 2)) \div 2 + (b - a) + 1
RECURSIVE PairSeqFrom(_, _, _)
PairSeqFrom(np, i, j) == IF i > np THEN <<>> ELSE IF j > np THEN PairSeqFrom(np, i + 1, i + 1)
                         ELSE <<<<i, j>>>> \o PairSeqFrom(np, i, j + 1)
PairSeq(np) == PairSeqFrom(np, 1, 1)
ZeroV(n) == [k \in 1..n |-> Z]
UnitV(n, i) == [k \in 1..n |-> IF k = i THEN One ELSE Z]
VAdd(u, v) == [k \in DOMAIN u |-> RAdd(u[k], v[k])]
VScale(s, u) == [k \in DOMAIN u |-> RMul(s, u[k])]
VNeg(u) == [k \in DOMAIN u |-> RNeg(u[k])]
VSub(u, v) == [k \in DOMAIN u |-> RSub(u[k], v[k])]
VIsZero(u) == \A k \in DOMAIN u : u[k][1] = 0
RECURSIVE VSumFrom(_, _)
VSumFrom(u, k) == IF k > Len(u) THEN Z ELSE RAdd(u[k], VSumFrom(u, k + 1))
VSum(u) == VSumFrom(u, 1)
RECURSIVE VDotFrom(_, _, _)
VDotFrom(u, v, k) == IF k > Len(u) THEN Z ELSE
                     RAdd(IF u[k][1] = 0 \/ v[k][1] = 0 THEN Z ELSE RMul(u[k], v[k]), VDotFrom(u, v, k + 1))
VDot(u, v) == VDotFrom(u, v, 1)
ZeroE(np, ne) == [F |-> ZeroV(ne), G |-> ZeroV(NPairs(np)), c |-> Z]
EAdd(a, b) == [F |-> VAdd(a.F, b.F), G |-> VAdd(a.G, b.G), c |-> RAdd(a.c, b.c)]
EScale(s, a) == [F |-> VScale(s, a.F), G |-> VScale(s, a.G), c |-> RMul(s, a.c)]
ENeg(a) == EScale(MOne, a)
ESub(a, b) == EAdd(a, ENeg(b))
EConst(np, ne, s) == [ZeroE(np, ne) EXCEPT !.c = s]
ELeaf(np, ne, i) == [ZeroE(np, ne) EXCEPT !.F = UnitV(ne, i)]
EIsZero(a) == VIsZero(a.F) /\ VIsZero(a.G) /\ a.c[1] = 0
\* <p, q> as an expression; ne = number of leaf expressions of the ambient space
Inner(ne, p, q) == LET np == Len(p)  ps == PairSeq(np) IN
   [F |-> ZeroV(ne),
    G |-> [k \in 1..Len(ps) |-> LET i == ps[k][1]  j == ps[k][2] IN
              IF i = j THEN RMul(p[i], q[i]) ELSE RAdd(RMul(p[i], q[j]), RMul(p[j], q[i]))],
    c |-> Z]
Sq(ne, p) == Inner(ne, p, p)
Flatten(e) == e.F \o e.G \o <<e.c>>
\* ---- evaluation in exact rationals: leaf points are vectors (sequences of Rat of one common dimension)
PtVal(p, env) == LET dim == Len(env[1]) IN
   [c \in 1..dim |-> VDot(p, [k \in 1..Len(p) |-> env[k][c]])]
EVal(e, penv, fenv) == LET np == Len(penv)  ps == PairSeq(np) IN
   RAdd(RAdd(VDot(e.F, fenv), VDot(e.G, [k \in 1..Len(ps) |-> VDot(penv[ps[k][1]], penv[ps[k][2]])])), e.c)
\* ---- decoding from the JSON interchange format ({n:[..], d:[..]} and {Fn,Fd,Gn,Gd,c:[n,d]})
RV(j) == [k \in 1..Len(j.n) |-> <<j.n[k], j.d[k]>>]
DE(j) == [F |-> [k \in 1..Len(j.Fn) |-> <<j.Fn[k], j.Fd[k]>>], G |-> [k \in 1..Len(j.Gn) |-> <<j.Gn[k], j.Gd[k]>>],
          c |-> <<j.c[1], j.c[2]>>]
\* ---- normalisation by positive scaling (inequalities) or any non-zero scaling (equalities)
FirstNZ(s) == LET I == {i \in 1..Len(s) : s[i][1] # 0} IN IF I = {} THEN 0 ELSE CHOOSE i \in I : \A j \in I : i <= j
NormForm(e, sense) == LET s == Flatten(e)  k == FirstNZ(s) IN
    IF k = 0 THEN <<"trivial">> ELSE
    LET a == s[k]  m == IF sense = "eq" THEN a ELSE RAbs(a) IN <<sense, [i \in 1..Len(s) |-> RDiv(s[i], m)]>>
=============================================================================
