---------------------------- MODULE TablesTrace ----------------------------
(* C17 trace validation.  A trace is the projection (harness/classes_common.py) of one leaf function of a   *)
(* real class after set_class_constraints() (solved = 0: all declaration histories, structure only) or after *)
(* a real solve (solved = 1: multipliers as fixed-point integers):                                         *)
(*   tables   tables_of_constraints: per table type, row lengths, labels, and per entry the index of the    *)
(*            constraint OBJECT in list_of_class_constraints (0 = the scalar 0, < 0 = anything else)       *)
(*   cons     the class constraints: normal form, sense, name split at "(" and ", ", multiplier            *)
(*   duals    what get_class_constraints_duals() returned                                                  *)
(* Checked against Classes!Tabs / Classes!Cond on the OBSERVED samples:                                    *)
(*   a table exists for every documented condition name and no other; it is a DataFrame of shape           *)
(*   (#list1, #list2) labelled by the point names (default Point_<position in its list>); the entry (i, j)  *)
(*   holds the constraint that IS the documented condition for the samples (i, j) (normal forms), that      *)
(*   constraint was sent (member of list_of_class_constraints), its name is                                 *)
(*   IC_<function>_<condition>(<point_i>[, <point_j>]); 0 only where no constraint exists for the pair;      *)
(*   every class constraint sits in exactly one entry; the dual table has the same shape and labels and its *)
(*   entry equals the multiplier of that constraint object (same float, so exact), 0 elsewhere.             *)
EXTENDS ClassesTrace
RECURSIVE SortedSeq(_)
SortedSeq(I) == IF I = {} THEN <<>> ELSE LET m == CHOOSE i \in I : \A j \in I : i <= j IN <<m>> \o SortedSeq(I \ {m})
FId(t) == IF t.fname # "" THEN t.fname ELSE "Function_" \o ToString(t.fcounter)
Lab(smp, pos) == IF smp.name # "" THEN smp.name ELSE "Point_" \o ToString(pos - 1)
RowsOf(tb, C) == IF tb.rows = "stat" THEN SortedSeq(StatIdx(C.S)) ELSE [k \in 1..Len(C.S) |-> k]
ColsOf(tb, C) == [k \in 1..Len(C.S) |-> k]
ObsTab(t, name) == {k \in 1..Len(t.tables) : t.tables[k].name = name}
ObsDual(t, name) == {k \in 1..Len(t.duals) : t.duals[k].name = name}
ShapeOK(ot, nr, nc) == ot.nrows = nr /\ \A a \in 1..Len(ot.rowlen) : ot.rowlen[a] = nc
\* block tables are reported under one condition name (the block index is a parameter, not a different condition)
SigName(tb) == IF tb.k > 0 THEN "smoothness_convexity_block" ELSE tb.name

TableClauses(t, C, tb) ==
  LET R == RowsOf(tb, C)  Cc == ColsOf(tb, C)
      one == tb.layout = "row"
      nr == IF one THEN 1 ELSE Len(R)
      nc == Len(Cc)
      I == ObsTab(t, tb.name)
      sn == SigName(tb)
  IN
  IF Len(C.S) = 0 THEN {}                      \* no sample: no table is required
  ELSE IF I = {} THEN {<<"table-missing", sn, "-", 1>>}
  ELSE
  LET ot == t.tables[CHOOSE k \in I : TRUE]
      typ == IF ot.type = "DataFrame" THEN {} ELSE {<<"table-type", sn, ot.type, 1>>}
  IN
  IF ~ShapeOK(ot, nr, nc) THEN typ \cup {<<"table-shape", sn, "-", ot.nrows>>}
  ELSE
  LET rl(a) == IF one THEN "" ELSE Lab(C.S[R[a]], a)
      cl(b) == Lab(C.S[Cc[b]], b)
      labels == IF ot.type # "DataFrame" THEN {}
                ELSE IF /\ ot.colname = "IC_" \o FId(t)
                        /\ ot.collab = [b \in 1..nc |-> cl(b)]
                        /\ (one \/ ot.rowlab = [a \in 1..nr |-> rl(a)])
                     THEN {} ELSE {<<"table-labels", sn, "-", 1>>}
      E(a, b) == ot.ent[a][b]
      expNF(a, b) == NormForm(Cond(t.cls, C, tb, IF one THEN C.S[Cc[b]] ELSE C.S[R[a]], C.S[Cc[b]]), tb.sense)
      nameOK(c, a, b) == /\ c.named = 1
                         /\ c.head = "IC_" \o FId(t) \o "_" \o tb.name
                         /\ c.args = IF one THEN <<cl(b)>> ELSE <<rl(a), cl(b)>>
      cells == (1..nr) \X (1..nc)
      mism == {p \in cells : E(p[1], p[2]) > 0 /\
                 LET c == t.cons[E(p[1], p[2])] IN NormForm(DE(c.e), c.sense) # expNF(p[1], p[2])}
      nname == {p \in cells : E(p[1], p[2]) > 0 /\ ~nameOK(t.cons[E(p[1], p[2])], p[1], p[2])}
      nsent == {p \in cells : E(p[1], p[2]) < 0}
      \* 0 is allowed where no constraint exists for the pair: the same sample twice, or (symmetric conditions,
      \* "the number of constraints is divided by 2") the mirrored entry carries it
      miss == {p \in cells : E(p[1], p[2]) = 0 /\
                 CASE tb.layout = "row" -> TRUE
                   [] tb.layout = "full" -> R[p[1]] # Cc[p[2]]
                   [] tb.layout = "upper" -> R[p[1]] # Cc[p[2]] /\ E(p[2], p[1]) = 0}
      dl == IF t.solved = 0 \/ t.dexc # "" THEN {} ELSE
            LET J == ObsDual(t, tb.name) IN
            IF J = {} THEN {<<"dual-table-missing", sn, "-", 1>>} ELSE
            LET d == t.duals[CHOOSE k \in J : TRUE] IN
            IF ~(d.type = "DataFrame" /\ Len(d.val) = nr /\ \A a \in 1..Len(d.val) : Len(d.val[a]) = nc)
            THEN {<<"dual-table-shape", sn, "-", Len(d.val)>>} ELSE
            (IF ot.type = "DataFrame" /\ (d.collab # ot.collab \/ d.rowlab # ot.rowlab \/ d.colname # ot.colname)
             THEN {<<"dual-table-labels", sn, "-", 1>>} ELSE {})
            \cup LET nodual == {p \in cells : E(p[1], p[2]) > 0 /\ t.cons[E(p[1], p[2])].hasdual = 0}
                     wrong == {p \in cells : \/ E(p[1], p[2]) > 0 /\ t.cons[E(p[1], p[2])].hasdual = 1
                                                /\ d.val[p[1]][p[2]] # t.cons[E(p[1], p[2])].dual
                                             \/ E(p[1], p[2]) = 0 /\ d.val[p[1]][p[2]] # 0}
                 IN (IF nodual = {} THEN {} ELSE {<<"no-dual-value", sn, "-", Cardinality(nodual)>>})
                    \cup (IF wrong = {} THEN {} ELSE {<<"dual-mismatch", sn, "-", Cardinality(wrong)>>})
  IN typ \cup labels
     \cup (IF mism = {} THEN {} ELSE {<<"entry-mismatch", sn, "-", Cardinality(mism)>>})
     \cup (IF nname = {} THEN {} ELSE {<<"name-mismatch", sn, "-", Cardinality(nname)>>})
     \cup (IF nsent = {} THEN {} ELSE {<<"entry-not-sent", sn, "-", Cardinality(nsent)>>})
     \cup (IF miss = {} THEN {} ELSE {<<"entry-missing", sn, "-", Cardinality(miss)>>})
     \cup dl

\* independently of the shape of the observed tables: a named class constraint of a documented condition carries the
\* labels of a pair (a, b) of samples for which it IS the documented condition (labels need not be unique)
NameClauses(t, C, ts) ==
  LET Bad(k) == LET c == t.cons[k] IN
        c.named = 1 /\ \E m \in 1..Len(ts) :
           /\ c.head = "IC_" \o FId(t) \o "_" \o ts[m].name
           /\ LET tb == ts[m]  R == RowsOf(tb, C)  Cc == ColsOf(tb, C)  one == tb.layout = "row"
                  nr == IF one THEN 1 ELSE Len(R)
              IN ~\E a \in 1..nr : \E b \in 1..Len(Cc) :
                     /\ c.args = (IF one THEN <<Lab(C.S[Cc[b]], b)>> ELSE <<Lab(C.S[R[a]], a), Lab(C.S[Cc[b]], b)>>)
                     /\ NormForm(DE(c.e), c.sense)
                          = NormForm(Cond(t.cls, C, tb, IF one THEN C.S[Cc[b]] ELSE C.S[R[a]], C.S[Cc[b]]), tb.sense)
      badNames == {k \in 1..Len(t.cons) : Bad(k)}
  IN IF badNames = {} THEN {} ELSE {<<"name-does-not-identify-the-pair-of-its-condition", "-", "-", Cardinality(badNames)>>}

\* every class constraint sits in exactly one entry of exactly one table
AllCells(t) == UNION { UNION {{<<m, a, b>> : b \in 1..Len(t.tables[m].ent[a])} : a \in 1..Len(t.tables[m].ent)} : m \in 1..Len(t.tables)}
CoverClauses(t) ==
  LET cells == AllCells(t)
      cnt(k) == Cardinality({q \in cells : t.tables[q[1]].ent[q[2]][q[3]] = k})
      none == {k \in 1..Len(t.cons) : cnt(k) = 0}
      many == {k \in 1..Len(t.cons) : cnt(k) > 1}
  IN (IF none = {} THEN {} ELSE {<<"constraint-not-in-table", "-", "-", Cardinality(none)>>})
     \cup (IF many = {} THEN {} ELSE {<<"constraint-twice", "-", "-", Cardinality(many)>>})

TabClauses(t) ==
  LET C == ObsCtx(t)  ts == Tabs(t.cls, C.P)
      unnamed == {k \in 1..Len(t.cons) : t.cons[k].named = 0}
      un == IF unnamed = {} THEN {} ELSE {<<"unnamed-constraint", "-", "-", Cardinality(unnamed)>>}
      dx == IF t.solved = 1 /\ t.dexc # "" THEN {<<"duals-raise", "-", t.dexc, 1>>} ELSE {}
  IN
  IF t.exc # "" THEN {<<"raises", t.exc, "-", 1>>}
  ELSE IF \E k \in 1..Len(ts) : ts[k].layout = "none"
  THEN \* a class whose documentation names no table: at least the generic contract (a table per condition, named
       \* constraints) must hold as soon as there is a class constraint
       un \cup dx \cup (IF Len(t.cons) > 0 /\ Len(t.tables) = 0 THEN {<<"no-table", "-", "-", Len(t.cons)>>} ELSE {})
            \cup (IF Len(t.tables) > 0 THEN CoverClauses(t) ELSE {})
  ELSE LET names == {ts[k].name : k \in 1..Len(ts)}
           unexpected == {k \in 1..Len(t.tables) : t.tables[k].name \notin names}
           dup == {n \in names : Cardinality(ObsTab(t, n)) > 1}
       IN UNION {TableClauses(t, C, ts[k]) : k \in 1..Len(ts)}
          \cup {<<"table-unexpected", t.tables[k].name, "-", 1>> : k \in unexpected}
          \cup {<<"table-duplicate", n, "-", 1>> : n \in dup}
          \cup un \cup dx \cup NameClauses(t, C, ts)
          \cup (IF \A k \in 1..Len(ts) : \A m \in ObsTab(t, ts[k].name) :
                     ShapeOK(t.tables[m], IF ts[k].layout = "row" THEN 1 ELSE Len(RowsOf(ts[k], C)), Len(C.S))
                THEN CoverClauses(t) ELSE {})

VARIABLE done17
t17vars == <<tid, stage, bad, cls, hist, order, done17>>
T17Init == /\ tid \in 1..Len(Traces) /\ stage = "tables" /\ bad = {} /\ done17 = FALSE
           /\ cls = "-" /\ hist = <<>> /\ order = <<>>
T17Next == /\ ~done17 /\ done17' = TRUE /\ bad' = TabClauses(T) /\ stage' = "done"
           /\ UNCHANGED <<tid, cls, hist, order>>
Report17 == done17 => PrintT(ToJson(<<"V", tid, bad>>))
=============================================================================
