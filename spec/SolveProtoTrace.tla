--------------------------- MODULE SolveProtoTrace ---------------------------
(* Trace validation of real PEP.solve calls against the protocol machine Solve.tla.  One trace = the wrapper method  *)
(* calls of one solve, recorded in order by recording subclasses of the real wrappers (harness/pepsolve.py) plus the   *)
(* driver's "call" and "return" events.  Every event is bound to the machine's action of the same name; an object     *)
(* sent to the wrapper is logged with every declared source it belongs to and must fit the next entry of the plan.    *)
(* A trace is accepted when all its events were consumed; otherwise the verdict names the first event no action       *)
(* could take and the control state the machine was in.                                                                *)
EXTENDS Solve, Json, IOUtils
Traces == ndJsonDeserialize(IOEnv.TRACE_FILE)
VARIABLES tid, l, verdict
tvars == <<tid, l, verdict>>
T == Traces[tid]
E == T.ev
IsEvent(e) == l <= Len(E) /\ E[l].ev = e /\ l' = l + 1
TCall == IsEvent("call") /\ Call(E[l].n, E[l].mode)
TSetMain == IsEvent("set_main") /\ SetMain(T.model)
TSend == IsEvent("send") /\ \E k \in 1..Len(E[l].srcs) : Send(E[l].srcs[k])
TGenerate == IsEvent("generate") /\ Generate
TSolve == IsEvent("solve") /\ (Solve1(E[l].fin = 1) \/ HSolve)
TAssign == IsEvent("assign_duals") /\ AssignDuals
TGetPrimal == IsEvent("get_primal") /\ (GetPrimal \/ HGetPrimal)
TPrepare == IsEvent("prepare_heuristic") /\ Prepare
TWeight == IsEvent("heuristic") /\ Weight
TEval == IsEvent("eval") /\ Eval
TCheck == IsEvent("check") /\ Check
TReturn == IsEvent("return") /\ (IF E[l].ret = "none" THEN NoValue ELSE Return)
TReal == TCall \/ TSetMain \/ TSend \/ TGenerate \/ TSolve \/ TAssign \/ TGetPrimal \/ TPrepare \/ TWeight \/ TEval
         \/ TCheck \/ TReturn
TStep == TReal /\ UNCHANGED <<tid, verdict>>
TStuck == /\ l <= Len(E) /\ ~ENABLED TReal
          /\ verdict' = <<l, E[l].ev, pc>> /\ l' = Len(E) + 2 /\ UNCHANGED <<tid>> /\ UNCHANGED vars
TDone == /\ l = Len(E) + 1
         /\ verdict' = IF pc = "done" THEN <<0, "accepted", pc>> ELSE <<l, "trace-ends-early", pc>>
         /\ l' = Len(E) + 2 /\ UNCHANGED <<tid>> /\ UNCHANGED vars
TInit == Init /\ tid \in 1..Len(Traces) /\ l = 1 /\ verdict = <<0, "", "">>
TNext == TStep \/ TStuck \/ TDone
Report == l = Len(E) + 2 => PrintT(ToJson(<<"V", tid, {verdict}>>))
=============================================================================
