---------------------------- MODULE RunsTrace ----------------------------
(* C09, code -> spec.  The programs are the object graphs recorded from the real worked examples           *)
(* (harness/drv_c09.py, one JSON object per line, file named by the environment variable TRACE_FILE);       *)
(* cfg:  TraceMode = TRUE, INIT Init, NEXT Next, INVARIANT Report.                                          *)
(* The machine of Runs.tla executes every recorded program on every tuple of real members and every grid    *)
(* start; NoRunBeatsBound - reported per run by Report as a JSON line ["R", trace, member tuple, code, ...] *)
(* - is C09 evaluated against the OBSERVED tau.  A trace's verdict is the aggregate of its run records:     *)
(* the harness requires at least one completed feasible run per supported trace (totality).                 *)
EXTENDS Runs
TraceNoRunBeatsBound == NoRunBeatsBound
=============================================================================
