---------------------------- MODULE RunsTrace ----------------------------
(* C09, code -> spec.  The programs are the object graphs recorded from the real worked examples           *)
(* (harness/drv_c09.py, one JSON object per line); cfg:  CONSTANT Progs <- TraceProgs.                      *)
(* The machine of Runs.tla executes every recorded program on every tuple of real members and every grid    *)
(* start; NoRunBeatsBound (reported per run by Runs!Report) is C09 evaluated against the OBSERVED tau.      *)
EXTENDS Runs, IOUtils
TraceProgs == ndJsonDeserialize(IOEnv.TRACE_FILE)
=============================================================================
