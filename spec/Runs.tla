------------------------------- MODULE Runs -------------------------------
(* C09.  "No real run of a modelled method on a real function beats the returned bound."                     *)
(*                                                                                                          *)
(* A program is the object graph a worked example leaves behind (harness/drv_c09.py): leaf functions with   *)
(* their class and parameters, their samples (x, g, f) as normal forms over the leaf points / expressions,  *)
(* the initial conditions, the performance metrics and the returned tau (fixed point, units 1e-6).          *)
(* This module                                                                                              *)
(*   A  guards exact rational arithmetic against 32-bit overflow (a run that would overflow is abandoned    *)
(*      and counted, never judged),                                                                         *)
(*   B  defines REAL members of the classes (quadratics, Huber, m|x-c|, interval indicators, complex-linear *)
(*      operators z |-> M(z-c)) together with the textbook DEFINITION of each class, and checks every       *)
(*      member against the definition on a grid (FamilySound) - independent of any formula of the library,  *)
(*   C  executes a program on a tuple of members as a state machine: every step gives one leaf point its    *)
(*      value - forced by a sample (explicit (sub)gradient, implicit step solved by the member's resolvent)  *)
(*      or guessed from a grid (starting points, stationary / fixed points, linear-minimisation outputs);   *)
(*      a state in which a completely evaluated sample is not a (point, subgradient) pair of its member is   *)
(*      cut, so every completed behaviour IS a run of the modelled method on real functions,                 *)
(*   D  states the property: a completed run that satisfies the initial condition has metric <= tau + tol,  *)
(*   E  enumerates the parameter grid of the covered examples inside their documented ranges (spec -> code).*)
EXTENDS LinForm, TLC, Json, IOUtils
CONSTANTS TraceMode,    \* FALSE: the built-in programs; TRUE: the programs recorded from the real code (ndjson, IOEnv.TRACE_FILE)
          NMax,         \* largest iteration count of the parameter grid
          Reduced       \* TRUE: smaller member families (quick tier)
\* ------------------------------------------------------------------------------------------ A  numbers
S == 16384
Bad == <<0, 0>>
IsBad(a) == a[2] = 0
Safe(a) == a[2] > 0 /\ a[2] <= S /\ a[1] <= S /\ -a[1] <= S
GAdd(a, b) == IF Safe(a) /\ Safe(b) THEN RAdd(a, b) ELSE Bad
GNeg(a) == IF IsBad(a) THEN Bad ELSE RNeg(a)
GSub(a, b) == GAdd(a, GNeg(b))
GMul(a, b) == IF Safe(a) /\ Safe(b) THEN RMul(a, b) ELSE Bad
GDiv(a, b) == IF Safe(a) /\ Safe(b) /\ b[1] # 0 THEN RMul(a, RInv(b)) ELSE Bad
GSq(a) == GMul(a, a)
GHalf(a) == GMul(Half, a)
\* comparisons are only evaluated on Safe operands (callers test AllSafe first)
Leq(a, b) == RLeq(a, b)
Lt(a, b) == ~RLeq(b, a)
\* floor(r * 10^6) for a Safe rational; values beyond +-2000 saturate
ToMicroPos(n, d) == LET q0 == n \div d  r0 == n % d
                        q1 == (r0 * 1000) \div d  r1 == (r0 * 1000) % d
                        q2 == (r1 * 1000) \div d
                    IN IF q0 >= 2000 THEN 2000000000 ELSE q0 * 1000000 + q1 * 1000 + q2
ToMicro(r) == IF r[1] >= 0 THEN ToMicroPos(r[1], r[2]) ELSE -ToMicroPos(-r[1], r[2]) - 1
R(n, d) == Norm(n, d)
\* vectors of dimension D (1: real line, 2: complex plane)
VSafe(v) == \A i \in DOMAIN v : Safe(v[i])
VZero(D) == [i \in 1..D |-> Z]
GVAdd(u, v) == [i \in DOMAIN u |-> GAdd(u[i], v[i])]
GVSub(u, v) == [i \in DOMAIN u |-> GSub(u[i], v[i])]
GVScale(s, u) == [i \in DOMAIN u |-> GMul(s, u[i])]
RECURSIVE GVDotFrom(_, _, _)
GVDotFrom(u, v, i) == IF i > Len(u) THEN Z ELSE GAdd(GMul(u[i], v[i]), GVDotFrom(u, v, i + 1))
GVDot(u, v) == GVDotFrom(u, v, 1)
\* complex multiplication / division (D = 2)
CMul(m, z) == <<GSub(GMul(m[1], z[1]), GMul(m[2], z[2])), GAdd(GMul(m[1], z[2]), GMul(m[2], z[1]))>>
CDiv(z, m) == LET den == GAdd(GSq(m[1]), GSq(m[2])) IN
              <<GDiv(GAdd(GMul(z[1], m[1]), GMul(z[2], m[2])), den), GDiv(GSub(GMul(z[2], m[1]), GMul(z[1], m[2])), den)>>
\* ------------------------------------------------------------------------------------------ B  members
\* scalar kinds (act componentwise):  quad  a/2 (u-c)^2 | huber  a*h_d(u-c) | abs  a|u-c| | ind  indicator of [c, d]
\* complex-linear kinds (D = 2):      linz  z |-> M(z-c)  (zero at c) | linf  z |-> M(z-c)+c  (fixed point c),  M = a + i d
Mem(k, a, c, d) == [k |-> k, a |-> a, c |-> c, d |-> d]
IsLin(m) == m.k \in {"linz", "linf"}
Sg(w) == IF w[1] > 0 THEN One ELSE IF w[1] < 0 THEN MOne ELSE Z
SGrad(m, u) == LET w == GSub(u, m.c) IN
   CASE m.k = "quad" -> GMul(m.a, w)
     [] m.k = "huber" -> IF IsBad(w) THEN Bad ELSE IF Leq(RAbs(w), m.d) THEN GMul(m.a, w) ELSE GMul(GMul(m.a, m.d), Sg(w))
     [] OTHER -> Bad
SSing(m, u) == LET w == GSub(u, m.c) IN
   CASE m.k \in {"quad", "huber"} -> TRUE
     [] m.k = "abs" -> IsBad(w) \/ w[1] # 0 \/ m.a[1] = 0
     [] m.k = "ind" -> IsBad(u) \/ (Lt(m.c, u) /\ Lt(u, m.d))
\* is g a subgradient of the member at u (u, g Safe)
SIn(m, u, g) == LET w == GSub(u, m.c) IN
   CASE m.k \in {"quad", "huber"} -> g = SGrad(m, u)
     [] m.k = "abs" -> IF w[1] > 0 THEN g = m.a ELSE IF w[1] < 0 THEN g = RNeg(m.a) ELSE Leq(RNeg(m.a), g) /\ Leq(g, m.a)
     [] m.k = "ind" -> /\ Leq(m.c, u) /\ Leq(u, m.d)
                       /\ (Lt(m.c, u) => g[1] >= 0) /\ (Lt(u, m.d) => g[1] <= 0)
\* finite set of candidate subgradients at u (the forced one when the subdifferential is a singleton)
SCands(m, u) == LET w == GSub(u, m.c) IN
   CASE m.k \in {"quad", "huber"} -> {SGrad(m, u)}
     [] m.k = "abs" -> IF IsBad(w) THEN {Bad} ELSE IF w[1] > 0 THEN {m.a} ELSE IF w[1] < 0 THEN {RNeg(m.a)} ELSE {RNeg(m.a), Z, m.a}
     [] m.k = "ind" -> IF IsBad(u) THEN {Bad} ELSE IF Lt(u, m.c) \/ Lt(m.d, u) THEN {}
                       ELSE (IF Lt(m.c, u) /\ Lt(u, m.d) THEN {Z} ELSE {Z} \cup (IF u = m.c THEN {MOne} ELSE {}) \cup (IF u = m.d THEN {One} ELSE {}))
SVal(m, u) == LET w == GSub(u, m.c) IN
   CASE m.k = "quad" -> GMul(GHalf(m.a), GSq(w))
     [] m.k = "huber" -> IF IsBad(w) THEN Bad ELSE IF Leq(RAbs(w), m.d) THEN GMul(GHalf(m.a), GSq(w))
                         ELSE GSub(GMul(GMul(m.a, m.d), RAbs(w)), GMul(GHalf(m.a), GSq(m.d)))
     [] m.k = "abs" -> IF IsBad(w) THEN Bad ELSE GMul(m.a, RAbs(w))
     [] OTHER -> Z
\* resolvent: the u with (p - u)/gam a subgradient at u
SRes(m, gam, p) == LET w == GSub(p, m.c)  ga == GMul(gam, m.a)  den == GAdd(One, ga) IN
   \* quadratics: the stationarity equation has a unique solution for every gam with 1 + gam a # 0 (also gam < 0: the
   \* sample (p - gam g, g) is then still a (point, gradient) pair of the member); other kinds: gam > 0 only
   CASE m.k = "quad" -> IF IsBad(den) \/ den[1] = 0 THEN Bad ELSE GAdd(m.c, GDiv(w, den))
     [] ~Safe(gam) \/ gam[1] <= 0 -> Bad
     [] m.k = "huber" -> IF IsBad(w) \/ IsBad(den) \/ ~Safe(GMul(m.d, den)) THEN Bad
                         ELSE IF Leq(RAbs(w), GMul(m.d, den)) THEN GAdd(m.c, GDiv(w, den)) ELSE GSub(p, GMul(GMul(ga, m.d), Sg(w)))
     [] m.k = "abs" -> IF IsBad(w) \/ ~Safe(ga) THEN Bad ELSE IF Leq(RAbs(w), ga) THEN m.c ELSE GSub(p, GMul(ga, Sg(w)))
     [] m.k = "ind" -> IF ~Safe(p) THEN Bad ELSE IF Lt(p, m.c) THEN m.c ELSE IF Lt(m.d, p) THEN m.d ELSE p
\* vector level
Cen(m, D) == IF IsLin(m) THEN <<m.c, Z>> ELSE [i \in 1..D |-> m.c]
MM(m) == <<m.a, m.d>>
VApply(m, x) == IF IsLin(m) THEN (LET y == CMul(MM(m), GVSub(x, Cen(m, 2))) IN IF m.k = "linf" THEN GVAdd(y, Cen(m, 2)) ELSE y)
                ELSE [i \in DOMAIN x |-> SGrad(m, x[i])]
VSing(m, x) == IsLin(m) \/ \A i \in DOMAIN x : SSing(m, x[i])
VIn(m, x, g) == IF IsLin(m) THEN g = VApply(m, x) ELSE \A i \in DOMAIN x : SIn(m, x[i], g[i])
VCands(m, x) == IF IsLin(m) THEN {VApply(m, x)}
                ELSE IF Len(x) = 1 THEN {<<s>> : s \in SCands(m, x[1])}
                ELSE {<<s, t>> : s \in SCands(m, x[1]), t \in SCands(m, x[2])}
VVal(m, x) == IF IsLin(m) THEN Z ELSE IF Len(x) = 1 THEN SVal(m, x[1]) ELSE GAdd(SVal(m, x[1]), SVal(m, x[2]))
VRes(m, gam, p) ==
   IF IsLin(m) THEN LET z0 == Cen(m, 2)  den == <<GAdd(One, GMul(gam, m.a)), GMul(gam, m.d)>>
                        rhs == IF m.k = "linz" THEN GVSub(p, z0) ELSE GVSub(p, GVScale(GAdd(One, gam), z0))
                    IN GVAdd(z0, CDiv(rhs, den))
   ELSE [i \in DOMAIN p |-> SRes(m, gam, p[i])]
\* ---- class parameters: par = <<L, mu, M, D, beta, rho>>, Bad = absent / infinite
PL(par) == par[1]
PMu(par) == par[2]
PM(par) == par[3]
PD(par) == par[4]
PBeta(par) == par[5]
Has(x) == ~IsBad(x)
OrZ(x) == IF IsBad(x) THEN Z ELSE x
FunClasses == {"SmoothConvexFunction", "SmoothStronglyConvexFunction", "ConvexFunction", "ConvexLipschitzFunction",
               "ConvexQGFunction", "SmoothFunction", "RsiEbFunction", "SmoothStronglyConvexQuadraticFunction",
               "ConvexIndicatorFunction", "StronglyConvexFunction"}
OpClasses == {"LipschitzOperator", "NonexpansiveOperator", "MonotoneOperator", "StronglyMonotoneOperator",
              "CocoerciveOperator", "LipschitzStronglyMonotoneOperator"}
Classes == FunClasses \cup OpClasses
\* ---- analytic admissibility of a member in a class (the grid check FamilySound validates it against the definitions)
NormSq(m) == GAdd(GSq(m.a), GSq(m.d))
Admissible(cls, par, m) ==
  LET L == PL(par)  mu == OrZ(PMu(par)) IN
  CASE cls = "SmoothConvexFunction" -> m.k \in {"quad", "huber"} /\ m.a[1] >= 0 /\ Leq(m.a, L)
    [] cls = "SmoothStronglyConvexFunction" -> (m.k = "quad" /\ Leq(mu, m.a) /\ Leq(m.a, L)) \/ (mu[1] = 0 /\ m.k = "huber" /\ m.a[1] >= 0 /\ Leq(m.a, L))
    [] cls = "SmoothStronglyConvexQuadraticFunction" -> m.k = "quad" /\ Leq(mu, m.a) /\ Leq(m.a, L)
    [] cls = "StronglyConvexFunction" -> m.k = "quad" /\ Leq(mu, m.a)
    [] cls = "ConvexFunction" -> m.k \in {"quad", "huber", "abs"} /\ m.a[1] >= 0
    [] cls = "ConvexLipschitzFunction" -> m.k = "abs" /\ m.a[1] >= 0 /\ Leq(m.a, PM(par))
    [] cls = "ConvexQGFunction" -> m.k \in {"quad", "huber"} /\ m.a[1] >= 0 /\ Leq(m.a, L)
    [] cls = "SmoothFunction" -> m.k = "quad" /\ Leq(RAbs(m.a), L)
    [] cls = "RsiEbFunction" -> m.k = "quad" /\ Leq(mu, m.a) /\ Leq(m.a, L)
    [] cls = "ConvexIndicatorFunction" -> m.k = "ind" /\ Leq(m.c, m.d) /\ (Has(PD(par)) => Leq(GSub(m.d, m.c), PD(par)))
    [] cls = "LipschitzOperator" -> m.k = "linf" /\ Leq(NormSq(m), GSq(L))
    [] cls = "NonexpansiveOperator" -> m.k = "linf" /\ Leq(NormSq(m), One)
    [] cls = "MonotoneOperator" -> m.k = "linz" /\ m.a[1] >= 0
    [] cls = "StronglyMonotoneOperator" -> m.k = "linz" /\ Leq(mu, m.a)
    [] cls = "CocoerciveOperator" -> m.k = "linz" /\ Leq(GMul(PBeta(par), NormSq(m)), m.a)
    [] cls = "LipschitzStronglyMonotoneOperator" -> m.k = "linz" /\ Leq(mu, m.a) /\ Leq(NormSq(m), GSq(L))
    [] OTHER -> FALSE
\* ---- candidate members; curvature grids are multiples of L/2 (aligned with the step sizes gamma*L in {1/2, 1, 3/2, 2})
Deltas == <<R(1, 2), R(1, 3), R(1, 4), R(1, 5), R(1, 7), R(1, 10)>>
Slopes == <<R(1, 12), R(1, 8), R(1, 6), R(1, 4), R(1, 3), R(1, 2), One, Two>>
Cand(cls, par) ==
  LET L == PL(par)  mu == OrZ(PMu(par))  mid == GHalf(GAdd(mu, OrZ(L)))
      hub(a) == IF Reduced THEN <<Mem("huber", a, Z, R(1, 3)), Mem("huber", a, Z, R(1, 5))>>
                ELSE [i \in 1..Len(Deltas) |-> Mem("huber", a, Z, Deltas[i])]
      abss == IF Reduced THEN <<Mem("abs", Half, Z, Z), Mem("abs", One, Z, Z), Mem("abs", R(1, 4), Z, Z)>>
              ELSE [i \in 1..Len(Slopes) |-> Mem("abs", Slopes[i], Z, Z)]
  IN
  CASE cls = "SmoothConvexFunction" -> <<Mem("quad", L, Z, Z), Mem("quad", GHalf(L), Z, Z), Mem("quad", L, One, Z), Mem("quad", Z, Z, Z)>> \o hub(L)
    [] cls \in {"SmoothStronglyConvexFunction", "SmoothStronglyConvexQuadraticFunction", "RsiEbFunction"} ->
         <<Mem("quad", L, Z, Z), Mem("quad", mu, Z, Z), Mem("quad", mid, Z, Z), Mem("quad", L, One, Z)>> \o (IF cls = "SmoothStronglyConvexFunction" THEN hub(L) ELSE <<>>)
    [] cls = "StronglyConvexFunction" -> <<Mem("quad", mu, Z, Z), Mem("quad", GAdd(mu, One), Z, Z)>>
    [] cls = "ConvexFunction" -> abss \o <<Mem("abs", One, One, Z), Mem("quad", One, Z, Z), Mem("quad", Half, Z, Z), Mem("huber", One, Z, Half)>>
    [] cls = "ConvexLipschitzFunction" -> <<Mem("abs", PM(par), Z, Z), Mem("abs", GHalf(PM(par)), Z, Z), Mem("abs", PM(par), One, Z), Mem("abs", Z, Z, Z)>>
    [] cls = "ConvexQGFunction" -> <<Mem("quad", L, Z, Z), Mem("quad", GHalf(L), Z, Z), Mem("quad", L, One, Z)>> \o hub(L)
    [] cls = "SmoothFunction" -> <<Mem("quad", L, Z, Z), Mem("quad", GHalf(L), Z, Z), Mem("quad", Z, Z, Z), Mem("quad", GNeg(GHalf(L)), Z, Z), Mem("quad", GNeg(L), Z, Z)>>
    [] cls = "ConvexIndicatorFunction" ->
         IF Has(PD(par)) THEN <<Mem("ind", Z, Z, PD(par)), Mem("ind", Z, GNeg(GHalf(PD(par))), GHalf(PD(par))), Mem("ind", Z, Z, GHalf(PD(par))), Mem("ind", Z, Z, Z)>>
         ELSE <<Mem("ind", Z, Z, One), Mem("ind", Z, MOne, One), Mem("ind", Z, Z, Z), Mem("ind", Z, R(-1, 2), Two)>>
    [] cls \in {"LipschitzOperator", "NonexpansiveOperator"} ->
         LET l == IF cls = "NonexpansiveOperator" THEN One ELSE L IN
         <<Mem("linf", Z, Z, l), Mem("linf", GNeg(l), Z, Z), Mem("linf", GMul(R(3, 5), l), Z, GMul(R(4, 5), l)), Mem("linf", GHalf(l), Z, Z),
           Mem("linf", Z, One, l), Mem("linf", Z, Z, Z)>>
    [] cls \in {"MonotoneOperator", "StronglyMonotoneOperator", "LipschitzStronglyMonotoneOperator"} ->
         LET l == IF Has(L) THEN L ELSE One IN
         <<Mem("linz", mu, Z, l), Mem("linz", mu, Z, GHalf(l)), Mem("linz", GMul(R(3, 5), l), Z, GMul(R(4, 5), l)), Mem("linz", l, Z, Z),
           Mem("linz", mu, Z, Z), Mem("linz", mu, One, l), Mem("linz", mu, Z, GMul(Two, l)), Mem("linz", GMul(R(4, 5), l), Z, GMul(R(3, 5), l)),
           \* rotations in the other direction (two operators of one method may turn against each other)
           Mem("linz", mu, Z, GNeg(l)), Mem("linz", mu, Z, GNeg(GMul(Two, l)))>>
    [] cls = "CocoerciveOperator" ->
         LET ib == GDiv(One, PBeta(par)) IN
         <<Mem("linz", ib, Z, Z), Mem("linz", GHalf(ib), Z, GHalf(ib)), Mem("linz", GHalf(ib), Z, Z), Mem("linz", Z, Z, Z)>>
    [] OTHER -> <<>>
MemOK(m) == Safe(m.a) /\ Safe(m.c) /\ Safe(m.d)
Family(cls, par) == LET c == Cand(cls, par) IN SelectSeq(c, LAMBDA m : MemOK(m) /\ Admissible(cls, par, m))
\* ---- the DEFINITIONS of the classes, on a grid (1-D: X1; operators: the complex grid X2)
X1 == {R(n, 2) : n \in -4..4} \cup {R(1, 3), R(-1, 5)}
X2 == {<<RI(a), RI(b)>> : a \in -1..1, b \in -1..1} \cup {<<Half, Two>>}
LeqS(a, b) == Safe(a) /\ Safe(b) /\ RLeq(a, b)
DefFun(cls, par, m) ==
  LET L == PL(par)  mu == OrZ(PMu(par))
      pts == IF m.k = "ind" THEN {x \in X1 : Leq(m.c, x) /\ Leq(x, m.d)} ELSE X1
      pairs == {<<x, g>> : x \in pts, g \in UNION {SCands(m, y) : y \in pts}}
      xg == {q \in pairs : SIn(m, q[1], q[2])}
      f(x) == SVal(m, x)
      convex(s) == \A p \in xg, q \in xg : LeqS(GAdd(GAdd(f(p[1]), GMul(p[2], GSub(q[1], p[1]))), GMul(GHalf(s), GSq(GSub(q[1], p[1])))), f(q[1]))
      lipg(l) == \A p \in xg, q \in xg : LeqS(RAbs(GSub(p[2], q[2])), GMul(l, RAbs(GSub(p[1], q[1]))))
      \* g is the derivative of f (two-sided quadratic bound), needed for the non-convex class
      deriv(l) == \A p \in xg, q \in xg : LeqS(RAbs(GSub(GSub(f(q[1]), f(p[1])), GMul(p[2], GSub(q[1], p[1])))), GMul(GHalf(l), GSq(GSub(q[1], p[1]))))
      xs == m.c
  IN
  CASE cls = "SmoothConvexFunction" -> convex(Z) /\ lipg(L)
    [] cls \in {"SmoothStronglyConvexFunction", "SmoothStronglyConvexQuadraticFunction"} -> convex(mu) /\ lipg(L) /\ (cls = "SmoothStronglyConvexQuadraticFunction" => m.k = "quad")
    [] cls = "StronglyConvexFunction" -> convex(mu)
    [] cls = "ConvexFunction" -> convex(Z)
    [] cls = "ConvexLipschitzFunction" -> convex(Z) /\ \A p \in xg : LeqS(RAbs(p[2]), PM(par))
    [] cls = "ConvexQGFunction" -> convex(Z) /\ \A x \in pts : LeqS(GSub(f(x), f(xs)), GMul(GHalf(L), GSq(GSub(x, xs))))
    [] cls = "SmoothFunction" -> lipg(L) /\ deriv(L)
    [] cls = "RsiEbFunction" -> \A p \in xg : /\ LeqS(GMul(mu, GSq(GSub(p[1], xs))), GMul(p[2], GSub(p[1], xs)))
                                              /\ LeqS(RAbs(p[2]), GMul(L, RAbs(GSub(p[1], xs))))
    [] cls = "ConvexIndicatorFunction" -> /\ \A p \in xg, q \in xg : LeqS(GMul(p[2], GSub(q[1], p[1])), Z)      \* normal cone
                                          /\ \A x \in pts : f(x) = Z
                                          /\ (Has(PD(par)) => \A x \in pts, y \in pts : LeqS(RAbs(GSub(x, y)), PD(par)))
    [] OTHER -> FALSE
DefOp(cls, par, m) ==
  LET L == PL(par)  mu == OrZ(PMu(par))
      A(x) == VApply(m, x)
      d(x, y) == GVSub(x, y)
      ip(x, y) == GVDot(d(A(x), A(y)), d(x, y))
      nA(x, y) == GVDot(d(A(x), A(y)), d(A(x), A(y)))
      nX(x, y) == GVDot(d(x, y), d(x, y))
      lip(l) == \A x \in X2, y \in X2 : LeqS(nA(x, y), GMul(GSq(l), nX(x, y)))
      mono(s) == \A x \in X2, y \in X2 : LeqS(GMul(s, nX(x, y)), ip(x, y))
  IN
  CASE cls = "LipschitzOperator" -> lip(L) /\ A(Cen(m, 2)) = Cen(m, 2)
    [] cls = "NonexpansiveOperator" -> lip(One) /\ A(Cen(m, 2)) = Cen(m, 2)
    [] cls = "MonotoneOperator" -> mono(Z)
    [] cls = "StronglyMonotoneOperator" -> mono(mu)
    [] cls = "CocoerciveOperator" -> \A x \in X2, y \in X2 : LeqS(GMul(PBeta(par), nA(x, y)), ip(x, y))
    [] cls = "LipschitzStronglyMonotoneOperator" -> mono(mu) /\ lip(L)
    [] OTHER -> FALSE
\* the resolvent of the member really is its resolvent: (p - u)/gam is a subgradient at u
ResOK(m) == LET D == IF IsLin(m) THEN 2 ELSE 1
                P == IF D = 1 THEN {<<x>> : x \in X1} ELSE X2 IN
            \A p \in P, gam \in {Half, One, Two} :
               LET u == VRes(m, gam, p) IN
               \* an undefined resolvent (Bad) abandons the run; a defined one must satisfy the inclusion
               ~VSafe(u) \/ VIn(m, u, GVScale(GDiv(One, gam), GVSub(p, u)))
\* parameter settings on which the families are validated
ParGrid == {<<l, mu, mm, dd, b, Bad>> : l \in {One, Two, Half, Bad}, mu \in {Bad, Z, R(1, 4), Half}, mm \in {Bad, One}, dd \in {Bad, One}, b \in {Bad, One, Half}}
ParFor(cls) == {p \in ParGrid :
     /\ (cls \in {"SmoothConvexFunction", "ConvexQGFunction", "SmoothFunction", "LipschitzOperator"} => Has(p[1]) /\ IsBad(p[2]))
     /\ (cls \in {"SmoothStronglyConvexFunction", "SmoothStronglyConvexQuadraticFunction", "RsiEbFunction", "LipschitzStronglyMonotoneOperator"} => Has(p[1]) /\ Has(p[2]) /\ Leq(p[2], p[1]))
     /\ (cls \in {"StronglyConvexFunction", "StronglyMonotoneOperator"} => IsBad(p[1]) /\ Has(p[2]))
     /\ (cls \in {"ConvexFunction", "MonotoneOperator", "NonexpansiveOperator", "ConvexIndicatorFunction", "ConvexLipschitzFunction", "CocoerciveOperator"} => IsBad(p[1]) /\ IsBad(p[2]))
     /\ (cls = "ConvexLipschitzFunction" <=> Has(p[3]))
     /\ (cls # "ConvexIndicatorFunction" => IsBad(p[4]))
     /\ (cls = "CocoerciveOperator" <=> Has(p[5]))}
FamilySoundAt(cls, par) == \A i \in 1..Len(Family(cls, par)) :
     LET m == Family(cls, par)[i] IN (IF cls \in OpClasses THEN DefOp(cls, par, m) ELSE DefFun(cls, par, m)) /\ ResOK(m)
\* ------------------------------------------------------------------------------------------ C  programs
RVj(j) == [i \in 1..Len(j.n) |-> <<j.n[i], j.d[i]>>]
Supp(j) == {j.s[i] : i \in 1..Len(j.s)}          \* j.s = indices of the non-zero coefficients (SuppOK checks it)
SuppDef(j) == {i \in 1..Len(j.n) : j.n[i] # 0}
FSupp(e) == {i \in 1..Len(e.Fn) : e.Fn[i] # 0}
PairsOf(np) == PairSeq(np)
GSuppPts(e, np) == LET ps == PairsOf(np) IN UNION {{ps[i][1], ps[i][2]} : i \in {i \in 1..Len(e.Gn) : e.Gn[i] # 0}}
ParOf(fr) == [i \in 1..Len(fr.par) |-> <<fr.par[i][1], fr.par[i][2]>>]
Supported(T) == T.status = "ok" /\ \A i \in 1..Len(T.funcs) : T.funcs[i].cls \in Classes /\ Len(Family(T.funcs[i].cls, ParOf(T.funcs[i]))) > 0
\* programs with several functions: the first members of each family only (the product is what is explored)
FamCap(T) == IF Len(T.funcs) = 1 THEN 99 ELSE IF Len(T.funcs) = 2 THEN (IF Reduced THEN 3 ELSE 5) ELSE (IF Reduced THEN 2 ELSE 3)
FamOf(T, i) == LET f == Family(T.funcs[i].cls, ParOf(T.funcs[i])) IN SubSeq(f, 1, IF Len(f) < FamCap(T) THEN Len(f) ELSE FamCap(T))
RECURSIVE ProdLen(_, _)
ProdLen(T, i) == IF i > Len(T.funcs) THEN 1 ELSE Len(FamOf(T, i)) * ProdLen(T, i + 1)
NTuples(T) == IF Supported(T) THEN ProdLen(T, 1) ELSE 0
RECURSIVE Radix(_, _, _)
Radix(T, i, r) == IF i > Len(T.funcs) THEN <<>> ELSE
                  LET l == Len(FamOf(T, i)) IN <<FamOf(T, i)[(r % l) + 1]>> \o Radix(T, i + 1, r \div l)
TupleOf(T, mi) == Radix(T, 1, mi - 1)
DimOf(mem) == IF \E i \in 1..Len(mem) : IsLin(mem[i]) THEN 2 ELSE 1
\* leaves that matter
UsedDef(T) == UNION {SuppDef(T.samples[s].x) \cup SuppDef(T.samples[s].g) : s \in 1..Len(T.samples)}
              \cup UNION {GSuppPts(T.init[i].e, T.np) : i \in 1..Len(T.init)}
              \cup UNION {GSuppPts(T.metrics[i], T.np) : i \in 1..Len(T.metrics)}
UsedPts(T) == {T.used[i] : i \in 1..Len(T.used)}      \* precomputed by the driver; ProgOK checks it against UsedDef
ProgOK(T) == /\ UsedPts(T) = UsedDef(T)
             /\ \A s \in 1..Len(T.samples) : Supp(T.samples[s].x) = SuppDef(T.samples[s].x) /\ Supp(T.samples[s].g) = SuppDef(T.samples[s].g)
Unset == <<>>
Un(pv) == {k \in DOMAIN pv : pv[k] = Unset}
\* sum_{i # skip} coef_i * pv_i  (all needed leaves assigned)
RECURSIVE LinFrom(_, _, _, _, _)
LinFrom(j, pv, skip, i, D) == IF i > Len(j.s) THEN VZero(D) ELSE
    LET k == j.s[i]  rest == LinFrom(j, pv, skip, i + 1, D) IN
    IF k = skip THEN rest ELSE GVAdd(GVScale(<<j.n[k], j.d[k]>>, pv[k]), rest)
Lin(j, pv, skip, D) == LinFrom(j, pv, skip, 1, D)
SUn(T, pv, s) == (Supp(T.samples[s].x) \cup Supp(T.samples[s].g)) \cap Un(pv)
\* a completely evaluated sample must be a (point, subgradient) pair of its member: "ok" | "no" | "big"
SampleCheck(T, mem, pv, s, D) ==
   LET sm == T.samples[s]  x == Lin(sm.x, pv, 0, D)  g == Lin(sm.g, pv, 0, D) IN
   IF ~VSafe(x) \/ ~VSafe(g) THEN "big" ELSE IF VIn(mem[sm.fn], x, g) THEN "ok" ELSE "no"
Complete(T, pv) == {s \in 1..Len(T.samples) : SUn(T, pv, s) = {}}
\* what a step may do next
Det(T, pv) == {s \in 1..Len(T.samples) : Cardinality(SUn(T, pv, s)) = 1 /\ SUn(T, pv, s) \subseteq Supp(T.samples[s].g)}
LeafOf(T, pv, s) == CHOOSE k \in SUn(T, pv, s) : TRUE
Min(Sx) == CHOOSE a \in Sx : \A b \in Sx : a <= b
IsFixedPointSample(sm) == Cardinality(Supp(sm.x)) = 1 /\ sm.x = sm.g
PureGLeaves(T) == {k \in 1..T.np : \E s \in 1..Len(T.samples) : Supp(T.samples[s].g) = {k} /\ ~IsFixedPointSample(T.samples[s])}
GuessLeaves(T, pv) == {k \in Un(pv) \cap UsedPts(T) : k \notin PureGLeaves(T)}
\* guesses: the distinguished points of the members and points at distance 1/2 and 1 from them (the members are
\* symmetric about their centre: one negative offset is kept to catch sign errors)
Offsets(D) == IF D = 1 THEN {<<One>>, <<Half>>, <<MOne>>} ELSE {<<One, Z>>, <<Half, Z>>, <<Z, One>>, <<MOne, Z>>, <<Half, Half>>}
MemPts(mem, D) == UNION {{Cen(mem[i], D)} \cup (IF mem[i].k = "ind" THEN {[c \in 1..D |-> mem[i].d]} \cup (IF D = 2 THEN {<<mem[i].c, mem[i].d>>, <<mem[i].d, mem[i].c>>} ELSE {}) ELSE {}) : i \in 1..Len(mem)}
\* the kinds of step, for the coverage record
StepKind(T, mem, pv, D) ==
   IF Det(T, pv) # {} THEN
      LET k == Min({LeafOf(T, pv, s) : s \in Det(T, pv)})
          Sk == {s \in Det(T, pv) : LeafOf(T, pv, s) = k}
          expl == {s \in Sk : k \notin Supp(T.samples[s].x)}
          smooth == {s \in expl : VSing(mem[T.samples[s].fn], Lin(T.samples[s].x, pv, 0, D))}
          impl == {s \in Sk : k \in Supp(T.samples[s].x) /\ Supp(T.samples[s].g) = {k} /\ ~IsFixedPointSample(T.samples[s])}
      IN IF smooth # {} THEN <<"explicit", k, Min(smooth)>>
         ELSE IF impl # {} THEN <<"implicit", k, Min(impl)>>
         ELSE IF expl # {} THEN <<"subgradient", k, Min(expl)>>
         ELSE IF GuessLeaves(T, pv) # {} THEN <<"guess", Min(GuessLeaves(T, pv)), 0>> ELSE <<"stuck", k, 0>>
   ELSE IF GuessLeaves(T, pv) # {} THEN <<"guess", Min(GuessLeaves(T, pv)), 0>>
   ELSE <<"stuck", 0, 0>>
\* candidate values of the leaf chosen by StepKind
Values(T, mem, pv, D, sk) ==
   LET k == sk[2]  s == sk[3] IN
   CASE sk[1] \in {"explicit", "subgradient"} ->
          LET sm == T.samples[s]  x == Lin(sm.x, pv, 0, D)  rest == Lin(sm.g, pv, k, D)  ck == <<sm.g.n[k], sm.g.d[k]>>
          IN {GVScale(GDiv(One, ck), GVSub(sig, rest)) : sig \in VCands(mem[sm.fn], x)}
     [] sk[1] = "implicit" ->
          LET sm == T.samples[s]  p == Lin(sm.x, pv, k, D)  kap == <<sm.x.n[k], sm.x.d[k]>>  ck == <<sm.g.n[k], sm.g.d[k]>>
              lam == GNeg(GDiv(kap, ck))
          IN IF IsBad(lam) \/ lam[1] = 0 THEN {}
             ELSE LET u == VRes(mem[sm.fn], lam, p) IN {GVScale(GDiv(One, kap), GVSub(u, p))}
     [] sk[1] = "guess" -> MemPts(mem, D) \cup {GVAdd(c, o) : c \in MemPts(mem, D), o \in Offsets(D)}
     [] OTHER -> {}
\* function values: every sample fixes f = member(x); solved leaf by leaf
GEVal(e, pv, fv, np) ==
   LET ps == PairsOf(np)
       RECURSIVE SG(_)
       SG(i) == IF i > Len(ps) THEN Z ELSE GAdd(IF e.Gn[i] = 0 THEN Z ELSE GMul(<<e.Gn[i], e.Gd[i]>>, GVDot(pv[ps[i][1]], pv[ps[i][2]])), SG(i + 1))
       RECURSIVE SF(_)
       SF(i) == IF i > Len(e.Fn) THEN Z ELSE GAdd(IF e.Fn[i] = 0 THEN Z ELSE GMul(<<e.Fn[i], e.Fd[i]>>, fv[i]), SF(i + 1))
   IN GAdd(GAdd(SG(1), SF(1)), <<e.c[1], e.c[2]>>)
FUnset == <<1, 0>>          \* marker (distinct from Bad = <<0,0>>)
RECURSIVE FPass(_, _, _, _, _, _)
FPass(T, mem, pv, fv, s, D) ==
   IF s > Len(T.samples) THEN fv ELSE
   LET sm == T.samples[s]  un == {i \in FSupp(sm.f) : fv[i] = FUnset} IN
   IF Cardinality(un) # 1 THEN FPass(T, mem, pv, fv, s + 1, D) ELSE
   LET i == CHOOSE i \in un : TRUE
       val == VVal(mem[sm.fn], Lin(sm.x, pv, 0, D))
       other == GEVal([sm.f EXCEPT !.Fn[i] = 0], pv, [j \in DOMAIN fv |-> IF fv[j] = FUnset THEN Z ELSE fv[j]], T.np)
       v == GDiv(GSub(val, other), <<sm.f.Fn[i], sm.f.Fd[i]>>)
   IN FPass(T, mem, pv, [fv EXCEPT ![i] = v], s + 1, D)
RECURSIVE FSolve(_, _, _, _, _, _)
FSolve(T, mem, pv, fv, n, D) == IF n = 0 THEN fv ELSE LET f2 == FPass(T, mem, pv, fv, 1, D) IN IF f2 = fv THEN fv ELSE FSolve(T, mem, pv, f2, n - 1, D)
FVals(T, mem, pv, D) == FSolve(T, mem, pv, [i \in 1..T.ne |-> FUnset], Len(T.samples) + 1, D)
\* ------------------------------------------------------------------------------------------ D  the property
Tol(tau) == 21 + (Abs(tau) \div 100000)
Outcome(T, mem, pv, D) ==
   LET fv0 == FVals(T, mem, pv, D)
       need == UNION {FSupp(T.init[i].e) : i \in 1..Len(T.init)} \cup UNION {FSupp(T.metrics[i]) : i \in 1..Len(T.metrics)}
       fv == [i \in DOMAIN fv0 |-> IF fv0[i] = FUnset THEN Z ELSE fv0[i]]
       fcons == \A s \in 1..Len(T.samples) : FSupp(T.samples[s].f) = {} \/ (\E i \in FSupp(T.samples[s].f) : fv0[i] = FUnset)
                    \/ GEVal(T.samples[s].f, pv, fv, T.np) = VVal(mem[T.samples[s].fn], Lin(T.samples[s].x, pv, 0, D))
       iv == [i \in 1..Len(T.init) |-> GEVal(T.init[i].e, pv, fv, T.np)]
       mv == [i \in 1..Len(T.metrics) |-> GEVal(T.metrics[i], pv, fv, T.np)]
       safe == (\A i \in DOMAIN iv : Safe(iv[i])) /\ (\A i \in DOMAIN mv : Safe(mv[i])) /\ \A i \in DOMAIN fv : IsBad(fv[i]) => i \notin need
       feas == \A i \in DOMAIN iv : IF T.init[i].sense = "eq" THEN iv[i][1] = 0 ELSE iv[i][1] <= 0
       perf == LET RECURSIVE Mn(_, _)  Mn(i, b) == IF i > Len(mv) THEN b ELSE Mn(i + 1, RMin(mv[i], b)) IN Mn(2, mv[1])
   IN IF \E i \in need : fv0[i] = FUnset THEN [code |-> "stuck", micro |-> 0]
      ELSE IF ~safe THEN [code |-> "big", micro |-> 0]
      ELSE IF ~fcons THEN [code |-> "cut", micro |-> 0]
      ELSE IF ~feas THEN [code |-> "infeasible", micro |-> 0]
      ELSE [code |-> IF ToMicro(perf) > T.tau + Tol(T.tau) THEN "BEATS" ELSE "ok", micro |-> ToMicro(perf)]
\* ------------------------------------------------------------------------------------------ built-in programs
\* hand-written object graphs of gradient descent (n = 1, gamma = 1, L = 1; tau = L/(4 n L gamma + 2) = 1/6) and of the
\* proximal point method (n = 1, gamma = 1; tau = 1/(4 gamma n) = 1/4), to validate the machine before any code is involved
JP(v) == [n |-> [i \in 1..Len(v) |-> v[i][1]], d |-> [i \in 1..Len(v) |-> v[i][2]],
          s |-> SelectSeq([i \in 1..Len(v) |-> i], LAMBDA i : v[i][1] # 0)]
JE(fv, gv, c) == [Fn |-> [i \in 1..Len(fv) |-> fv[i][1]], Fd |-> [i \in 1..Len(fv) |-> fv[i][2]],
                  Gn |-> [i \in 1..Len(gv) |-> gv[i][1]], Gd |-> [i \in 1..Len(gv) |-> gv[i][2]], c |-> c]
ZG4 == [i \in 1..10 |-> Z]
DistSq12 == [ZG4 EXCEPT ![1] = One, ![2] = R(-2, 1), ![5] = One]       \* (p1 - p2)^2 over 4 leaf points
NoPar == <<Bad, Bad, Bad, Bad, Bad, Bad>>
JPar(p) == [i \in 1..6 |-> <<p[i][1], p[i][2]>>]
BuiltinProgs == <<
  [ex |-> "builtin_gd", kws |-> "n=1", status |-> "ok", np |-> 4, ne |-> 3, tau |-> 166667, used |-> <<1, 2, 3, 4>>,
   funcs |-> <<[cls |-> "SmoothConvexFunction", par |-> JPar(<<One, Bad, Bad, Bad, Bad, Bad>>)]>>,
   samples |-> <<[fn |-> 1, x |-> JP(<<One, Z, Z, Z>>), g |-> JP(<<Z, Z, Z, Z>>), f |-> JE(<<One, Z, Z>>, ZG4, <<0, 1>>)],
                 [fn |-> 1, x |-> JP(<<Z, One, Z, Z>>), g |-> JP(<<Z, Z, One, Z>>), f |-> JE(<<Z, One, Z>>, ZG4, <<0, 1>>)],
                 [fn |-> 1, x |-> JP(<<Z, One, MOne, Z>>), g |-> JP(<<Z, Z, Z, One>>), f |-> JE(<<Z, Z, One>>, ZG4, <<0, 1>>)]>>,
   init |-> <<[e |-> JE(<<Z, Z, Z>>, DistSq12, <<-1, 1>>), sense |-> "ineq"]>>,
   metrics |-> <<JE(<<MOne, Z, One>>, ZG4, <<0, 1>>)>>],
  [ex |-> "builtin_ppa", kws |-> "n=1", status |-> "ok", np |-> 3, ne |-> 2, tau |-> 250000, used |-> <<1, 2, 3>>,
   funcs |-> <<[cls |-> "ConvexFunction", par |-> JPar(NoPar)]>>,
   samples |-> <<[fn |-> 1, x |-> JP(<<One, Z, Z>>), g |-> JP(<<Z, Z, Z>>), f |-> JE(<<One, Z>>, [i \in 1..6 |-> Z], <<0, 1>>)],
                 [fn |-> 1, x |-> JP(<<Z, One, MOne>>), g |-> JP(<<Z, Z, One>>), f |-> JE(<<Z, One>>, [i \in 1..6 |-> Z], <<0, 1>>)]>>,
   init |-> <<[e |-> JE(<<Z, Z>>, [[i \in 1..6 |-> Z] EXCEPT ![1] = One, ![2] = R(-2, 1), ![4] = One], <<-1, 1>>), sense |-> "ineq"]>>,
   metrics |-> <<JE(<<MOne, One>>, [i \in 1..6 |-> Z], <<0, 1>>)>>] >>
\* the machine is sharp on the built-in programs: some run reaches the bound up to the tolerance
\* (checked by the harness from the printed records)
\* a constant-level definition: TLC evaluates it once (a cfg substitution "Progs <- ..." is re-evaluated at every use)
Progs == IF TraceMode THEN ndJsonDeserialize(IOEnv.TRACE_FILE) ELSE BuiltinProgs
\* ---- the machine
VARIABLES tid, mi, mem, pv, st, res, item, hist
vars == <<tid, mi, mem, pv, st, res, item, hist>>
NoRes == [code |-> "-", micro |-> 0]
Init == /\ tid \in 1..Len(Progs)
        /\ mi \in 1..NTuples(Progs[tid])
        /\ mem = TupleOf(Progs[tid], mi)
        /\ pv = [k \in 1..Progs[tid].np |-> IF k \in UsedPts(Progs[tid]) THEN Unset ELSE VZero(DimOf(TupleOf(Progs[tid], mi)))]
        /\ ProgOK(Progs[tid])
        /\ st = "run" /\ res = NoRes /\ item = [t |-> "run", ex |-> "-", p |-> <<>>, c |-> "-", par |-> <<>>]
        /\ hist = [explicit |-> 0, implicit |-> 0, subgradient |-> 0, guess |-> 0]
TT == Progs[tid]
DD == DimOf(mem)
\* verdicts of the samples that became completely evaluated by giving leaf k its value
Checks(pv2, k) == LET un == Un(pv2) IN
   {SampleCheck(TT, mem, pv2, s, DD) : s \in {q \in 1..Len(TT.samples) :
         /\ k \in Supp(TT.samples[q].x) \cup Supp(TT.samples[q].g)
         /\ (Supp(TT.samples[q].x) \cup Supp(TT.samples[q].g)) \cap un = {}}}
\* one step: the leaf chosen by StepKind gets one of its candidate values (the kind of step is recorded in hist)
Step == /\ st = "run" /\ Un(pv) \cap UsedPts(TT) # {}
        /\ LET sk == StepKind(TT, mem, pv, DD) IN
           IF sk[1] = "stuck" THEN st' = "stuck" /\ UNCHANGED <<pv, hist>>
           ELSE /\ \E v \in Values(TT, mem, pv, DD, sk) :
                     LET pv2 == [pv EXCEPT ![sk[2]] = v] IN
                     /\ pv' = pv2
                     /\ LET ch == IF VSafe(v) THEN Checks(pv2, sk[2]) ELSE {"big"} IN
                        IF "big" \in ch THEN st' = "big" ELSE "no" \notin ch /\ st' = "run"
                /\ hist' = [hist EXCEPT ![sk[1]] = 1]
        /\ UNCHANGED <<tid, mi, mem, res, item>>
Finish == /\ st = "run" /\ Un(pv) \cap UsedPts(TT) = {}
          /\ res' = Outcome(TT, mem, pv, DD) /\ st' = "done" /\ UNCHANGED <<tid, mi, mem, pv, item, hist>>
Next == Step \/ Finish
Spec == Init /\ [][Next]_vars
\* C09
NoRunBeatsBound == st = "done" => res.code # "BEATS"
\* one JSON line per completed / abandoned run: ["R", tid, member tuple, code, metric in 1e-6 units, step kinds used]
Report == (st \in {"done", "stuck", "big"} /\ (st = "done" => res.code \in {"ok", "BEATS", "stuck", "big"})) =>
             PrintT(ToJson(<<"R", tid, mi, IF st = "done" THEN res.code ELSE st, res.micro,
                             hist.explicit, hist.implicit, hist.subgradient, hist.guess, [i \in 1..Len(mem) |-> mem[i].k],
                             IF st = "done" /\ res.code = "BEATS" THEN [i \in 1..Len(mem) |-> <<mem[i].a, mem[i].c, mem[i].d>>] ELSE <<>>>>))
\* ------------------------------------------------------------------------------------------ E  parameter grid
KV(k, r) == [k |-> k, n |-> r[1], d |-> r[2]]
RECURSIVE Prod(_)
Prod(spec) == IF spec = <<>> THEN {<<>>} ELSE {<<KV(spec[1][1], r)>> \o rest : r \in spec[1][2], rest \in Prod(Tail(spec))}
Ns == {RI(n) : n \in 1..NMax}
Get(a, k) == LET i == CHOOSE i \in 1..Len(a) : a[i].k = k IN <<a[i].n, a[i].d>>
\* example id -> parameter candidates; the documented ranges are the predicates of InRange
GridSpec == <<
  <<"gradient_descent", << <<"L", {One, Two}>>, <<"gamma", {R(1, 4), Half, One, R(3, 2)}>>, <<"n", Ns>> >> >>,
  <<"gradient_descent_qg_convex", << <<"L", {One, Two}>>, <<"gamma", {R(1, 4), Half, One}>>, <<"n", Ns>> >> >>,
  <<"gradient_descent_qg_convex_decreasing", << <<"L", {One, Two}>>, <<"n", {One}>> >> >>,
  <<"proximal_point", << <<"gamma", {Half, One, Two}>>, <<"n", Ns>> >> >>,
  <<"subgradient_method", << <<"M", {One, Two}>>, <<"gamma", {Half, One}>>, <<"n", Ns>> >> >>,
  <<"subgradient_method_rsi_eb", << <<"mu", {R(1, 4), Half}>>, <<"L", {One}>>, <<"gamma", {R(1, 4), Half}>>, <<"n", Ns>> >> >>,
  <<"accelerated_gradient_convex", << <<"mu", {Z}>>, <<"L", {One, Two}>>, <<"n", Ns>> >> >>,
  <<"accelerated_gradient_strongly_convex", << <<"mu", {R(1, 4)}>>, <<"L", {One}>>, <<"n", Ns>> >> >>,
  <<"accelerated_proximal_point", << <<"A0", {One, Two}>>, <<"gamma0", {Half, R(1, 4)}>>, <<"n", Ns>> >> >>,
  <<"heavy_ball_momentum", << <<"mu", {R(7, 12), Z}>>, <<"L", {One}>>, <<"alpha", {R(3, 4), One}>>, <<"beta", {R(3, 8), Half, Z}>>, <<"n", Ns>> >> >>,
  <<"heavy_ball_momentum_qg_convex", << <<"L", {One, Two}>>, <<"n", Ns>> >> >>,
  <<"triple_momentum", << <<"mu", {R(1, 4)}>>, <<"L", {One}>>, <<"n", Ns>> >> >>,
  <<"optimized_gradient", << <<"L", {One, Two}>>, <<"n", {One, Two}>> >> >>,
  <<"optimized_gradient_for_gradient", << <<"L", {One, Two}>>, <<"n", {One}>> >> >>,
  <<"information_theoretic_exact_method", << <<"mu", {R(1, 4), Z}>>, <<"L", {One}>>, <<"n", {One}>> >> >>,
  <<"proximal_gradient", << <<"L", {One}>>, <<"mu", {R(1, 4), Z}>>, <<"gamma", {Half, One, R(3, 2)}>>, <<"n", Ns>> >> >>,
  <<"accelerated_proximal_gradient", << <<"mu", {Z}>>, <<"L", {One}>>, <<"n", Ns>> >> >>,
  <<"douglas_rachford_splitting", << <<"L", {One}>>, <<"alpha", {One, Half}>>, <<"theta", {One, Half}>>, <<"n", Ns>> >> >>,
  <<"douglas_rachford_splitting_contraction", << <<"mu", {R(1, 4)}>>, <<"L", {One}>>, <<"alpha", {One, Two}>>, <<"theta", {One}>>, <<"n", {One, Two} \cap Ns>> >> >>,
  <<"accelerated_douglas_rachford_splitting", << <<"mu", {R(1, 4)}>>, <<"L", {One}>>, <<"alpha", {Half, R(1, 3)}>>, <<"n", Ns>> >> >>,
  <<"three_operator_splitting", << <<"mu1", {R(1, 4)}>>, <<"L1", {One}>>, <<"L3", {One}>>, <<"alpha", {Half, One}>>, <<"theta", {One}>>, <<"n", {One}>> >> >>,
  <<"frank_wolfe", << <<"L", {One}>>, <<"D", {One, Two}>>, <<"n", Ns>> >> >>,
  <<"halpern_iteration", << <<"n", Ns>> >> >>,
  <<"krasnoselskii_mann_constant_step_sizes", << <<"n", Ns>>, <<"gamma", {Half, R(3, 4), One}>> >> >>,
  <<"krasnoselskii_mann_increasing_step_sizes", << <<"n", Ns>> >> >>,
  <<"optimal_contractive_halpern_iteration", << <<"n", Ns>>, <<"gamma", {Two, R(3, 2)}>> >> >>,
  <<"mi_proximal_point", << <<"alpha", {One, Two}>>, <<"n", Ns>> >> >>,
  <<"mi_accelerated_proximal_point", << <<"alpha", {One, Two}>>, <<"n", Ns>> >> >>,
  <<"mi_optimal_strongly_monotone_proximal_point", << <<"n", Ns>>, <<"mu", {Half, R(1, 4)}>> >> >>,
  <<"mi_douglas_rachford_splitting", << <<"L", {One, Two}>>, <<"mu", {R(1, 4), Half}>>, <<"alpha", {One, Half}>>, <<"theta", {One, Half}>> >> >>,
  <<"mi_three_operator_splitting", << <<"L", {One}>>, <<"mu", {R(1, 4)}>>, <<"beta", {One}>>, <<"alpha", {One, Half}>>, <<"theta", {One}>> >> >>,
  <<"mi_optimistic_gradient", << <<"n", Ns>>, <<"gamma", {R(1, 4)}>>, <<"L", {One, R(1, 2)}>> >> >>,
  <<"mi_past_extragradient", << <<"n", Ns>>, <<"gamma", {R(1, 4)}>>, <<"L", {One}>> >> >>,
  <<"nonconvex_gradient_descent", << <<"L", {One, Two}>>, <<"gamma", {Half, One}>>, <<"n", Ns>> >> >>,
  <<"gradient_descent_contraction", << <<"L", {One}>>, <<"mu", {R(1, 4)}>>, <<"gamma", {Half, One, R(3, 2)}>>, <<"n", Ns>> >> >>,
  <<"gradient_descent_lyapunov_1", << <<"L", {One, Two}>>, <<"gamma", {One, Half}>>, <<"n", Ns>> >> >>,
  <<"gradient_descent_lyapunov_2", << <<"L", {One, Two}>>, <<"gamma", {One, Half}>>, <<"n", Ns>> >> >>,
  <<"potential_accelerated_gradient_method", << <<"L", {One, Two}>>, <<"gamma", {One, Half}>>, <<"lam", {Z, R(3, 8)}>> >> >>,
  <<"polyak_steps_in_distance_to_optimum", << <<"L", {One}>>, <<"mu", {R(1, 4)}>>, <<"gamma", {One, Two, R(4, 3)}>> >> >>,
  <<"polyak_steps_in_function_value", << <<"L", {One}>>, <<"mu", {R(1, 4)}>>, <<"gamma", {One, R(3, 2)}>> >> >>,
  <<"gradient_descent_silver_stepsize_convex", << <<"L", {One}>>, <<"n", {One}>> >> >>,
  <<"gradient_descent_silver_stepsize_strongly_convex", << <<"L", {One}>>, <<"mu", {R(1, 4)}>>, <<"n", {One}>> >> >> >>
\* documented ranges (docstrings of the examples): step sizes / parameters outside are not part of the claim
InRange(ex, a) ==
  CASE ex = "gradient_descent" -> Lt(Z, Get(a, "gamma")) /\ Leq(GMul(Get(a, "gamma"), Get(a, "L")), R(3, 2))
    [] ex = "nonconvex_gradient_descent" -> Lt(Z, Get(a, "gamma")) /\ Leq(GMul(Get(a, "gamma"), Get(a, "L")), One)       \* "when gamma <= 1/L"
    [] ex \in {"gradient_descent_lyapunov_1", "gradient_descent_lyapunov_2", "potential_accelerated_gradient_method"} -> GMul(Get(a, "gamma"), Get(a, "L")) = One   \* "when gamma = 1/L"
    [] ex = "gradient_descent_qg_convex" -> Leq(GMul(Get(a, "gamma"), Get(a, "L")), One)
    [] ex = "heavy_ball_momentum" -> /\ Leq(GMul(Get(a, "alpha"), Get(a, "L")), One)           \* alpha in (0, 1/L], beta = sqrt((1 - alpha mu)(1 - L alpha))
                                     /\ GSq(Get(a, "beta")) = GMul(GSub(One, GMul(Get(a, "alpha"), Get(a, "mu"))), GSub(One, GMul(Get(a, "L"), Get(a, "alpha"))))
    [] ex = "krasnoselskii_mann_constant_step_sizes" -> Leq(Half, Get(a, "gamma")) /\ Leq(Get(a, "gamma"), One)
    [] ex = "optimal_contractive_halpern_iteration" -> Leq(One, Get(a, "gamma"))
    [] ex = "accelerated_douglas_rachford_splitting" -> Lt(GMul(Get(a, "alpha"), Get(a, "L")), One)
    [] ex = "polyak_steps_in_distance_to_optimum" -> Leq(One, GMul(Get(a, "gamma"), Get(a, "L")))
    [] OTHER -> TRUE
Instances == UNION {{[ex |-> GridSpec[i][1], p |-> a] : a \in {b \in Prod(GridSpec[i][2]) : InRange(GridSpec[i][1], b)}} : i \in 1..Len(GridSpec)}
\* ---- the grid / family-validation model (cfg: INIT GInit, NEXT GNext)
GInit == /\ hist = <<>> /\ tid = 0 /\ mi = 0 /\ mem = <<>> /\ pv = <<>> /\ st = "grid" /\ res = NoRes
         /\ item \in {[t |-> "inst", ex |-> x.ex, p |-> x.p, c |-> "-", par |-> <<>>] : x \in Instances}
                      \cup {[t |-> "fam", ex |-> "-", p |-> <<>>, c |-> c, par |-> q] : c \in Classes, q \in ParGrid}
GNext == UNCHANGED vars
FamilySound == item.t = "fam" => (item.par \in ParFor(item.c) => FamilySoundAt(item.c, item.par))
FamilyNonEmpty == item.t = "fam" => (item.par \in ParFor(item.c) => Len(Family(item.c, item.par)) > 0)
EmitGrid == item.t = "inst" => PrintT(ToJson([ex |-> item.ex, p |-> item.p]))
=============================================================================
