----------------------------- MODULE ClassHist -----------------------------
(* C04 / C17.  Declaration histories of ONE function of a shipped class, as a state machine:               *)
(*   O   oracle at a fresh leaf point            S   stationary_point()          X   fixed_point()         *)
(*   R k oracle again at the point of sample k (non-differentiable classes: a further subgradient)         *)
(*   T   oracle of the adjoint at a fresh point  U   oracle of the adjoint at the last image A x           *)
(*       (LinearOperator only)                                                                            *)
(* Run(..) is the model of what PEPit records for a history (leaf numbering included); Final(..) adds what *)
(* set_class_constraints() creates (the stationary point of the QG / RSI-EB classes, the block projections).*)
(* TLC enumerates all histories up to Depth, prints them (Emit), and checks that the documented set of     *)
(* conditions (Classes!ExpNFs / ExpLMIs) depends only on the SET of samples (OrderIndep).                  *)
(* A second, independent little machine (PInit / PNext) enumerates the permutations of K declarations for  *)
(* the end-to-end order-independence clause.                                                              *)
EXTENDS Classes, Json
CONSTANTS Depth,      \* maximal number of declarations
          ClsSet,     \* classes to enumerate
          NPar,       \* number of parameter points per class (2 or 3)
          AllPerms,   \* TRUE: OrderIndep quantifies over all permutations, FALSE: over generators of the group
          K           \* size of the permuted declaration list (PInit / PNext)

H == <<1, 2>>  Q == <<1, 4>>
ParamPoints(cls) ==
  CASE cls \in {"ConvexFunction", "MonotoneOperator"} -> << <<>>, <<>>, <<>> >>
    [] cls \in {"StronglyConvexFunction", "StronglyMonotoneOperator"} -> << <<H>>, <<Q>>, <<Z>> >>
    [] cls \in {"SmoothFunction", "SmoothConvexFunction", "ConvexQGFunction", "LinearOperator", "LipschitzOperator",
                "SkewSymmetricLinearOperator", "ConvexLipschitzFunction"} -> << <<One>>, <<Two>>, <<H>> >>
    [] cls \in {"SmoothStronglyConvexFunction", "RsiEbFunction", "SmoothStronglyConvexQuadraticFunction",
                "LipschitzStronglyMonotoneOperator", "SymmetricLinearOperator"} ->
          << <<H, One>>, <<Q, Two>>, <<Z, One>> >>
    [] cls = "SmoothConvexLipschitzFunction" -> << <<One, One>>, <<Two, H>>, <<H, Two>> >>
    [] cls \in {"ConvexIndicatorFunction", "ConvexSupportFunction"} -> << <<Two>>, <<Inf>>, <<H>> >>
    [] cls = "BlockSmoothConvexFunction" -> << <<One, Two>>, <<One, One>>, <<H, One>> >>     \* unequal and equal block constants
    [] cls \in {"CocoerciveOperator", "NegativelyComonotoneOperator"} -> << <<One>>, <<H>>, <<Two>> >>
    [] cls = "CocoerciveStronglyMonotoneOperator" -> << <<H, One>>, <<Q, H>>, <<Z, One>> >>
    [] cls = "NonexpansiveOperator" -> << <<Z>>, <<One>>, <<One>> >>       \* P[1] # 0: a displacement vector v is set

\* ---- the model of what is recorded -------------------------------------------------------------------
Mk(x, g, f, stat) == [x |-> x, g |-> g, f |-> f, stat |-> stat, gb |-> <<>>, name |-> ""]
HasV(cls, P) == cls = "NonexpansiveOperator" /\ P[1] # Z
VOf(cls, P, np) == IF HasV(cls, P) THEN UnitV(np, 1) ELSE ZeroV(np)
Start(cls, P, np, ne) ==
  IF cls = "SmoothStronglyConvexQuadraticFunction"     \* the constructor creates THE stationary point
  THEN [S |-> <<Mk(UnitV(np, 1), ZeroV(np), ELeaf(np, ne, 1), TRUE)>>, TS |-> <<>>, p |-> 1, q |-> 1]
  ELSE [S |-> <<>>, TS |-> <<>>, p |-> IF HasV(cls, P) THEN 1 ELSE 0, q |-> 0]
SameX(S, x) == {i \in 1..Len(S) : S[i].x = x}
StepEv(cls, st, ev, np, ne) ==
  LET p == st.p  q == st.q IN
  CASE ev.e = "O" -> [st EXCEPT !.S = Append(@, Mk(UnitV(np, p + 1), UnitV(np, p + 2), ELeaf(np, ne, q + 1), FALSE)),
                                !.p = p + 2, !.q = q + 1]
    [] ev.e = "S" -> IF cls = "SmoothStronglyConvexQuadraticFunction" THEN st       \* returns the existing one
                     ELSE [st EXCEPT !.S = Append(@, Mk(UnitV(np, p + 1), ZeroV(np), ELeaf(np, ne, q + 1), TRUE)),
                                     !.p = p + 1, !.q = q + 1]
       \* a stationary point declared through the scaled function F = f/2: F.stationary_point() creates (x, 0, fF) and
       \* add_point hands the remainder to f: the sample (x, 0, 2 fF), which is a stationary sample of f
    [] ev.e = "Q" -> [st EXCEPT !.S = Append(@, Mk(UnitV(np, p + 1), ZeroV(np), EScale(Two, ELeaf(np, ne, q + 1)), TRUE)),
                                !.p = p + 1, !.q = q + 1]
    [] ev.e = "X" -> [st EXCEPT !.S = Append(@, Mk(UnitV(np, p + 1), UnitV(np, p + 1), ELeaf(np, ne, q + 1), FALSE)),
                                !.p = p + 1, !.q = q + 1]
       \* a further subgradient at an evaluated point: the value is the recorded one, the subgradient is fresh
    [] ev.e = "R" -> LET x == st.S[ev.k].x  I == SameX(st.S, x)  first == CHOOSE i \in I : \A j \in I : i <= j IN
                     [st EXCEPT !.S = Append(@, Mk(x, UnitV(np, p + 1), st.S[first].f, FALSE)), !.p = p + 1]
    [] ev.e = "T" -> [st EXCEPT !.TS = Append(@, Mk(UnitV(np, p + 1), UnitV(np, p + 2), ELeaf(np, ne, q + 1), FALSE)),
                                !.p = p + 2, !.q = q + 1]
       \* the adjoint is a plain Function (reuse_gradient = False): same rule as R when the point is known
    [] ev.e = "U" -> LET u == st.S[Len(st.S)].g  I == SameX(st.TS, u) IN
                     IF I = {} THEN [st EXCEPT !.TS = Append(@, Mk(u, UnitV(np, p + 1), ELeaf(np, ne, q + 1), VIsZero(UnitV(np, p + 1)))),
                                               !.p = p + 1, !.q = q + 1]
                     ELSE [st EXCEPT !.TS = Append(@, Mk(u, UnitV(np, p + 1), st.TS[CHOOSE i \in I : \A j \in I : i <= j].f, FALSE)),
                                     !.p = p + 1]
RECURSIVE RunFrom(_, _, _, _, _, _)
RunFrom(cls, st, h, k, np, ne) == IF k > Len(h) THEN st ELSE RunFrom(cls, StepEv(cls, st, h[k], np, ne), h, k + 1, np, ne)
Run(cls, P, h, np, ne) == RunFrom(cls, Start(cls, P, np, ne), h, 1, np, ne)
\* what set_class_constraints() adds
Final(cls, P, h, np, ne) ==
  LET st == Run(cls, P, h, np, ne)
      st1 == IF cls \in AutoStat /\ StatIdx(st.S) = {} THEN StepEv(cls, st, [e |-> "S", k |-> 0], np, ne) ELSE st
  IN IF cls # "BlockSmoothConvexFunction" THEN st1
     ELSE [st1 EXCEPT !.S = [i \in 1..Len(st1.S) |->
              [st1.S[i] EXCEPT !.gb = <<UnitV(np, st1.p + i), VSub(st1.S[i].g, UnitV(np, st1.p + i))>>]],
                      !.p = st1.p + Len(st1.S)]
DimP(cls, h) == 2 + 2 * Len(h) + (IF cls = "BlockSmoothConvexFunction" THEN Len(h) ELSE 0)
DimE(cls, h) == 2 + Len(h)
Ctx(cls, P, st, np, ne) == [ne |-> ne, P |-> P, S |-> st.S, TS |-> st.TS, v |-> VOf(cls, P, np)]

\* ---- state machine -----------------------------------------------------------------------------------
VARIABLES cls, hist, order
vars == <<cls, hist, order>>
Init == cls \in ClsSet /\ hist = <<>> /\ order = <<>>
Ev(e, k) == [e |-> e, k |-> k]
NS == Len(Run(cls, ParamPoints(cls)[1], hist, DimP(cls, hist), DimE(cls, hist)).S)
Go(ev) == Len(hist) < Depth /\ hist' = Append(hist, ev) /\ UNCHANGED <<cls, order>>
DoO == Go(Ev("O", 0))
DoS == Go(Ev("S", 0))
DoX == Go(Ev("X", 0))
DoQ == cls # "SmoothStronglyConvexQuadraticFunction" /\ Go(Ev("Q", 0))
DoR == cls \in NonDiff /\ \E k \in 1..NS : Go(Ev("R", k))
DoT == cls = "LinearOperator" /\ Go(Ev("T", 0))
DoU == cls = "LinearOperator" /\ NS > 0 /\ Go(Ev("U", 0))
Next == DoO \/ DoS \/ DoX \/ DoQ \/ DoR \/ DoT \/ DoU
Spec == Init /\ [][Next]_vars

\* ---- the documented set depends only on the set of samples ------------------------------------------
PermSeq(s, p) == [i \in 1..Len(s) |-> s[p[i]]]
Gen(n) == IF n < 2 THEN {} ELSE
          {[i \in 1..n |-> IF i = 1 THEN 2 ELSE IF i = 2 THEN 1 ELSE i],     \* a transposition and the n-cycle
           [i \in 1..n |-> IF i = n THEN 1 ELSE i + 1],                       \* generate the symmetric group
           [i \in 1..n |-> n + 1 - i]}
PermSet(n) == IF AllPerms THEN Perms(n) ELSE Gen(n)
OrderIndep ==
  \A pi \in 1..NPar :
    LET P == ParamPoints(cls)[pi]  np == DimP(cls, hist)  ne == DimE(cls, hist)
        st == Final(cls, P, hist, np, ne)
        C == Ctx(cls, P, st, np, ne)
        E == ExpNFs(cls, C)
        A == ExpLMIs(cls, C)
    IN /\ \A p \in PermSet(Len(st.S)) :
            LET C2 == [C EXCEPT !.S = PermSeq(st.S, p)]  B == ExpLMIs(cls, C2) IN
            /\ ExpNFs(cls, C2) = E
            /\ Len(B) = Len(A)
            /\ Len(A) >= 1 => B[1] = PermM(A[1], p)
            /\ Len(A) >= 2 => B[2] = A[2]
       /\ \A p \in PermSet(Len(st.TS)) :
            LET C2 == [C EXCEPT !.TS = PermSeq(st.TS, p)]  B == ExpLMIs(cls, C2) IN
            /\ ExpNFs(cls, C2) = E
            /\ Len(A) >= 2 => (B[1] = A[1] /\ B[2] = PermM(A[2], p))
\* the model never needs more leaves than the ambient dimension it computes in
DimsOK == LET P == ParamPoints(cls)[NPar]  st == Final(cls, P, hist, DimP(cls, hist), DimE(cls, hist))
          IN st.p <= DimP(cls, hist) /\ st.q <= DimE(cls, hist)

\* ---- export ------------------------------------------------------------------------------------------
Emit == cls \in ClsSet =>
  PrintT(ToJson([cls |-> cls, h |-> hist, P |-> [pi \in 1..NPar |-> ParamPoints(cls)[pi]]]))

\* ---- permutations of K declarations (end-to-end clause) ---------------------------------------------
PInit == cls = "-" /\ hist = <<>> /\ order = <<>>
PNext == /\ Len(order) < K
         /\ \E i \in (1..K) \ {order[j] : j \in 1..Len(order)} : order' = Append(order, i)
         /\ UNCHANGED <<cls, hist>>
PEmit == Len(order) = K => PrintT(ToJson([perm |-> order]))
=============================================================================
