------------------------------ MODULE StepsReal ------------------------------
(* C08 real side.  A single call of a primitive step on a LEAF function, as recorded from the real code     *)
(* (same trace format as StepsTrace), is confronted with the REAL operation on member functions that have  *)
(* a closed form in exact rationals:                                                                        *)
(*     quad  f(x) = 1/2 sum_k a_k (x_k - c_k)^2   (dimension 1 or 2, diagonal)                               *)
(*     abs   f(x) = m |x|                          (dimension 1)                                             *)
(*     box   f = indicator of [lo, hi]             (dimension 1 or 2)                                        *)
(* The leaves recorded in the trace are instantiated with the output of the real operation (the returned   *)
(* point, a subgradient and the value of the member there, the error made explicit for the inexact steps)  *)
(* and every recorded sample must be a true (point, subgradient, value) triple of the member, every        *)
(* recorded constraint must hold (<= 0, = 0), and the normal forms of the returned tuple must evaluate to  *)
(* the real output.  For the steps whose constraint bounds an error, the recorded constraint must hold     *)
(* EXACTLY on the admissible part of the error grid (holds on admissible, fails on inadmissible errors).    *)
EXTENDS StepsTrace
\* ------------------------------------------------------------------------------------------- small vectors
VZ(dim) == [k \in 1..dim |-> Z]
VMulC(a, u) == [k \in DOMAIN u |-> RMul(a[k], u[k])]
NSq(u) == VDot(u, u)
RI2(n, d) == Norm(n, d)
\* ------------------------------------------------------------------------------------------------ members
Quad(a, c) == [kind |-> "quad", a |-> a, c |-> c, m |-> Z, lo |-> c, hi |-> c]
AbsM(m) == [kind |-> "abs", a |-> <<One>>, c |-> <<Z>>, m |-> m, lo |-> <<Z>>, hi |-> <<Z>>]
Box(lo, hi) == [kind |-> "box", a |-> lo, c |-> lo, m |-> Z, lo |-> lo, hi |-> hi]
InDom(M, x) == M.kind # "box" \/ \A k \in DOMAIN x : RLeq(M.lo[k], x[k]) /\ RLeq(x[k], M.hi[k])
Val(M, x) ==
  CASE M.kind = "quad" -> RMul(Half, VDot(VMulC(M.a, VSub(x, M.c)), VSub(x, M.c)))
    [] M.kind = "abs" -> RMul(M.m, RAbs(x[1]))
    [] M.kind = "box" -> Z
\* g is a subgradient of the member at x
InSub(M, x, g) ==
  CASE M.kind = "quad" -> g = VMulC(M.a, VSub(x, M.c))
    [] M.kind = "abs" -> IF x[1][1] > 0 THEN g[1] = M.m
                         ELSE IF x[1][1] < 0 THEN g[1] = RNeg(M.m)
                         ELSE RLeq(RNeg(M.m), g[1]) /\ RLeq(g[1], M.m)
    [] M.kind = "box" -> \A k \in DOMAIN x :
                            /\ RLeq(M.lo[k], x[k]) /\ RLeq(x[k], M.hi[k])
                            /\ (RLt(M.lo[k], x[k]) /\ RLt(x[k], M.hi[k])) => g[k][1] = 0
                            /\ (x[k] = M.lo[k] /\ RLt(M.lo[k], M.hi[k])) => g[k][1] <= 0
                            /\ (x[k] = M.hi[k] /\ RLt(M.lo[k], M.hi[k])) => g[k][1] >= 0
\* one subgradient (the gradient of a quad)
SubSel(M, x) ==
  CASE M.kind = "quad" -> VMulC(M.a, VSub(x, M.c))
    [] M.kind = "abs" -> <<RMul(M.m, RI(Sgn(x[1][1])))>>
    [] M.kind = "box" -> VZ(Len(x))
\* argmin_x  t_k f_k(x_k) + (x_k - x0_k)^2 / 2  coordinate-wise (all members are separable)
ProxV(M, t, x0) ==
  CASE M.kind = "quad" -> [k \in DOMAIN x0 |-> RDiv(RAdd(x0[k], RMul(RMul(t[k], M.a[k]), M.c[k])),
                                                    RAdd(One, RMul(t[k], M.a[k])))]
    [] M.kind = "abs" -> LET thr == RMul(t[1], M.m) IN
                         <<IF RLt(thr, x0[1]) THEN RSub(x0[1], thr)
                           ELSE IF RLt(x0[1], RNeg(thr)) THEN RAdd(x0[1], thr) ELSE Z>>
    [] M.kind = "box" -> [k \in DOMAIN x0 |-> RMax(M.lo[k], RMin(M.hi[k], x0[k]))]
\* Fenchel conjugate (abs: only for |v| <= m)
Conj(M, v) ==
  CASE M.kind = "quad" -> RAdd(RMul(Half, VDot(v, [k \in DOMAIN v |-> RDiv(v[k], M.a[k])])), VDot(M.c, v))
    [] M.kind = "abs" -> Z
    [] M.kind = "box" -> VSum([k \in DOMAIN v |-> RMax(RMul(M.lo[k], v[k]), RMul(M.hi[k], v[k]))])
\* ------------------------------------------------------------------------------------- families and grids
QuadsOf(dim, As) ==
  IF dim = 1 THEN {Quad(<<a>>, <<c>>) : a \in As, c \in {Z, One}}
  ELSE {Quad(<<ab[1], ab[2]>>, <<One, MOne>>) : ab \in {x \in {<<Half, Two>>, <<One, Half>>, <<Two, One>>} : x[1] \in As /\ x[2] \in As}}
Boxes(dim) == IF dim = 1 THEN {Box(<<MOne>>, <<One>>), Box(<<Z>>, <<Two>>)} ELSE {Box(<<MOne, Z>>, <<One, Two>>)}
\* members of the classes of the function table FT (D1: mu = 1/2, L = 2; D2: L = 1; N1 convex; N2, N3 indicators)
Members(fi, dim) ==
  CASE fi = 1 -> QuadsOf(dim, {Half, One, Two})
    [] fi = 2 -> QuadsOf(dim, {Half, One})
    [] fi = 3 -> QuadsOf(dim, {Half, One, Two}) \cup Boxes(dim) \cup (IF dim = 1 THEN {AbsM(One), AbsM(Two)} ELSE {})
    [] fi \in {4, 5} -> Boxes(dim)
Smooth(S) == {M \in S : M.kind = "quad"}
\* values of the two initial leaf points (x0, x1)
Envs(dim) == IF dim = 1 THEN {<< <<RI(-2)>>, <<One>> >>, << <<Half>>, <<MOne>> >>, << <<RI(3)>>, <<Two>> >>, << <<Z>>, <<One>> >>}
             ELSE {<< <<One, RI(-2)>>, <<Two, One>> >>, << <<RI2(-1, 2), RI(3)>>, <<One, One>> >>}
                  \cup (IF Grid = 1 THEN {} ELSE {<< <<Z, Z>>, <<One, MOne>> >>})
XGrid(dim) == IF dim = 1 THEN {<<MOne>>, <<Z>>, <<Half>>, <<Two>>} ELSE {<<Z, Z>>, <<One, MOne>>, <<Half, Two>>}
Slacks == {RI2(-1, 4), Z, RI2(1, 4)}
\* Grid = 1 (quick): coarser two-dimensional error grid, two of the three two-dimensional environments
DR == IF Grid = 1 THEN 3 ELSE 4
DeltaGrid(dim, sc) == IF dim = 1 THEN {<<RMul(sc, RI2(k, 8))>> : k \in -8..8}
                      ELSE {<<RMul(sc, RI2(i, 4)), RMul(sc, RI2(j, 4))>> : i \in -DR..DR, j \in -DR..DR}
\* ------------------------------------------------------------------------------- instantiation of the leaves
Has(asg, k) == \E i \in DOMAIN asg : asg[i][1] = k
Get(asg, k) == asg[CHOOSE i \in DOMAIN asg : asg[i][1] = k][2]
MkP(dp, dim, E, asg) == [k \in 1..dp |-> IF Has(asg, k) THEN Get(asg, k) ELSE IF k = 1 THEN E[1] ELSE IF k = 2 THEN E[2] ELSE VZ(dim)]
MkF(de, asg) == [k \in 1..de |-> IF Has(asg, k) THEN Get(asg, k) ELSE Z]
LeafP(v) == LET I == {k \in DOMAIN v : v[k][1] # 0} IN
            IF Cardinality(I) = 1 /\ (\A k \in I : v[k] = One) THEN CHOOSE k \in I : TRUE ELSE 0
LeafE(e) == IF VIsZero(e.G) /\ e.c[1] = 0 THEN LeafP(e.F) ELSE 0
GramOf(penv) == LET ps == PST[Len(penv)] IN [k \in 1..Len(ps) |-> VDot(penv[ps[k][1]], penv[ps[k][2]])]
EV(e, gram, fenv) == RAdd(RAdd(VDot(e.F, fenv), VDot(e.G, gram)), e.c)
\* EV is LinForm!EVal with the Gram vector shared between the evaluations of one scenario
ASSUME LET p == << <<One, Two>>, <<Half, MOne>>, <<Z, RI(3)>> >>  f == <<Two, MOne>>
           e == [F |-> <<One, Half>>, G |-> <<One, Two, Z, MOne, Half, RI(3)>>, c |-> MOne]
       IN EV(e, GramOf(p), f) = EVal(e, p, f)
Kinds(d, ks) == Len(d.ret) = Len(ks) /\ \A i \in DOMAIN ks : d.ret[i].k = ks[i]
ConsHold(d, gram, fenv) ==
  \A f \in 1..NF : \A i \in DOMAIN d.nc[f] :
     LET v == EV(d.nc[f][i].e, gram, fenv) IN IF d.nc[f][i].sense = "ineq" THEN v[1] <= 0 ELSE v[1] = 0
SampTrue(M, smp, penv, gram, fenv) ==
  \A i \in DOMAIN smp :
     LET xv == PtVal(smp[i].x, penv)  gv == PtVal(smp[i].g, penv)
     IN InDom(M, xv) /\ InSub(M, xv, gv) /\ EV(smp[i].f, gram, fenv) = Val(M, xv)
Recorded(smp, penv, xv, gv) == \E i \in DOMAIN smp : PtVal(smp[i].x, penv) = xv /\ PtVal(smp[i].g, penv) = gv
Judge(retOK, sampOK, holds, shouldHold) ==
     (IF retOK THEN {} ELSE {"real-returned"}) \cup (IF sampOK THEN {} ELSE {"real-samples"})
     \cup (IF shouldHold /\ ~holds THEN {"real-constraints"} ELSE {})
     \cup (IF ~shouldHold /\ holds THEN {"real-constraints-slack"} ELSE {})
OtherFns(d, F) == \A g \in 1..NF : g \notin F => d.ns[g] = <<>>
ArgV(shape, dp, dim, E) == PtVal(Arg(shape, [dp |-> dp], <<>>), MkP(dp, dim, E, <<>>))
\* ------------------------------------------------------------------------------------------- the real steps
\* proximal step: x* = prox_{gamma f}(x0), g* = (x0 - x*) / gamma in df(x*)
RProx(c, d, dp, de, dim, E, M) ==
  IF ~Kinds(d, <<"pt", "pt", "ex">>) THEN {"real-shape"} ELSE
  LET gam == Gam(c)  x0 == ArgV(c.a, dp, dim, E)
      xs == ProxV(M, [k \in 1..dim |-> gam], x0)
      gs == VScale(RInv(gam), VSub(x0, xs))
      kg == LeafP(d.ret[2].p)  kf == LeafE(d.ret[3].e)
      penv == MkP(dp, dim, E, << <<kg, gs>> >>)
      fenv == MkF(de, << <<kf, Val(M, xs)>> >>)
      gram == GramOf(penv)
  IN IF kg = 0 \/ kf = 0 THEN {"real-shape"} ELSE
     Judge(PtVal(d.ret[1].p, penv) = xs,
           SampTrue(M, d.ns[c.f], penv, gram, fenv) /\ Recorded(d.ns[c.f], penv, xs, gs) /\ OtherFns(d, {c.f}),
           ConsHold(d, gram, fenv), TRUE)
\* proximal step on the sum S = q + 2 n (q a quad member of D1, n any member of N1):
\*   x* = prox_{t n}(z),  z = (x0 + gamma a c) / (1 + gamma a),  t = 2 gamma / (1 + gamma a)  (coordinate-wise);
\*   the sample of S is distributed: D1 records (x, grad q(x*), q(x*)), N1 the remainder divided by its weight
RProxSum(c, d, dp, de, dim, E, Mq, Mn) ==
  IF ~Kinds(d, <<"pt", "pt", "ex">>) \/ Len(d.ns[1]) # 1 THEN {"real-shape"} ELSE
  LET gam == Gam(c)  x0 == ArgV(c.a, dp, dim, E)
      den == [k \in 1..dim |-> RAdd(One, RMul(gam, Mq.a[k]))]
      z == [k \in 1..dim |-> RDiv(RAdd(x0[k], RMul(RMul(gam, Mq.a[k]), Mq.c[k])), den[k])]
      xs == ProxV(Mn, [k \in 1..dim |-> RDiv(RMul(Two, gam), den[k])], z)
      gs == VScale(RInv(gam), VSub(x0, xs))
      kg == LeafP(d.ret[2].p)  kf == LeafE(d.ret[3].e)
      kgq == LeafP(d.ns[1][1].g)  kvq == LeafE(d.ns[1][1].f)
      penv == MkP(dp, dim, E, << <<kg, gs>>, <<kgq, SubSel(Mq, xs)>> >>)
      fenv == MkF(de, << <<kf, RAdd(Val(Mq, xs), RMul(Two, Val(Mn, xs)))>>, <<kvq, Val(Mq, xs)>> >>)
      gram == GramOf(penv)
  IN IF kg = 0 \/ kf = 0 \/ kgq = 0 \/ kvq = 0 \/ kg = kgq \/ kf = kvq THEN {"real-shape"} ELSE
     Judge(PtVal(d.ret[1].p, penv) = xs,
           /\ SampTrue(Mq, d.ns[1], penv, gram, fenv) /\ SampTrue(Mn, d.ns[3], penv, gram, fenv)
           /\ Recorded(d.ns[6], penv, xs, gs) /\ Recorded(d.ns[1], penv, xs, SubSel(Mq, xs)) /\ Len(d.ns[3]) = 1
           /\ (\A i \in DOMAIN d.ns[6] : EV(d.ns[6][i].f, gram, fenv) = RAdd(Val(Mq, xs), RMul(Two, Val(Mn, xs))))
           /\ OtherFns(d, {1, 3, 6}),
           ConsHold(d, gram, fenv), TRUE)
\* inexact gradient step: d = g + delta for every delta of a grid; admissible iff |delta|^2 <= eps^2 (|g|^2)
RInGrad(c, d, dp, de, dim, E, M) ==
  IF ~Kinds(d, <<"pt", "pt", "ex">>) \/ Len(d.ns[c.f]) # 1 THEN {"real-shape"} ELSE
  LET gam == Gam(c)  eps == Eps(c)  x0 == ArgV(c.a, dp, dim, E)
      g0 == SubSel(M, x0)  f0 == Val(M, x0)
      s == d.ns[c.f][1]
      kgo == LeafP(s.g)  kfo == LeafE(s.f)  kd == LeafP(d.ret[2].p)
      n1 == VSum([k \in 1..dim |-> RAbs(g0[k])])
      sc == IF c.opt = "relative" /\ n1[1] # 0 THEN n1 ELSE One
      bound == IF c.opt = "absolute" THEN RSq(eps) ELSE RMul(RSq(eps), NSq(g0))
      fenv == MkF(de, << <<kfo, f0>> >>)
      One1(delta) ==
        LET dv == VAdd(g0, delta)
            penv == MkP(dp, dim, E, << <<kgo, g0>>, <<kd, dv>> >>)
            gram == GramOf(penv)
        IN Judge(PtVal(d.ret[1].p, penv) = VSub(x0, VScale(gam, dv)) /\ EV(d.ret[3].e, gram, fenv) = f0,
                 SampTrue(M, d.ns[c.f], penv, gram, fenv) /\ OtherFns(d, {c.f}),
                 ConsHold(d, gram, fenv), RLeq(NSq(delta), bound))
  IN IF kgo = 0 \/ kfo = 0 \/ kd = 0 \/ kgo = kd THEN {"real-shape"} ELSE UNION {One1(delta) : delta \in DeltaGrid(dim, sc)}
\* inexact proximal step: the primal-dual gap of the member, with the accuracy eps = gap + slack
PhiP(M, gam, x0, x) == RAdd(RMul(gam, Val(M, x)), RMul(Half, NSq(VSub(x, x0))))
PhiD(M, gam, x0, v) == RAdd(RSub(RNeg(RMul(gam, Conj(M, v))), RMul(Half, NSq(VSub(x0, VScale(gam, v))))), RMul(Half, NSq(x0)))
RInProx(c, d, dp, de, dim, E, M) ==
  IF ~Kinds(d, <<"pt", "pt", "ex", "pt", "pt", "ex", "ex">>) THEN {"real-shape"} ELSE
  LET gam == Gam(c)  x0 == ArgV(c.a, dp, dim, E)
      kx == LeafP(d.ret[1].p)  kgx == LeafP(d.ret[2].p)  kfx == LeafE(d.ret[3].e)
      kw == LeafP(d.ret[4].p)  kv == LeafP(d.ret[5].p)  kfw == LeafE(d.ret[6].e)  keps == LeafE(d.ret[7].e)
      \* one scenario: primal point xs with subgradient gs, dual pair (ws, vs), accuracy gap + slack
      Scen(xs, gs, ws, vs, pasg, sl) ==
        LET gap == RSub(PhiP(M, gam, x0, xs), PhiD(M, gam, x0, vs))
            penv == MkP(dp, dim, E, pasg)
            fenv == MkF(de, << <<kfx, Val(M, xs)>>, <<kfw, Val(M, ws)>>, <<keps, RAdd(gap, sl)>> >>)
            gram == GramOf(penv)
        IN Judge(/\ PtVal(d.ret[1].p, penv) = xs /\ PtVal(d.ret[2].p, penv) = gs /\ PtVal(d.ret[4].p, penv) = ws
                 /\ PtVal(d.ret[5].p, penv) = vs /\ EV(d.ret[3].e, gram, fenv) = Val(M, xs)
                 /\ EV(d.ret[6].e, gram, fenv) = Val(M, ws),
                 /\ SampTrue(M, d.ns[c.f], penv, gram, fenv) /\ Recorded(d.ns[c.f], penv, xs, gs)
                 /\ Recorded(d.ns[c.f], penv, ws, vs) /\ OtherFns(d, {c.f}),
                 ConsHold(d, gram, fenv), sl[1] >= 0)
  IN
  IF kgx = 0 \/ kfx = 0 \/ keps = 0 THEN {"real-shape"} ELSE
  CASE c.opt = "PD_gapI" ->
         IF kx = 0 \/ kw = 0 \/ kv = 0 \/ kfw = 0 THEN {"real-shape"} ELSE
         UNION {Scen(xs, SubSel(M, xs), ws, SubSel(M, ws),
                     << <<kx, xs>>, <<kgx, SubSel(M, xs)>>, <<kw, ws>>, <<kv, SubSel(M, ws)>> >>, sl) :
                   xs \in XGrid(dim), ws \in XGrid(dim), sl \in Slacks}
    [] c.opt = "PD_gapII" ->
         \* x = x0 - gamma g + e: the error leaf is the fresh leaf of x other than g
         LET I == {k \in 3..dp : k # kgx /\ d.ret[1].p[k][1] # 0} IN
         IF Cardinality(I) # 1 THEN {"real-shape"} ELSE
         LET ke == CHOOSE k \in I : TRUE  q == d.ret[1].p[ke] IN
         UNION {LET gs == SubSel(M, xs)
                    partial == PtVal(d.ret[1].p, MkP(dp, dim, E, << <<kgx, gs>> >>))
                    ev == VScale(RInv(q), VSub(xs, partial))
                IN Scen(xs, gs, xs, gs, << <<kgx, gs>>, <<ke, ev>> >>, sl) : xs \in XGrid(dim), sl \in Slacks}
    [] c.opt = "PD_gapIII" ->
         IF kx = 0 \/ kw = 0 \/ kfw = 0 THEN {"real-shape"} ELSE
         UNION {LET vs == VScale(RInv(gam), VSub(x0, xs))
                    ws == [k \in 1..dim |-> RAdd(M.c[k], RDiv(vs[k], M.a[k]))]       \* vs = grad f(ws)
                IN Scen(xs, SubSel(M, xs), ws, vs, << <<kx, xs>>, <<kgx, SubSel(M, xs)>>, <<kw, ws>> >>, sl) :
                   xs \in XGrid(dim), sl \in Slacks}
\* exact line search on a diagonal quadratic: x* = argmin of f over x0 + span(directions)
RLine(c, d, dp, de, dim, E, M) ==
  IF ~Kinds(d, <<"pt", "pt", "ex">>) THEN {"real-shape"} ELSE
  LET x0 == ArgV(c.a, dp, dim, E)
      dv == [i \in 1..Len(c.dirs) |-> ArgV(c.dirs[i], dp, dim, E)]
      nz == {i \in DOMAIN dv : ~VIsZero(dv[i])}
      full == \/ dim = 1 /\ nz # {}
              \/ dim = 2 /\ \E i \in nz, j \in nz : RSub(RMul(dv[i][1], dv[j][2]), RMul(dv[i][2], dv[j][1]))[1] # 0
      xs == IF nz = {} THEN x0
            ELSE IF full THEN M.c
            ELSE LET dd == dv[CHOOSE i \in nz : TRUE]
                     t == RDiv(VDot(SubSel(M, x0), dd), VDot(VMulC(M.a, dd), dd))
                 IN VSub(x0, VScale(t, dd))
      kx == LeafP(d.ret[1].p)  kg == LeafP(d.ret[2].p)  kf == LeafE(d.ret[3].e)
      penv == MkP(dp, dim, E, << <<kx, xs>>, <<kg, SubSel(M, xs)>> >>)
      fenv == MkF(de, << <<kf, Val(M, xs)>> >>)
      gram == GramOf(penv)
  IN IF kx = 0 \/ kg = 0 \/ kf = 0 \/ kx = kg THEN {"real-shape"} ELSE
     Judge(TRUE, SampTrue(M, d.ns[c.f], penv, gram, fenv) /\ Recorded(d.ns[c.f], penv, xs, SubSel(M, xs)) /\ OtherFns(d, {c.f}),
           ConsHold(d, gram, fenv), TRUE)
\* Bregman gradient step with a quadratic mirror map h: grad h(x*) = sx0 - gamma gx0
RBregGrad(c, d, dp, de, dim, E, Mh) ==
  IF ~Kinds(d, <<"pt", "pt", "ex">>) THEN {"real-shape"} ELSE
  LET gam == Gam(c)  sx0 == ArgV(c.a, dp, dim, E)  gx0 == ArgV(c.b, dp, dim, E)
      tgt == VSub(sx0, VScale(gam, gx0))
      xs == [k \in 1..dim |-> RAdd(Mh.c[k], RDiv(tgt[k], Mh.a[k]))]
      kx == LeafP(d.ret[1].p)  kh == LeafE(d.ret[3].e)
      penv == MkP(dp, dim, E, << <<kx, xs>> >>)
      fenv == MkF(de, << <<kh, Val(Mh, xs)>> >>)
      gram == GramOf(penv)
  IN IF kx = 0 \/ kh = 0 THEN {"real-shape"} ELSE
     Judge(PtVal(d.ret[2].p, penv) = SubSel(Mh, xs),
           SampTrue(Mh, d.ns[c.h], penv, gram, fenv) /\ Recorded(d.ns[c.h], penv, xs, SubSel(Mh, xs)) /\ OtherFns(d, {c.h}),
           ConsHold(d, gram, fenv), TRUE)
\* Bregman proximal step: grad h(x) + gamma df(x) contains sx0, i.e. x* = prox_{(gamma / a_h) f}(c_h + sx0 / a_h)
RBregProx(c, d, dp, de, dim, E, Mh, Mf) ==
  IF ~Kinds(d, <<"pt", "pt", "ex", "pt", "ex">>) THEN {"real-shape"} ELSE
  LET gam == Gam(c)  sx0 == ArgV(c.a, dp, dim, E)
      xs == ProxV(Mf, [k \in 1..dim |-> RDiv(gam, Mh.a[k])], [k \in 1..dim |-> RAdd(Mh.c[k], RDiv(sx0[k], Mh.a[k]))])
      gs == VScale(RInv(gam), VSub(sx0, SubSel(Mh, xs)))
      kx == LeafP(d.ret[1].p)  kh == LeafE(d.ret[3].e)  kg == LeafP(d.ret[4].p)  kf == LeafE(d.ret[5].e)
      penv == MkP(dp, dim, E, << <<kx, xs>>, <<kg, gs>> >>)
      fenv == MkF(de, << <<kh, Val(Mh, xs)>>, <<kf, Val(Mf, xs)>> >>)
      gram == GramOf(penv)
  IN IF kx = 0 \/ kh = 0 \/ kg = 0 \/ kf = 0 \/ kx = kg \/ kh = kf THEN {"real-shape"} ELSE
     Judge(PtVal(d.ret[2].p, penv) = SubSel(Mh, xs),
           /\ SampTrue(Mf, d.ns[c.f], penv, gram, fenv) /\ Recorded(d.ns[c.f], penv, xs, gs)
           /\ SampTrue(Mh, d.ns[c.h], penv, gram, fenv) /\ Recorded(d.ns[c.h], penv, xs, SubSel(Mh, xs))
           /\ OtherFns(d, {c.f, c.h}),
           ConsHold(d, gram, fenv), TRUE)
\* linear optimisation over a box: every minimiser of <dir, x>
RLmo(c, d, dp, de, dim, E, M) ==
  IF ~Kinds(d, <<"pt", "pt", "ex">>) THEN {"real-shape"} ELSE
  LET dir == ArgV(c.a, dp, dim, E)
      Cand(k) == IF dir[k][1] > 0 THEN {M.lo[k]} ELSE IF dir[k][1] < 0 THEN {M.hi[k]} ELSE {M.lo[k], M.hi[k]}
      XS == IF dim = 1 THEN {<<a>> : a \in Cand(1)} ELSE {<<a, b>> : a \in Cand(1), b \in Cand(2)}
      kx == LeafP(d.ret[1].p)  kf == LeafE(d.ret[3].e)
      One1(xs) == LET penv == MkP(dp, dim, E, << <<kx, xs>> >>)  fenv == MkF(de, << <<kf, Z>> >>)  gram == GramOf(penv)
                  IN Judge(TRUE, SampTrue(M, d.ns[c.f], penv, gram, fenv)
                                 /\ Recorded(d.ns[c.f], penv, xs, PtVal(d.ret[2].p, penv)) /\ OtherFns(d, {c.f}),
                           ConsHold(d, gram, fenv), TRUE)
  IN IF kx = 0 \/ kf = 0 THEN {"real-shape"} ELSE UNION {One1(xs) : xs \in XS}
\* epsilon-subgradient step: g0 any slope in the domain of f*, y a point with g0 in df(y),
\*   real accuracy f(x0) + f*(g0) - <g0, x0>, recorded accuracy = real accuracy + slack
RepsG(M, dim) == IF M.kind = "quad" THEN XGrid(dim) ELSE {<<RNeg(M.m)>>, <<RMul(Half, M.m)>>, <<Z>>, <<M.m>>}
RepsY(M, g0) == IF M.kind = "quad" THEN {[k \in DOMAIN g0 |-> RAdd(M.c[k], RDiv(g0[k], M.a[k]))]}
                ELSE IF g0[1] = M.m THEN {<<Z>>, <<One>>} ELSE IF g0[1] = RNeg(M.m) THEN {<<Z>>, <<MOne>>} ELSE {<<Z>>}
REpsSub(c, d, dp, de, dim, E, M) ==
  IF ~Kinds(d, <<"pt", "pt", "ex", "ex">>) \/ Len(d.ns[c.f]) # 2 THEN {"real-shape"} ELSE
  LET gam == Gam(c)  x0 == ArgV(c.a, dp, dim, E)
      IY == {i \in 1..2 : d.ns[c.f][i].g = d.ret[2].p}
  IN IF Cardinality(IY) # 1 THEN {"real-shape"} ELSE
  LET iy == CHOOSE i \in IY : TRUE
      sY == d.ns[c.f][iy]  sO == d.ns[c.f][3 - iy]
      kg0 == LeafP(d.ret[2].p)  kf0 == LeafE(d.ret[3].e)  keps == LeafE(d.ret[4].e)
      kgo == LeafP(sO.g)  ky == LeafP(sY.x)  kfy == LeafE(sY.f)
      One1(g0, ys, sl) ==
        LET real == RSub(RAdd(Val(M, x0), RSub(VDot(g0, ys), Val(M, ys))), VDot(g0, x0))
            penv == MkP(dp, dim, E, << <<kg0, g0>>, <<ky, ys>>, <<kgo, SubSel(M, x0)>> >>)
            fenv == MkF(de, << <<kf0, Val(M, x0)>>, <<kfy, Val(M, ys)>>, <<keps, RAdd(real, sl)>> >>)
            gram == GramOf(penv)
        IN Judge(PtVal(d.ret[1].p, penv) = VSub(x0, VScale(gam, g0)),
                 SampTrue(M, d.ns[c.f], penv, gram, fenv) /\ Recorded(d.ns[c.f], penv, ys, g0) /\ OtherFns(d, {c.f}),
                 ConsHold(d, gram, fenv), sl[1] >= 0)
  IN IF 0 \in {kg0, kf0, keps, kgo, ky, kfy} \/ Cardinality({kg0, kgo, ky}) # 3 \/ Cardinality({kf0, kfy, keps}) # 3
        \/ LeafE(sO.f) # kf0
     THEN {"real-shape"}
     ELSE UNION {UNION {One1(g0, ys, sl) : ys \in RepsY(M, g0), sl \in Slacks} : g0 \in RepsG(M, dim)}
\* --------------------------------------------------------------------------------------------- scenarios
Dims == {1, 2}
Real(c, d, dp, de) ==
  CASE c.step = "proximal_step" /\ c.f = 6 ->
         UNION {UNION {RProxSum(c, d, dp, de, dim, E, Mq, Mn) :
                          E \in Envs(dim), Mq \in Members(1, dim), Mn \in Members(3, dim)} : dim \in Dims}
    [] c.step = "proximal_step" /\ c.f # 6 ->
         UNION {UNION {RProx(c, d, dp, de, dim, E, M) : E \in Envs(dim), M \in Members(c.f, dim)} : dim \in Dims}
    [] c.step = "inexact_gradient_step" ->
         UNION {UNION {RInGrad(c, d, dp, de, dim, E, M) : E \in Envs(dim), M \in Members(c.f, dim) \ Boxes(dim)} : dim \in Dims}
    [] c.step = "inexact_proximal_step" ->
         UNION {UNION {RInProx(c, d, dp, de, dim, E, M) : E \in Envs(dim), M \in Smooth(Members(c.f, dim))} : dim \in Dims}
    [] c.step = "exact_linesearch_step" ->
         UNION {UNION {RLine(c, d, dp, de, dim, E, M) : E \in Envs(dim), M \in Smooth(Members(c.f, dim))} : dim \in Dims}
    [] c.step = "bregman_gradient_step" ->
         UNION {UNION {RBregGrad(c, d, dp, de, dim, E, M) : E \in Envs(dim), M \in Smooth(Members(c.h, dim))} : dim \in Dims}
    [] c.step = "bregman_proximal_step" ->
         UNION {UNION {RBregProx(c, d, dp, de, dim, E, Mh, Mf) :
                          E \in Envs(dim), Mh \in Smooth(Members(c.h, dim)), Mf \in Members(c.f, dim)} : dim \in Dims}
    [] c.step = "linear_optimization_step" ->
         UNION {UNION {RLmo(c, d, dp, de, dim, E, M) : E \in Envs(dim), M \in Members(c.f, dim)} : dim \in Dims}
    [] c.step = "epsilon_subgradient_step" ->
         UNION {UNION {REpsSub(c, d, dp, de, dim, E, M) : E \in Envs(dim), M \in Members(c.f, dim) \ Boxes(dim)} : dim \in Dims}
\* number of scenario evaluations (for the evidence file)
NScen(c) ==
  LET base(S(_), inner(_)) == Cardinality(Envs(1)) * Cardinality(S(1)) * inner(1) + Cardinality(Envs(2)) * Cardinality(S(2)) * inner(2)
      one(dim) == 1
      Mf(dim) == IF c.f = 6 THEN Members(1, dim) \X Members(3, dim) ELSE Members(c.f, dim)  MfS(dim) == Smooth(Members(c.f, dim))  MfNB(dim) == Members(c.f, dim) \ Boxes(dim)
      MhS(dim) == Smooth(Members(c.h, dim))
      MhMf(dim) == Smooth(Members(c.h, dim)) \X Members(c.f, dim)
      dg(dim) == IF dim = 1 THEN 17 ELSE (2 * DR + 1) * (2 * DR + 1)
      ip(dim) == 3 * Cardinality(XGrid(dim)) * (IF c.opt = "PD_gapI" THEN Cardinality(XGrid(dim)) ELSE 1)
      es(dim) == 3 * Cardinality(XGrid(dim))
  IN CASE c.step = "proximal_step" -> base(Mf, one)
       [] c.step = "inexact_gradient_step" -> base(MfNB, dg)
       [] c.step = "inexact_proximal_step" -> base(MfS, ip)
       [] c.step = "exact_linesearch_step" -> base(MfS, one)
       [] c.step = "bregman_gradient_step" -> base(MhS, one)
       [] c.step = "bregman_proximal_step" -> base(MhMf, one)
       [] c.step = "linear_optimization_step" -> base(Mf, one)
       [] c.step = "epsilon_subgradient_step" -> base(MfNB, es)
\* ------------------------------------------------------------------------------------------ the trace machine
RInit == /\ tid \in 1..Len(Traces)
         /\ l = 1 /\ obs = 0 /\ olast = <<>> /\ bad = {}
         /\ st = 0 /\ prev = 0 /\ last = 0 /\ plast = 0 /\ hist = <<>>
RStep == /\ l = 1
         /\ LET c == T.h[1]  d == Decode(T.d[1], T.dp, T.de)
                cl == IF d.exc # "" THEN {"real-shape"} ELSE Real(c, d, T.dp, T.de)
            IN bad' = {<<1, c.step, c.opt, x>> : x \in cl} \cup {<<0, "scenarios", "-", ToString(NScen(c))>>}
         /\ l' = 2
         /\ UNCHANGED <<tid, obs, olast, st, prev, last, plast, hist>>
RReport == l = 2 => PrintT(ToJson(<<"V", tid, bad>>))
=============================================================================
