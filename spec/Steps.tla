------------------------------- MODULE Steps -------------------------------
(* C08.  The eight primitive steps of PEPit (PEPit/primitive_steps/*.py) as actions on the bookkeeping     *)
(* state of the functions: leaf counters, per function the recorded samples (x, g, f) and the function-   *)
(* level constraints.  Every step is transcribed FROM ITS DOCSTRING: which fresh leaves the call creates, *)
(* the returned tuple (normal forms over old + fresh leaves), the samples and on which function, the      *)
(* constraints (normal form, sense) and on which function.                                                *)
(*   - Oracle / AddPoint: Function.oracle / Function.value / Function.add_point of PEPit/function.py for  *)
(*     leaves and for sums of leaves (the steps are defined in terms of them)                             *)
(*   - Apply(c, st, last): the documented effect of one call                                              *)
(*   - DocRel(c, pre, post, ret): the documented relation stated declaratively (model invariant)          *)
(* Behaviours (hist) are exported as JSON programs and replayed on the real steps; StepsTrace.tla         *)
(* compares the observed delta of every call with Apply on the previously OBSERVED state.                 *)
EXTENDS LinForm, TLC, Json
\* ---- fast variants of LinForm!Inner / Sq / EVal: the pair table of every dimension is a constant (TLC
\* evaluates it once), LinForm!PairSeq is recursive and would be rebuilt at every call
MaxDim == 26
PST == [n \in 1..MaxDim |-> PairSeq(n)]
InnerF(ne, p, q) == LET ps == PST[Len(p)] IN
   [F |-> ZeroV(ne),
    G |-> [k \in 1..Len(ps) |-> LET i == ps[k][1]  j == ps[k][2] IN
              IF i = j THEN (IF p[i][1] = 0 \/ q[i][1] = 0 THEN Z ELSE RMul(p[i], q[i]))
              ELSE IF (p[i][1] = 0 \/ q[j][1] = 0) /\ (p[j][1] = 0 \/ q[i][1] = 0) THEN Z
              ELSE RAdd(RMul(p[i], q[j]), RMul(p[j], q[i]))],
    c |-> Z]
SqF(ne, p) == InnerF(ne, p, p)
\* ---------------------------------------------------------------------------------------- function table
\* the driver (harness/drv_c08.py build()) declares exactly these functions, in this order
FT == << [kind |-> "leaf", diff |-> TRUE,  t |-> <<>>, w |-> <<>>],              \* 1  D1  smooth strongly convex
         [kind |-> "leaf", diff |-> TRUE,  t |-> <<>>, w |-> <<>>],              \* 2  D2  smooth convex
         [kind |-> "leaf", diff |-> FALSE, t |-> <<>>, w |-> <<>>],              \* 3  N1  convex
         [kind |-> "leaf", diff |-> FALSE, t |-> <<>>, w |-> <<>>],              \* 4  N2  convex indicator
         [kind |-> "leaf", diff |-> FALSE, t |-> <<>>, w |-> <<>>],              \* 5  N3  convex indicator
         [kind |-> "sum",  diff |-> FALSE, t |-> <<1, 3>>, w |-> <<One, Two>>],  \* 6  S = D1 + 2 N1
         [kind |-> "sum",  diff |-> TRUE,  t |-> <<1, 2>>, w |-> <<One, Half>>], \* 7  M = D1 + D2/2
         [kind |-> "sum",  diff |-> FALSE, t |-> <<4, 5>>, w |-> <<One, Two>>],  \* 8 K = N2 + 2 N3
         \* 9  Zc = (D1 + N1) - N1: the stored weights are {D1: 1, N1: 0}; add_point prunes the cancelled term, so a
         \*    step that registers its sample through add_point (prox, line search) treats Zc as the one-term sum 1*D1
         [kind |-> "sum",  diff |-> FALSE, t |-> <<1>>, w |-> <<One>>] >>
NF == Len(FT)
\* ------------------------------------------------------------------------------------------------ state
\* st = [dp, de : dimensions of the normal forms;  np, ne : number of leaf points / expressions so far;
\*       S : per function the sequence of samples [x, g, f];  C : per function the sequence of [e, sense]]
InitSt(dp, de, np, ne) == [dp |-> dp, de |-> de, np |-> np, ne |-> ne,
                           S |-> [i \in 1..NF |-> <<>>], C |-> [i \in 1..NF |-> <<>>]]
Pt(v) == [k |-> "pt", p |-> v, e |-> 0]
Ex(e) == [k |-> "ex", p |-> 0, e |-> e]
NewPt(st) == UnitV(st.dp, st.np + 1)
NewEx(st) == ELeaf(st.dp, st.de, st.ne + 1)
BumpP(st) == [st EXCEPT !.np = @ + 1]
BumpE(st) == [st EXCEPT !.ne = @ + 1]
AddS(st, f, x, g, v) == [st EXCEPT !.S[f] = Append(@, [x |-> x, g |-> g, f |-> v])]
AddC(st, f, e, sense) == [st EXCEPT !.C[f] = Append(@, [e |-> e, sense |-> sense])]
\* --------------------------------------------------------------- Function.oracle / value / add_point
EvIdx(st, f, x) == {k \in 1..Len(st.S[f]) : st.S[f][k].x = x}
IsEv(st, f, x) == EvIdx(st, f, x) # {}
FirstEv(st, f, x) == LET I == EvIdx(st, f, x) IN st.S[f][CHOOSE k \in I : \A j \in I : k <= j]
\* a leaf function: a differentiable one returns its recorded gradient and value; a non-differentiable one
\* keeps its recorded value and gets a new subgradient; a new point gets a new gradient and a new value
LeafOracle(st, f, x) ==
  IF IsEv(st, f, x) THEN
     LET s == FirstEv(st, f, x) IN
     IF FT[f].diff THEN [st |-> st, g |-> s.g, v |-> s.f]
     ELSE LET g == NewPt(st) IN [st |-> AddS(BumpP(st), f, x, g, s.f), g |-> g, v |-> s.f]
  ELSE LET g == NewPt(st)  v == NewEx(st) IN [st |-> AddS(BumpE(BumpP(st)), f, x, g, v), g |-> g, v |-> v]
Need(st, t, x) == IF IsEv(st, t, x) THEN (IF FT[t].diff THEN "nothing" ELSE "gonly") ELSE "both"
NTerms(f) == Len(FT[f].t)
TermOrder(st, f, x) ==
  LET idx == [i \in 1..NTerms(f) |-> i]
      N0(i) == Need(st, FT[f].t[i], x) = "nothing"
      N1(i) == Need(st, FT[f].t[i], x) = "gonly"
      N2(i) == Need(st, FT[f].t[i], x) = "both"
  IN SelectSeq(idx, N0) \o SelectSeq(idx, N1) \o SelectSeq(idx, N2)
\* the sample (x, g, v) of a sum is distributed: every term but the last one visited is asked its oracle,
\* the last one receives the remainder divided by its weight
RECURSIVE Dist(_, _, _, _, _, _, _)
Dist(st, f, x, ord, i, rg, rv) ==
  LET k == ord[i]  t == FT[f].t[k]  w == FT[f].w[k] IN
  IF i < Len(ord) THEN LET o == LeafOracle(st, t, x)
                       IN Dist(o.st, f, x, ord, i + 1, VSub(rg, VScale(w, o.g)), ESub(rv, EScale(w, o.v)))
  ELSE AddS(st, t, x, VScale(RInv(w), rg), EScale(RInv(w), rv))
AddPoint(st, f, x, g, v) ==
  LET s1 == AddS(st, f, x, g, v) IN
  IF FT[f].kind = "leaf" THEN s1
  ELSE IF \A i \in 1..NTerms(f) : Need(s1, FT[f].t[i], x) = "nothing" THEN s1
  ELSE Dist(s1, f, x, TermOrder(s1, f, x), 1, g, v)
RECURSIVE SumG(_, _, _, _), SumV(_, _, _, _)
SumG(st, f, x, i) == IF i > NTerms(f) THEN ZeroV(st.dp)
                     ELSE VAdd(VScale(FT[f].w[i], FirstEv(st, FT[f].t[i], x).g), SumG(st, f, x, i + 1))
SumV(st, f, x, i) == IF i > NTerms(f) THEN ZeroE(st.dp, st.de)
                     ELSE EAdd(EScale(FT[f].w[i], FirstEv(st, FT[f].t[i], x).f), SumV(st, f, x, i + 1))
Oracle(st, f, x) ==
  IF FT[f].kind = "leaf" THEN LeafOracle(st, f, x)
  ELSE IF IsEv(st, f, x) /\ FT[f].diff THEN LET s == FirstEv(st, f, x) IN [st |-> st, g |-> s.g, v |-> s.f]
  ELSE
  LET ev == IsEv(st, f, x)
      noBoth == \A i \in 1..NTerms(f) : Need(st, FT[f].t[i], x) # "both"
      allNothing == \A i \in 1..NTerms(f) : Need(st, FT[f].t[i], x) = "nothing"
      vfresh == ~ev /\ ~noBoth
      v == IF ev THEN FirstEv(st, f, x).f ELSE IF noBoth THEN SumV(st, f, x, 1) ELSE NewEx(st)
      s1 == IF vfresh THEN BumpE(st) ELSE st
      g == IF allNothing THEN SumG(st, f, x, 1) ELSE NewPt(s1)
      s2 == IF allNothing THEN s1 ELSE BumpP(s1)
  IN [st |-> AddPoint(s2, f, x, g, v), g |-> g, v |-> v]
Value(st, f, x) == IF IsEv(st, f, x) THEN [st |-> st, v |-> FirstEv(st, f, x).f]
                   ELSE LET o == Oracle(st, f, x) IN [st |-> o.st, v |-> o.v]
\* ------------------------------------------------------------------------- the steps, from the docstrings
\* proximal_step(x0, f, gamma):  x = x0 - gamma g_x for some g_x in df(x);  returns (x, g_x, f(x))
SProx(st, x0, f, gam) ==
  LET gx == NewPt(st)  fx == NewEx(st)  x == VSub(x0, VScale(gam, gx))
  IN [st |-> AddPoint(BumpE(BumpP(st)), f, x, gx, fx), ret |-> <<Pt(x), Pt(gx), Ex(fx)>>]
\* inexact_gradient_step(x0, f, gamma, epsilon, notion):  x = x0 - gamma d,
\*   ||d - grad f(x0)||^2 <= epsilon^2 (absolute) | epsilon^2 ||grad f(x0)||^2 (relative); returns (x, d, f(x0))
InGradBound(st, g, eps, opt) == IF opt = "absolute" THEN EConst(st.dp, st.de, RSq(eps))
                                ELSE EScale(RSq(eps), SqF(st.de, g))
SInGrad(st, x0, f, gam, eps, opt) ==
  LET o == Oracle(st, f, x0)
      d == NewPt(o.st)
      con == ESub(SqF(st.de, VSub(d, o.g)), InGradBound(st, o.g, eps, opt))
  IN [st |-> AddC(BumpP(o.st), f, con, "ineq"), ret |-> <<Pt(VSub(x0, VScale(gam, d))), Pt(d), Ex(o.v)>>]
\* inexact_proximal_step(x0, f, gamma, opt): returns (x, g in df(x), f(x), w, v in df(w), f(w), eps) with
\*   Phi_p(x; x0) - Phi_d(v; x0) <= eps,
\*   Phi_p(x; x0) = gamma f(x) + |x - x0|^2 / 2,   Phi_d(v; x0) = - gamma f*(v) - |x0 - gamma v|^2 / 2 + |x0|^2 / 2,
\*   f*(v) = <v, w> - f(w) because v in df(w);
\*   PD_gapI: nothing more;  PD_gapII: v = g, w = x;  PD_gapIII: v = (x0 - x) / gamma
PDGap(st, x0, gam, x, fx, v, w, fw) ==
  LET ne == st.de
      phip == EAdd(EScale(gam, fx), EScale(Half, SqF(ne, VSub(x, x0))))
      fstar == ESub(InnerF(ne, v, w), fw)
      phid == EAdd(ESub(ENeg(EScale(gam, fstar)), EScale(Half, SqF(ne, VSub(x0, VScale(gam, v))))),
                   EScale(Half, SqF(ne, x0)))
  IN ESub(phip, phid)
SInProx(st, x0, f, gam, opt) ==
  CASE opt = "PD_gapI" ->
         LET v == NewPt(st)  w == NewPt(BumpP(st))  fw == NewEx(st)
             s1 == AddPoint(BumpE(BumpP(BumpP(st))), f, w, v, fw)
             x == NewPt(s1)  gx == NewPt(BumpP(s1))  fx == NewEx(s1)
             s2 == AddPoint(BumpE(BumpP(BumpP(s1))), f, x, gx, fx)
             eps == NewEx(s2)
             con == ESub(PDGap(st, x0, gam, x, fx, v, w, fw), eps)
         IN [st |-> AddC(BumpE(s2), f, con, "ineq"),
             ret |-> <<Pt(x), Pt(gx), Ex(fx), Pt(w), Pt(v), Ex(fw), Ex(eps)>>]
    [] opt = "PD_gapII" ->
         LET e == NewPt(st)  gx == NewPt(BumpP(st))  fx == NewEx(st)
             x == VAdd(VSub(x0, VScale(gam, gx)), e)
             s1 == AddPoint(BumpE(BumpP(BumpP(st))), f, x, gx, fx)
             eps == NewEx(s1)
             con == ESub(PDGap(st, x0, gam, x, fx, gx, x, fx), eps)
         IN [st |-> AddC(BumpE(s1), f, con, "ineq"),
             ret |-> <<Pt(x), Pt(gx), Ex(fx), Pt(x), Pt(gx), Ex(fx), Ex(eps)>>]
    [] opt = "PD_gapIII" ->
         LET x == NewPt(st)  gx == NewPt(BumpP(st))  w == NewPt(BumpP(BumpP(st)))
             v == VScale(RInv(gam), VSub(x0, x))
             fw == NewEx(st)  fx == NewEx(BumpE(st))
             s0 == BumpE(BumpE(BumpP(BumpP(BumpP(st)))))
             s1 == AddPoint(s0, f, x, gx, fx)
             s2 == AddPoint(s1, f, w, v, fw)
             eps == NewEx(s2)
             con == ESub(PDGap(st, x0, gam, x, fx, v, w, fw), eps)
         IN [st |-> AddC(BumpE(s2), f, con, "ineq"),
             ret |-> <<Pt(x), Pt(gx), Ex(fx), Pt(w), Pt(v), Ex(fw), Ex(eps)>>]
\* exact_linesearch_step(x0, f, directions): <grad f(x), d_i> = 0 for every i and <grad f(x), x - x0> = 0
RECURSIVE AddOrth(_, _, _, _, _)
AddOrth(st, f, g, dirs, i) == IF i > Len(dirs) THEN st
                              ELSE AddOrth(AddC(st, f, InnerF(st.de, dirs[i], g), "eq"), f, g, dirs, i + 1)
SLine(st, x0, f, dirs) ==
  LET x == NewPt(st)
      o == Oracle(BumpP(st), f, x)
      s1 == AddC(o.st, f, InnerF(st.de, VSub(x, x0), o.g), "eq")
  IN [st |-> AddOrth(s1, f, o.g, dirs, 1), ret |-> <<Pt(x), Pt(o.g), Ex(o.v)>>]
\* bregman_gradient_step(gx0, sx0, mirror_map, gamma): grad h(x) = grad h(x0) - gamma grad f(x0); returns (x, sx, hx)
SBregGrad(st, gx0, sx0, h, gam) ==
  LET x == NewPt(st)  hx == NewEx(st)  sx == VSub(sx0, VScale(gam, gx0))
  IN [st |-> AddPoint(BumpE(BumpP(st)), h, x, sx, hx), ret |-> <<Pt(x), Pt(sx), Ex(hx)>>]
\* bregman_proximal_step(sx0, mirror_map, min_function, gamma): grad h(x) = grad h(x0) - gamma grad f(x);
\*   returns (x, sx, hx, gx, fx)
SBregProx(st, sx0, h, f, gam) ==
  LET x == NewPt(st)  gx == NewPt(BumpP(st))  fx == NewEx(st)  hx == NewEx(BumpE(st))
      sx == VSub(sx0, VScale(gam, gx))
      s1 == AddPoint(BumpE(BumpE(BumpP(BumpP(st)))), f, x, gx, fx)
  IN [st |-> AddPoint(s1, h, x, sx, hx), ret |-> <<Pt(x), Pt(sx), Ex(hx), Pt(gx), Ex(fx)>>]
\* linear_optimization_step(dir, ind): x in argmin_{ind(x)=0} <dir, x>  iff  -dir in d ind(x); returns (x, -dir, ind(x))
SLmo(st, dir, ind) ==
  LET x == NewPt(st)  fx == NewEx(st)  gx == VNeg(dir)
  IN [st |-> AddPoint(BumpE(BumpP(st)), ind, x, gx, fx), ret |-> <<Pt(x), Pt(gx), Ex(fx)>>]
\* epsilon_subgradient_step(x0, f, gamma): x = x0 - gamma g0,  f(x0) + f*(g0) - <g0, x0> <= eps,
\*   f*(g0) = <g0, y> - f(y) for some y with g0 in df(y); returns (x, g0, f(x0), eps)
SEpsSub(st, x0, f, gam) ==
  LET g0 == NewPt(st)
      val == Value(BumpP(st), f, x0)
      eps == NewEx(val.st)
      y == NewPt(val.st)  fy == NewEx(BumpE(val.st))
      s1 == AddPoint(BumpE(BumpE(BumpP(val.st))), f, y, g0, fy)
      fstar == ESub(InnerF(st.de, g0, y), fy)
      con == ESub(ESub(EAdd(val.v, fstar), InnerF(st.de, g0, x0)), eps)
  IN [st |-> AddC(s1, f, con, "ineq"), ret |-> <<Pt(VSub(x0, VScale(gam, g0))), Pt(g0), Ex(val.v), Ex(eps)>>]
\* ------------------------------------------------------------------------------------------------ calls
\* c = [step, opt, f, h, a, b, dirs, gn, gd, en, ed]; point arguments are shapes:
\*   L1 = x0 (leaf), L2 = x1 (leaf), CB = x0 - x1/2, R1 / R2 = first / second component of the last returned tuple
Arg(shape, st, last) ==
  CASE shape = "L1" -> UnitV(st.dp, 1)
    [] shape = "L2" -> UnitV(st.dp, 2)
    [] shape = "CB" -> VSub(UnitV(st.dp, 1), VScale(Half, UnitV(st.dp, 2)))
    [] shape = "R1" -> last[1].p
    [] shape = "R2" -> last[2].p
Gam(c) == <<c.gn, c.gd>>
Eps(c) == <<c.en, c.ed>>
Apply(c, st, last) ==
  LET a == Arg(c.a, st, last) IN
  CASE c.step = "proximal_step" -> SProx(st, a, c.f, Gam(c))
    [] c.step = "inexact_gradient_step" -> SInGrad(st, a, c.f, Gam(c), Eps(c), c.opt)
    [] c.step = "inexact_proximal_step" -> SInProx(st, a, c.f, Gam(c), c.opt)
    [] c.step = "exact_linesearch_step" ->
         SLine(st, a, c.f, [i \in 1..Len(c.dirs) |-> Arg(c.dirs[i], st, last)])
    [] c.step = "bregman_gradient_step" -> SBregGrad(st, Arg(c.b, st, last), a, c.h, Gam(c))
    [] c.step = "bregman_proximal_step" -> SBregProx(st, a, c.h, c.f, Gam(c))
    [] c.step = "linear_optimization_step" -> SLmo(st, a, c.f)
    [] c.step = "epsilon_subgradient_step" -> SEpsSub(st, a, c.f, Gam(c))
\* options outside the documented ones: the docstring of inexact_gradient_step promises ValueError
\* undocumented option values (a fragment of a documented one included): the step must raise ValueError
BogusOpts == {"bogus", "rel", "PD_gap"}
Bogus(c) == c.opt \in BogusOpts
\* --------------------------------------------------- the documented relations, declaratively (invariant)
NewS(pre, post, f) == SubSeq(post.S[f], Len(pre.S[f]) + 1, Len(post.S[f]))
NewC(pre, post, f) == SubSeq(post.C[f], Len(pre.C[f]) + 1, Len(post.C[f]))
Range(s) == {s[i] : i \in DOMAIN s}
Terms(f) == IF f = 0 THEN {} ELSE {FT[f].t[i] : i \in 1..NTerms(f)}
IsFreshP(pre, post, v) == \E k \in (pre.np + 1)..post.np : v = UnitV(pre.dp, k)
IsFreshE(pre, post, e) == \E k \in (pre.ne + 1)..post.ne : e = ELeaf(pre.dp, pre.de, k)
Smp(x, g, f) == [x |-> x.p, g |-> g.p, f |-> f.e]
NormSet(cs) == {NormForm(cs[i].e, cs[i].sense) : i \in DOMAIN cs}
\* functions other than F (and the terms of its members) are untouched
OnlyTouches(pre, post, F) ==
  \A g \in 1..NF : g \notin (F \cup UNION {Terms(f) : f \in F}) => NewS(pre, post, g) = <<>> /\ NewC(pre, post, g) = <<>>
\* every new sample of a sum is the weighted sum of samples of its terms at the same point
SumConsistent(pre, post, f) ==
  FT[f].kind = "leaf" \/
  \A s \in Range(NewS(pre, post, f)) :
     IF NTerms(f) = 1
     THEN \E s1 \in Range(post.S[FT[f].t[1]]) :
            s1.x = s.x /\ VScale(FT[f].w[1], s1.g) = s.g /\ EScale(FT[f].w[1], s1.f) = s.f
     ELSE \E s1 \in Range(post.S[FT[f].t[1]]), s2 \in Range(post.S[FT[f].t[2]]) :
        /\ s1.x = s.x /\ s2.x = s.x
        /\ VAdd(VScale(FT[f].w[1], s1.g), VScale(FT[f].w[2], s2.g)) = s.g
        /\ EAdd(EScale(FT[f].w[1], s1.f), EScale(FT[f].w[2], s2.f)) = s.f
\* every fresh leaf occurs somewhere in what the call returned or recorded
UsedP(pre, post, ret, k) ==
  \/ \E i \in DOMAIN ret : ret[i].k = "pt" /\ ret[i].p[k][1] # 0
  \/ \E f \in 1..NF : \E s \in Range(NewS(pre, post, f)) : s.x[k][1] # 0 \/ s.g[k][1] # 0
UsedE(pre, post, ret, k) ==
  \/ \E i \in DOMAIN ret : ret[i].k = "ex" /\ ret[i].e.F[k][1] # 0
  \/ \E f \in 1..NF : \E s \in Range(NewS(pre, post, f)) : s.f.F[k][1] # 0
  \/ \E f \in 1..NF : \E c \in Range(NewC(pre, post, f)) : c.e.F[k][1] # 0
FreshUsed(pre, post, ret) == /\ \A k \in (pre.np + 1)..post.np : UsedP(pre, post, ret, k)
                             /\ \A k \in (pre.ne + 1)..post.ne : UsedE(pre, post, ret, k)
InProxOpt(opt, pre, post, ret, a, gam, nsf) ==
  CASE opt = "PD_gapI" -> /\ Len(nsf) = 2 /\ IsFreshP(pre, post, ret[1].p)
                          /\ IsFreshP(pre, post, ret[4].p) /\ IsFreshP(pre, post, ret[5].p)
                          /\ IsFreshE(pre, post, ret[6].e)
    [] opt = "PD_gapII" -> Len(nsf) = 1 /\ ret[4] = ret[1] /\ ret[5] = ret[2] /\ ret[6] = ret[3]
    [] opt = "PD_gapIII" -> /\ Len(nsf) = 2 /\ VScale(gam, ret[5].p) = VSub(a, ret[1].p)
                            /\ IsFreshP(pre, post, ret[1].p) /\ IsFreshP(pre, post, ret[4].p)
                            /\ IsFreshE(pre, post, ret[6].e)
DocRel(c, pre, post, ret, last) ==
  LET a == Arg(c.a, pre, last)  gam == Gam(c)  f == c.f  h == c.h
      nsf == NewS(pre, post, f)  ncf == NewC(pre, post, f)
      noCons == \A g \in 1..NF : NewC(pre, post, g) = <<>>
  IN
  /\ FreshUsed(pre, post, ret)
  /\ \A g \in 1..NF : SumConsistent(pre, post, g)
  /\ CASE c.step = "proximal_step" ->
            /\ VAdd(ret[1].p, VScale(gam, ret[2].p)) = a
            /\ IsFreshP(pre, post, ret[2].p) /\ IsFreshE(pre, post, ret[3].e)
            /\ nsf = <<Smp(ret[1], ret[2], ret[3])>> /\ noCons /\ OnlyTouches(pre, post, {f})
       [] c.step = "inexact_gradient_step" ->
            /\ VAdd(ret[1].p, VScale(gam, ret[2].p)) = a /\ IsFreshP(pre, post, ret[2].p)
            /\ Len(nsf) <= 1 /\ \A s \in Range(nsf) : s.x = a
            /\ \E s \in Range(post.S[f]) :
                  /\ s.x = a /\ s.f = ret[3].e
                  /\ NormSet(ncf) = {NormForm(ESub(SqF(pre.de, VSub(ret[2].p, s.g)),
                                                   InGradBound(pre, s.g, Eps(c), c.opt)), "ineq")}
            /\ Len(ncf) = 1 /\ OnlyTouches(pre, post, {f})
       [] c.step = "inexact_proximal_step" ->
            /\ Smp(ret[1], ret[2], ret[3]) \in Range(nsf) /\ Smp(ret[4], ret[5], ret[6]) \in Range(nsf)
            /\ IsFreshE(pre, post, ret[7].e) /\ IsFreshE(pre, post, ret[3].e) /\ IsFreshP(pre, post, ret[2].p)
            /\ NormSet(ncf) = {NormForm(ESub(PDGap(pre, a, gam, ret[1].p, ret[3].e, ret[5].p, ret[4].p, ret[6].e),
                                             ret[7].e), "ineq")}
            /\ Len(ncf) = 1 /\ OnlyTouches(pre, post, {f})
            /\ InProxOpt(c.opt, pre, post, ret, a, gam, nsf)
       [] c.step = "exact_linesearch_step" ->
            /\ IsFreshP(pre, post, ret[1].p) /\ nsf = <<Smp(ret[1], ret[2], ret[3])>>
            /\ NormSet(ncf) = {NormForm(InnerF(pre.de, ret[2].p, VSub(ret[1].p, a)), "eq")}
                              \cup {NormForm(InnerF(pre.de, ret[2].p, Arg(c.dirs[i], pre, last)), "eq") : i \in DOMAIN c.dirs}
            /\ OnlyTouches(pre, post, {f})
       [] c.step = "bregman_gradient_step" ->
            /\ IsFreshP(pre, post, ret[1].p) /\ IsFreshE(pre, post, ret[3].e)
            /\ ret[2].p = VSub(a, VScale(gam, Arg(c.b, pre, last)))
            /\ NewS(pre, post, h) = <<Smp(ret[1], ret[2], ret[3])>> /\ noCons /\ OnlyTouches(pre, post, {h})
       [] c.step = "bregman_proximal_step" ->
            /\ IsFreshP(pre, post, ret[1].p) /\ IsFreshP(pre, post, ret[4].p)
            /\ IsFreshE(pre, post, ret[3].e) /\ IsFreshE(pre, post, ret[5].e)
            /\ VAdd(ret[2].p, VScale(gam, ret[4].p)) = a
            /\ Smp(ret[1], ret[4], ret[5]) \in Range(nsf)
            /\ Smp(ret[1], ret[2], ret[3]) \in Range(NewS(pre, post, h))
            /\ noCons /\ OnlyTouches(pre, post, {f, h})
       [] c.step = "linear_optimization_step" ->
            /\ IsFreshP(pre, post, ret[1].p) /\ IsFreshE(pre, post, ret[3].e)
            /\ VAdd(ret[2].p, a) = ZeroV(pre.dp)
            /\ nsf = <<Smp(ret[1], ret[2], ret[3])>> /\ noCons /\ OnlyTouches(pre, post, {f})
       [] c.step = "epsilon_subgradient_step" ->
            /\ VAdd(ret[1].p, VScale(gam, ret[2].p)) = a
            /\ IsFreshP(pre, post, ret[2].p) /\ IsFreshE(pre, post, ret[4].e)
            /\ \E s \in Range(post.S[f]) : s.x = a /\ s.f = ret[3].e
            /\ \E s \in Range(nsf) :
                  /\ s.g = ret[2].p /\ IsFreshP(pre, post, s.x) /\ IsFreshE(pre, post, s.f)
                  /\ NormSet(ncf) = {NormForm(ESub(ESub(EAdd(ret[3].e, ESub(InnerF(pre.de, ret[2].p, s.x), s.f)),
                                                        InnerF(pre.de, ret[2].p, a)), ret[4].e), "ineq")}
            /\ Len(ncf) = 1 /\ OnlyTouches(pre, post, {f})
\* ------------------------------------------------------------------------------------------ state machine
CONSTANTS Depth,      \* number of calls of a program
          Grid,       \* 0: gamma in {1/2, 1, 2}, epsilon in {0, 1/2};  1: gamma = 2, epsilon = 1/2;
                      \* 2: as 0, but every step action offers ONE call drawn at random (for -simulate: TLC's
                      \*    simulator computes all successors of a state before it picks one)
          DimP, DimE      \* dimensions of the normal forms of the model
VARIABLES st, prev, last, plast, hist
vars == <<st, prev, last, plast, hist>>
Gammas == IF Grid = 1 THEN {<<2, 1>>} ELSE {<<1, 2>>, <<1, 1>>, <<2, 1>>}
Epsilons == IF Grid = 1 THEN {<<1, 2>>} ELSE {<<0, 1>>, <<1, 2>>, <<2, 1>>}        \* 2: an accuracy beyond 1 (relative notion)
Generic == {1, 3, 6}                 \* functions given to the steps that take any function
Starts(ls) == IF ls = <<>> THEN {"L1", "CB"} ELSE {"L1", "CB", "R1"}
Others(ls) == IF ls = <<>> THEN {"L1", "CB"} ELSE {"L1", "CB", "R2"}
Grads(ls) == IF ls = <<>> THEN {"L2"} ELSE {"L2", "R2"}
DirLists(ls) == {<<>>, <<"L2">>, <<"L2", "CB">>} \cup (IF ls = <<>> THEN {} ELSE {<<"R2">>})
Call(s, o, f, h, a, b, ds, g, e) == [step |-> s, opt |-> o, f |-> f, h |-> h, a |-> a, b |-> b, dirs |-> ds,
                                     gn |-> g[1], gd |-> g[2], en |-> e[1], ed |-> e[2]]
Calls(ls) ==
       {Call("proximal_step", "-", f, 0, a, "-", <<>>, g, <<0, 1>>) : f \in Generic \cup {9}, a \in Starts(ls), g \in Gammas}
  \cup {Call("inexact_gradient_step", o, f, 0, a, "-", <<>>, g, e) :
           o \in {"absolute", "relative"}, f \in Generic, a \in Starts(ls), g \in Gammas, e \in Epsilons}
  \cup {Call("inexact_proximal_step", o, f, 0, a, "-", <<>>, g, <<0, 1>>) :
           o \in {"PD_gapI", "PD_gapII", "PD_gapIII"}, f \in Generic, a \in Starts(ls), g \in Gammas}
  \cup {Call("exact_linesearch_step", "-", f, 0, a, "-", ds, <<1, 1>>, <<0, 1>>) :
           f \in Generic, a \in Starts(ls), ds \in DirLists(ls)}
  \cup {Call("bregman_gradient_step", "-", 0, h, a, b, <<>>, g, <<0, 1>>) :
           h \in {1, 7, 3, 6}, a \in Others(ls), b \in Grads(ls), g \in Gammas}
  \cup {Call("bregman_proximal_step", "-", hf[2], hf[1], a, "-", <<>>, g, <<0, 1>>) :
           hf \in {<<1, 3>>, <<7, 3>>, <<2, 6>>, <<7, 6>>, <<7, 1>>, <<7, 2>>}, a \in Others(ls), g \in Gammas}    \* <<7, 1>>, <<7, 2>>: the mirror map CONTAINS the minimised function
  \cup {Call("linear_optimization_step", "-", f, 0, a, "-", <<>>, <<1, 1>>, <<0, 1>>) : f \in {4, 8}, a \in Others(ls)}
  \cup {Call("epsilon_subgradient_step", "-", f, 0, a, "-", <<>>, g, <<0, 1>>) : f \in Generic, a \in Starts(ls), g \in Gammas}
BogusCalls == {Call("inexact_gradient_step", "bogus", 1, 0, "L1", "-", <<>>, <<1, 1>>, <<1, 2>>),
               Call("inexact_gradient_step", "rel", 1, 0, "L1", "-", <<>>, <<1, 1>>, <<1, 2>>),
               Call("inexact_proximal_step", "bogus", 3, 0, "L1", "-", <<>>, <<1, 1>>, <<0, 1>>),
               Call("inexact_proximal_step", "PD_gap", 3, 0, "L1", "-", <<>>, <<1, 1>>, <<0, 1>>)}
Init == /\ st = InitSt(DimP, DimE, 2, 0) /\ prev = InitSt(DimP, DimE, 2, 0) /\ last = <<>> /\ plast = <<>> /\ hist = <<>>
Fire(step) ==
            /\ \E c \in (LET S == {x \in Calls(last) : x.step = step} IN IF Grid = 2 THEN {RandomElement(S)} ELSE S) :
                  LET r == Apply(c, st, last) IN
                  /\ st' = r.st /\ last' = r.ret /\ prev' = st /\ plast' = last /\ hist' = Append(hist, c)
DoProx == Len(hist) < Depth /\ Fire("proximal_step")
DoInGrad == Len(hist) < Depth /\ Fire("inexact_gradient_step")
DoInProx == Len(hist) < Depth /\ Fire("inexact_proximal_step")
DoLine == Len(hist) < Depth /\ Fire("exact_linesearch_step")
DoBregGrad == Len(hist) < Depth /\ Fire("bregman_gradient_step")
DoBregProx == Len(hist) < Depth /\ Fire("bregman_proximal_step")
DoLmo == Len(hist) < Depth /\ Fire("linear_optimization_step")
DoEpsSub == Len(hist) < Depth /\ Fire("epsilon_subgradient_step")
DoBogus == /\ hist = <<>> /\ Depth = 1
           /\ \E c \in BogusCalls : /\ hist' = <<c>> /\ UNCHANGED <<st, prev, last, plast>>
Next == DoProx \/ DoInGrad \/ DoInProx \/ DoLine \/ DoBregGrad \/ DoBregProx \/ DoLmo \/ DoEpsSub \/ DoBogus
Spec == Init /\ [][Next]_vars
\* ---- properties of the model
Documented == hist = <<>> \/ Bogus(hist[Len(hist)]) \/ DocRel(hist[Len(hist)], prev, st, last, plast)
Fits == st.np <= DimP /\ st.ne <= DimE
\* ---- export
Maximal == Len(hist) = Depth
Emit == Maximal => PrintT(ToJson([h |-> hist]))
=============================================================================
