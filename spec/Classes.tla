------------------------------ MODULE Classes ------------------------------
(* C04 / C17.  The documented conditions of the 24 shipped classes (PEPit/functions, PEPit/operators),     *)
(* transcribed from the class docstrings and the literature results they cite -- NOT from the bodies of    *)
(* add_class_constraints.  Everything is symbolic: a condition is an expression normal form E (LinForm)    *)
(* meaning  E <= 0  (sense "ineq")  or  E = 0  (sense "eq")  over the leaves of the recorded samples.       *)
(*                                                                                                        *)
(*   sample  = [x, g : point normal forms, f : expression normal form, stat : BOOLEAN (zero subgradient,  *)
(*              member of list_of_stationary_points), gb : block projections of g (block classes only),   *)
(*              name : name of x ("" = unnamed)]                                                          *)
(*   context = [ne, P : Seq(Rat) declared parameters (Inf = <<1, 0>>), S : samples, TS : samples of the    *)
(*              adjoint (LinearOperator only), v : point (NonexpansiveOperator with a displacement vector)]*)
(*                                                                                                        *)
(*   Tabs(cls, P)     the documented tables of a class: condition name, the two lists, which pairs are     *)
(*                    required (C04) and which entries of the table carry a constraint (C17)              *)
(*   Cond(C, t, a, b) the documented condition of table t for the samples a (row) and b (column)          *)
(*   ExpRecs / ExpLMIs the documented scalar conditions on all required pairs / the documented LMIs       *)
(* Pairs are pairs of SAMPLES (identity = index in the list of recorded samples), never of list positions. *)
EXTENDS LinForm, TLC

Inf == <<1, 0>>
IsInf(a) == a[2] = 0

ClassNames == <<"ConvexFunction", "StronglyConvexFunction", "SmoothFunction", "SmoothConvexFunction",
                "SmoothStronglyConvexFunction", "ConvexLipschitzFunction", "SmoothConvexLipschitzFunction",
                "ConvexQGFunction", "RsiEbFunction", "ConvexIndicatorFunction", "ConvexSupportFunction",
                "SmoothStronglyConvexQuadraticFunction", "BlockSmoothConvexFunction",
                "CocoerciveOperator", "CocoerciveStronglyMonotoneOperator", "LinearOperator", "LipschitzOperator",
                "LipschitzStronglyMonotoneOperator", "MonotoneOperator", "NegativelyComonotoneOperator",
                "NonexpansiveOperator", "SkewSymmetricLinearOperator", "StronglyMonotoneOperator",
                "SymmetricLinearOperator">>
\* classes whose docstring keeps the default reuse_gradient=False (several subgradients at one point)
NonDiff == {"ConvexFunction", "StronglyConvexFunction", "ConvexLipschitzFunction", "ConvexQGFunction",
            "RsiEbFunction", "ConvexIndicatorFunction", "ConvexSupportFunction", "MonotoneOperator",
            "StronglyMonotoneOperator"}
\* classes that create a stationary point at solve time when none was declared
AutoStat == {"ConvexQGFunction", "RsiEbFunction"}

\* ---- tables ------------------------------------------------------------------------------------------
\*  rows, cols : "all" | "stat" | "adj" (samples of the adjoint) | "-" (one-list table: a single row)
\*  pairs  (C04, documented quantifier): "ordered"   all (a, b), a # b
\*                                       "unordered" all {a, b}, a # b        (condition symmetric in a, b)
\*                                       "all"       all (a, b), a = b included
\*                                       "single"    every sample
\*  layout (C17, where the constraint object sits): "full" entry (i, j) for different samples,
\*         "upper" entry (i, j), i < j ("symmetry=True: the number of constraints is divided by 2"), "row", "none"
Tab(name, rows, cols, pairs, layout, sense, k) ==
    [name |-> name, rows |-> rows, cols |-> cols, pairs |-> pairs, layout |-> layout, sense |-> sense, k |-> k]
T2(name) == Tab(name, "all", "all", "ordered", "full", "ineq", 0)
TU(name, sense) == Tab(name, "all", "all", "unordered", "upper", sense, 0)
T1(name, sense) == Tab(name, "-", "all", "single", "row", sense, 0)
Tabs(cls, P) ==
  CASE cls = "ConvexFunction" -> <<T2("convexity")>>
    [] cls = "StronglyConvexFunction" -> <<T2("strong_convexity")>>
    [] cls = "SmoothFunction" -> <<T2("smoothness")>>
    [] cls = "SmoothConvexFunction" -> <<T2("smoothness_convexity")>>
    [] cls = "SmoothStronglyConvexFunction" -> <<T2("smoothness_strong_convexity")>>
    [] cls = "ConvexLipschitzFunction" -> <<T1("lipschitz_continuity", "ineq"), T2("convexity")>>
    [] cls = "SmoothConvexLipschitzFunction" -> <<T2("smoothness_convexity"), T1("lipschitz_continuity", "ineq")>>
    [] cls = "ConvexQGFunction" -> <<Tab("qg_convexity", "stat", "all", "ordered", "full", "ineq", 0), T2("convexity")>>
    [] cls = "RsiEbFunction" -> <<Tab("rsi", "stat", "all", "ordered", "full", "ineq", 0),
                                  Tab("eb", "stat", "all", "ordered", "full", "ineq", 0)>>
    [] cls = "ConvexIndicatorFunction" ->
          <<T1("value", "eq"), T2("convexity")>> \o (IF IsInf(P[1]) THEN <<>> ELSE <<T2("diameter")>>)
    [] cls = "ConvexSupportFunction" ->
          <<T1("fenchel_value", "eq")>> \o (IF IsInf(P[1]) THEN <<>> ELSE <<T1("lipschitz_continuity", "ineq")>>)
          \o <<T2("convexity")>>
    [] cls = "SmoothStronglyConvexQuadraticFunction" -> <<T1("value", "eq"), TU("symmetry", "eq")>>
    [] cls = "BlockSmoothConvexFunction" ->
          [k \in 1..Len(P) |-> Tab("smoothness_convexity_block_" \o ToString(k - 1), "all", "all", "ordered", "full", "ineq", k)]
    [] cls = "CocoerciveOperator" -> <<TU("cocoercivity", "ineq")>>
    [] cls = "CocoerciveStronglyMonotoneOperator" -> <<TU("cocoercivity", "ineq"), TU("strong_monotonicity", "ineq")>>
    [] cls = "LinearOperator" -> <<Tab("?", "all", "adj", "all", "none", "eq", 0)>>
    [] cls = "LipschitzOperator" -> <<TU("lipschitz_continuity", "ineq")>>
    [] cls = "LipschitzStronglyMonotoneOperator" -> <<TU("strong_monotonicity", "ineq"), TU("lipschitz_continuity", "ineq")>>
    [] cls = "MonotoneOperator" -> <<TU("monotonicity", "ineq")>>
    [] cls = "NegativelyComonotoneOperator" -> <<TU("negative_comonotonicity", "ineq")>>
    [] cls = "NonexpansiveOperator" ->
          <<TU("nonexpansiveness", "ineq")>>
          \o (IF P[1] = Z THEN <<>> ELSE <<T1("infimal_displacement_vector", "ineq")>>)
    \* documented as X^T Y = -Y^T X, i.e. for ALL i, j: the diagonal <x_i, A x_i> = 0 is part of the condition
    [] cls = "SkewSymmetricLinearOperator" -> <<Tab("antisymmetric_linearity", "all", "all", "all", "upper", "eq", 0)>>
    [] cls = "StronglyMonotoneOperator" -> <<TU("strong_monotonicity", "ineq")>>
    [] cls = "SymmetricLinearOperator" -> <<TU("symmetric_linearity", "eq")>>

\* ---- conditions --------------------------------------------------------------------------------------
StatIdx(S) == {i \in 1..Len(S) : S[i].stat}
\* the reference stationary sample of the quadratic class (created by its constructor); zero point if absent
XStar(C) == LET I == StatIdx(C.S) IN IF I = {} THEN ZeroV(Len(C.v)) ELSE C.S[CHOOSE i \in I : \A j \in I : i <= j].x
FStar(C) == LET I == StatIdx(C.S) IN IF I = {} THEN ZeroE(Len(C.v), C.ne) ELSE C.S[CHOOSE i \in I : \A j \in I : i <= j].f

Cond(cls, C, t, a, b) ==
  LET ne == C.ne  np == Len(a.x)  P == C.P  n == t.name
      IP(p, q) == Inner(ne, p, q)
      N2(p) == Sq(ne, p)
      K(s) == EConst(np, ne, s)
      dx == VSub(a.x, b.x)
      dg == VSub(a.g, b.g)
      df == ESub(a.f, b.f)
      GE(l, r) == ESub(r, l)          \* l >= r   as   r - l <= 0
      LE(l, r) == ESub(l, r)          \* l <= r   as   l - r <= 0
      EQ(l, r) == ESub(l, r)
      P3(u, v, w) == EAdd(u, EAdd(v, w))
      xs == XStar(C)
  IN
  CASE \* f_a >= f_b + <g_b, x_a - x_b>
       n = "convexity" /\ cls \in {"ConvexFunction", "ConvexLipschitzFunction", "ConvexQGFunction"} ->
          GE(df, IP(b.g, dx))
       \* indicator [THG17b, Thm 3.6]: f_a = 0, <g_b, x_a - x_b> <= 0, |x_a - x_b| <= D
    [] n = "convexity" /\ cls = "ConvexIndicatorFunction" -> LE(IP(b.g, dx), K(Z))
    [] n = "value" /\ cls = "ConvexIndicatorFunction" -> EQ(b.f, K(Z))
    [] n = "diameter" -> LE(N2(dx), K(RSq(P[1])))
       \* support function [THG17b, Cor 3.7]: <g_a, x_a> = f_a, |g_a| <= M, <x_b, g_a - g_b> <= 0
    [] n = "convexity" /\ cls = "ConvexSupportFunction" -> LE(IP(b.x, dg), K(Z))
    [] n = "fenchel_value" -> EQ(ESub(IP(b.g, b.x), b.f), K(Z))
       \* f_a >= f_b + <g_b, x_a - x_b> + mu/2 |x_a - x_b|^2
    [] n = "strong_convexity" -> GE(df, EAdd(IP(b.g, dx), EScale(RMul(Half, P[1]), N2(dx))))
       \* [THG17b, Thm 3.10] f_a >= f_b - L/4 |x_a - x_b|^2 + 1/2 <g_a + g_b, x_a - x_b> + 1/(4L) |g_a - g_b|^2
    [] n = "smoothness" ->
          GE(df, P3(EScale(RNeg(RDiv(P[1], RI(4))), N2(dx)), EScale(Half, IP(VAdd(a.g, b.g), dx)),
                    EScale(RInv(RMul(RI(4), P[1])), N2(dg))))
       \* [THG17a, Thm 4] f_a >= f_b + <g_b, x_a - x_b> + 1/(2L) |g_a - g_b|^2
    [] n = "smoothness_convexity" -> GE(df, EAdd(IP(b.g, dx), EScale(RInv(RMul(Two, P[1])), N2(dg))))
       \* ... + mu / (2 (1 - mu/L)) |x_a - x_b - (g_a - g_b)/L|^2                       (P = <<mu, L>>)
    [] n = "smoothness_strong_convexity" ->
          LET mu == P[1]  L == P[2]  kk == RDiv(mu, RMul(Two, RSub(One, RDiv(mu, L)))) IN
          GE(df, P3(IP(b.g, dx), EScale(RInv(RMul(Two, L)), N2(dg)), EScale(kk, N2(VSub(dx, VScale(RInv(L), dg))))))
       \* |g_b|^2 <= M^2  (M is the last parameter of the class)
    [] n = "lipschitz_continuity" /\ t.layout = "row" -> LE(N2(b.g), K(RSq(P[Len(P)])))
       \* [GTD22, Thm 2.6] a = a stationary sample: f_a >= f_b + <g_b, x_a - x_b> + 1/(2L) |g_b|^2
    [] n = "qg_convexity" -> GE(df, EAdd(IP(b.g, dx), EScale(RInv(RMul(Two, P[1])), N2(b.g))))
       \* [GGIM22] a = x_* : <g_b, x_b - x_*> >= mu |x_b - x_*|^2 ;  |g_b|^2 <= L^2 |x_b - x_*|^2   (P = <<mu, L>>)
    [] n = "rsi" -> GE(IP(b.g, VSub(b.x, a.x)), EScale(P[1], N2(VSub(b.x, a.x))))
    [] n = "eb" -> LE(N2(b.g), EScale(RSq(P[2]), N2(VSub(b.x, a.x))))
       \* quadratic [BHG23, Thm 3.9]: f_b = f_* + 1/2 <x_b - x_*, g_b> ;  <x_a - x_*, g_b> = <x_b - x_*, g_a>
    [] n = "value" /\ cls = "SmoothStronglyConvexQuadraticFunction" ->
          EQ(ESub(b.f, FStar(C)), EScale(Half, IP(VSub(b.x, xs), b.g)))
    [] n = "symmetry" -> EQ(IP(VSub(a.x, xs), b.g), IP(VSub(b.x, xs), a.g))
       \* [SL16, Lemma 1.1] f_a >= f_b + <g_b, x_a - x_b> + 1/(2 L_k) |g_a^(k) - g_b^(k)|^2 for every block k
    [] t.k > 0 -> GE(df, EAdd(IP(b.g, dx), EScale(RInv(RMul(Two, P[t.k])), N2(VSub(a.gb[t.k], b.gb[t.k])))))
       \* operators
    [] n = "cocoercivity" -> GE(IP(dg, dx), EScale(P[Len(P)], N2(dg)))
    [] n = "strong_monotonicity" -> GE(IP(dg, dx), EScale(P[1], N2(dx)))
    [] n = "lipschitz_continuity" /\ t.layout # "row" -> LE(N2(dg), EScale(RSq(P[Len(P)]), N2(dx)))
    [] n = "monotonicity" -> GE(IP(dg, dx), K(Z))
    [] n = "negative_comonotonicity" -> GE(IP(dg, dx), EScale(RNeg(P[1]), N2(dg)))
    [] n = "nonexpansiveness" -> LE(N2(dg), N2(dx))
       \* [PR23, Thm 10] |v|^2 <= <x_b - T x_b, v>
    [] n = "infimal_displacement_vector" -> LE(N2(C.v), IP(VSub(b.x, b.g), C.v))
       \* [BHG23] X^T Y = -Y^T X ;  X^T Y = Y^T X ;  X^T V = Y^T U
    [] n = "antisymmetric_linearity" -> EQ(IP(a.x, b.g), ENeg(IP(b.x, a.g)))
    [] n = "symmetric_linearity" -> EQ(IP(a.x, b.g), IP(b.x, a.g))
    [] cls = "LinearOperator" -> EQ(IP(a.x, b.g), IP(a.g, b.x))

\* ---- required pairs (C04) ----------------------------------------------------------------------------
RowIdx(t, C) == IF t.rows = "stat" THEN StatIdx(C.S) ELSE 1..Len(C.S)
Recs(cls, C, t) ==
  LET S == C.S  N == Len(S) IN
  CASE t.pairs = "single" ->
         {[cond |-> t.name, kind |-> "single", i |-> 0, j |-> j, nf |-> NormForm(Cond(cls, C, t, S[j], S[j]), t.sense)] : j \in 1..N}
    [] t.pairs = "ordered" ->
         {[cond |-> t.name, kind |-> "pair", i |-> p[1], j |-> p[2], nf |-> NormForm(Cond(cls, C, t, S[p[1]], S[p[2]]), t.sense)] :
             p \in {q \in RowIdx(t, C) \X (1..N) : q[1] # q[2]}}
    [] t.pairs = "unordered" ->
         {[cond |-> t.name, kind |-> "pair", i |-> p[1], j |-> p[2], nf |-> NormForm(Cond(cls, C, t, S[p[1]], S[p[2]]), t.sense)] :
             p \in {q \in (1..N) \X (1..N) : q[1] < q[2]}}
    [] t.pairs = "all" /\ t.cols = "all" ->
         {[cond |-> t.name, kind |-> IF p[1] = p[2] THEN "diagonal" ELSE "pair", i |-> p[1], j |-> p[2],
           nf |-> NormForm(Cond(cls, C, t, S[p[1]], S[p[2]]), t.sense)] : p \in {q \in (1..N) \X (1..N) : q[1] <= q[2]}}
    [] t.pairs = "all" /\ t.cols = "adj" ->
         {[cond |-> t.name, kind |-> "pair", i |-> p[1], j |-> p[2], nf |-> NormForm(Cond(cls, C, t, S[p[1]], C.TS[p[2]]), t.sense)] :
             p \in (1..N) \X (1..Len(C.TS))}
ExpRecs(cls, C) == LET ts == Tabs(cls, C.P) IN
    {r \in UNION {Recs(cls, C, ts[k]) : k \in 1..Len(ts)} : r.nf # <<"trivial">>}
ExpNFs(cls, C) == {r.nf : r \in ExpRecs(cls, C)}

\* ---- documented LMIs: sequences of square matrices of expressions -----------------------------------
\*  symmetric linear, spectrum in [mu, L]  [BHG23, Thm 3.3]: (Y - mu X)^T (L X - Y) >= 0 (with X^T Y symmetric)
\*  quadratic: the same on the samples shifted by x_*;  skew / linear [BHG23, Thm 3.1, Cor 3.2]: L^2 X^T X - Y^T Y >= 0
SpecM(ne, mu, L, X, Y) == [i \in 1..Len(X) |-> [j \in 1..Len(X) |->
    EAdd(EAdd(EScale(L, Inner(ne, Y[i], X[j])), ENeg(Inner(ne, Y[i], Y[j]))),
         EAdd(EScale(RNeg(RMul(mu, L)), Inner(ne, X[i], X[j])), EScale(mu, Inner(ne, X[i], Y[j]))))]]
NormM(ne, L, X, Y) == [i \in 1..Len(X) |-> [j \in 1..Len(X) |->
    ESub(EScale(RSq(L), Inner(ne, X[i], X[j])), Inner(ne, Y[i], Y[j]))]]
ExpLMIs(cls, C) ==
  LET S == C.S  X == [i \in 1..Len(S) |-> S[i].x]  Y == [i \in 1..Len(S) |-> S[i].g]  P == C.P IN
  CASE cls = "SymmetricLinearOperator" -> <<SpecM(C.ne, P[1], P[2], X, Y)>>
    [] cls = "SmoothStronglyConvexQuadraticFunction" ->
          <<SpecM(C.ne, P[1], P[2], [i \in 1..Len(S) |-> VSub(S[i].x, XStar(C))], Y)>>
    [] cls = "SkewSymmetricLinearOperator" -> <<NormM(C.ne, P[1], X, Y)>>
    [] cls = "LinearOperator" ->
          <<NormM(C.ne, P[1], X, Y),
            NormM(C.ne, P[1], [i \in 1..Len(C.TS) |-> C.TS[i].x], [i \in 1..Len(C.TS) |-> C.TS[i].g])>>
    [] OTHER -> <<>>

\* An LMI "M >= 0" constrains the quadratic form of M only, i.e. its symmetric part: two matrices of expressions
\* state the same LMI iff their symmetric parts agree up to a positive factor.  (The classes write entries that
\* are symmetric only modulo their own symmetry equalities, so entries are compared after symmetrisation.)
SymPart(M) == [i \in 1..Len(M) |-> [j \in 1..Len(M) |-> EScale(Half, EAdd(M[i][j], M[j][i]))]]
MaxAbs(M) == LET vals == UNION {{RAbs(Flatten(M[i][j])[k]) : k \in 1..Len(Flatten(M[i][j]))} : i \in 1..Len(M), j \in 1..Len(M)}
             IN IF vals = {} THEN Z ELSE CHOOSE m \in vals : \A w \in vals : RLeq(w, m)
ScaleM(M) == LET m == MaxAbs(M) IN IF m[1] = 0 THEN M ELSE
             [i \in 1..Len(M) |-> [j \in 1..Len(M) |-> EScale(RInv(m), M[i][j])]]
CanonM(M) == ScaleM(SymPart(M))
PermM(M, p) == [i \in 1..Len(M) |-> [j \in 1..Len(M) |-> M[p[i]][p[j]]]]
Perms(n) == {p \in [1..n -> 1..n] : \A i, j \in 1..n : i # j => p[i] # p[j]}
SameLMI(A, B) == /\ Len(A) = Len(B)
                 /\ LET a == CanonM(A)  b == CanonM(B) IN a = b \/ \E p \in Perms(Len(A)) : PermM(a, p) = b
=============================================================================
