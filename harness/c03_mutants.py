"""C03 sensitivity experiments: source mutants of the class files that TIGHTEN or CORRUPT a class constraint.
usage: /venv/bin/python harness/c03_mutants.py [--focus] [name ...]   (runs ./check C03 through tools/withpatch for each;
       --focus restricts the run to the mutated class through C03_CLASSES, which replays exactly the same items for it)
A mutant that only weakens a condition is invisible to C03 by design (property C04)."""
import os, subprocess, sys, tempfile, time

MUTANTS = [
    ("smooth_convex_1_over_L", "PEPit/functions/smooth_convex_function.py",
     "1 / (2 * self.L) * (gi - gj) ** 2", "1 / self.L * (gi - gj) ** 2"),
    ("smooth_strongly_convex_coefficient", "PEPit/functions/smooth_strongly_convex_function.py",
     "self.mu / (2 * (1 - self.mu / self.L))", "self.mu / (1 - self.mu / self.L)"),
    ("convex_swapped_gradient", "PEPit/functions/convex_function.py",
     "constraint = (fi - fj >= gj * (xi - xj))", "constraint = (fi - fj >= gi * (xi - xj))"),
    ("cocoercive_sign_of_beta", "PEPit/operators/cocoercive.py",
     "(gi - gj) * (xi - xj) - self.beta * (gi - gj) ** 2 >= 0", "(gi - gj) * (xi - xj) + self.beta * (gi - gj) ** 2 <= 0"),
    ("lipschitz_L_not_squared", "PEPit/operators/lipschitz.py",
     "(gi - gj) ** 2 - self.L ** 2 * (xi - xj) ** 2 <= 0", "(gi - gj) ** 2 - self.L * (xi - xj) ** 2 <= 0"),
    ("block_smooth_wrong_constant", "PEPit/functions/block_smooth_convex_function.py",
     "1 / (2 * self.L[k]) * (gik - gjk) ** 2", "1 / (2 * self.L[0]) * (gik - gjk) ** 2"),
    ("negatively_comonotone_tightened", "PEPit/operators/negatively_comonotone.py",
     "(gi - gj) * (xi - xj) + self.rho * (gi - gj) ** 2 >= 0", "(gi - gj) * (xi - xj) + self.rho / 2 * (gi - gj) ** 2 >= 0"),
    ("nonexpansive_tightened", "PEPit/operators/nonexpansive.py",
     "(gi - gj) ** 2 - (xi - xj) ** 2 <= 0", "(gi - gj) ** 2 - 0.5 * (xi - xj) ** 2 <= 0"),
    ("strongly_monotone_mu_doubled", "PEPit/operators/strongly_monotone.py",
     "(gi - gj) * (xi - xj) - self.mu * (xi - xj) ** 2 >= 0", "(gi - gj) * (xi - xj) - 2 * self.mu * (xi - xj) ** 2 >= 0"),
    ("smooth_nonconvex_L_over_2", "PEPit/functions/smooth_function.py",
     "- self.L / 4 * (xi - xj) ** 2", "- self.L / 8 * (xi - xj) ** 2"),
    ("indicator_diameter_unsquared", "PEPit/functions/convex_indicator.py",
     "(xi - xj) ** 2 <= self.D ** 2", "(xi - xj) ** 2 <= self.D / 2"),
    ("support_fenchel_sign", "PEPit/functions/convex_support_function.py",
     "constraint = (gi * xi - fi == 0)", "constraint = (gi * xi + fi == 0)"),
    ("quadratic_lmi_L_plus_mu", "PEPit/functions/smooth_strongly_convex_quadratic_function.py",
     "(self.L + self.mu) * gi * (xj - xs)", "self.L * gi * (xj - xs)"),
    ("linear_operator_lmi_L_unsquared", "PEPit/operators/linear.py",
     "T1[i, j] = (self.L ** 2) * xi * xj - yi * yj", "T1[i, j] = self.L / 2 * xi * xj - yi * yj"),
    ("skew_symmetric_sign", "PEPit/operators/skew_symmetric_linear.py",
     "constraint = (xi * gj == - xj * gi)", "constraint = (xi * gj == xj * gi)"),
    ("symmetric_linear_lmi_mu_sign", "PEPit/operators/symmetric_linear.py",
     "- self.mu * self.L * xi * xj + self.mu * xi * gj", "+ self.mu * self.L * xi * xj + self.mu * xi * gj"),
    ("qg_convex_1_over_L", "PEPit/functions/convex_qg_function.py",
     "1 / (2 * self.L) * gj ** 2", "1 / self.L * gj ** 2"),
    ("rsi_eb_L_unsquared", "PEPit/functions/rsi_eb_function.py",
     "(gi - gj) ** 2 - self.L ** 2 * (xi - xj) ** 2 <= 0", "(gi - gj) ** 2 - self.L ** 2 / 2 * (xi - xj) ** 2 <= 0"),
    ("convex_lipschitz_M_unsquared", "PEPit/functions/convex_lipschitz_function.py",
     "constraint = (gi ** 2 <= self.M ** 2)", "constraint = (gi ** 2 <= self.M ** 2 / 2)"),
    ("strongly_convex_mu_not_halved", "PEPit/functions/strongly_convex_function.py",
     "+ self.mu / 2 * (xi - xj) ** 2)", "+ self.mu * (xi - xj) ** 2)"),
    ("cocoercive_strongly_monotone_beta_doubled", "PEPit/operators/cocoercive_strongly_monotone.py",
     "(gi - gj) * (xi - xj) - self.beta * (gi - gj) ** 2 >= 0", "(gi - gj) * (xi - xj) - 2 * self.beta * (gi - gj) ** 2 >= 0"),
    ("lipschitz_strongly_monotone_swapped", "PEPit/operators/lipschitz_strongly_monotone.py",
     "(gi - gj) * (xi - xj) - self.mu * (xi - xj)**2 >= 0", "(gi - gj) * (xi - xj) - self.L * (xi - xj)**2 >= 0"),
    ("monotone_strict", "PEPit/operators/monotone.py",
     "constraint = ((gi - gj) * (xi - xj) >= 0)", "constraint = ((gi - gj) * (xi - xj) - 0.25 * (xi - xj) ** 2 >= 0)"),
    ("smooth_convex_lipschitz_wrong_L", "PEPit/functions/smooth_convex_lipschitz_function.py",
     "1 / (2 * self.L) * (gi - gj) ** 2", "1 / (2 * self.M) * (gi - gj) ** 2 + 0.25 * (gi - gj) ** 2"),
    ("block_partition_orthogonality_corrupted", "PEPit/block_partition.py",
     "self.add_constraint(xi_decomposed[k] * xj_decomposed[l] == 0)", "self.add_constraint(xi_decomposed[k] * xj_decomposed[k] == 0)"),
    ("nonexpansive_infimal_displacement_doubled", "PEPit/operators/nonexpansive.py",
     "constraint = (self.v ** 2 - (xi - gi) * self.v <= 0)", "constraint = (2 * self.v ** 2 - (xi - gi) * self.v <= 0)"),
    ("linear_operator_adjoint_sign", "PEPit/operators/linear.py",
     "self.list_of_class_constraints.append(xi * vj == yi * uj)", "self.list_of_class_constraints.append(xi * vj == - yi * uj)"),
    ("linear_operator_adjoint_lmi", "PEPit/operators/linear.py",
     "T2[i, j] = (self.L ** 2) * ui * uj - vi * vj", "T2[i, j] = (self.L ** 2) / 4 * ui * uj - vi * vj"),
    ("quadratic_value_not_halved", "PEPit/functions/smooth_strongly_convex_quadratic_function.py",
     "constraint = (fi - fs == 0.5 * (xi - xs) * gi)", "constraint = (fi - fs == (xi - xs) * gi)"),
    ("symmetric_linearity_factor", "PEPit/operators/symmetric_linear.py",
     "constraint = (xi * gj == xj * gi)", "constraint = (xi * gj == 2 * xj * gi)"),
    ("skew_symmetric_lmi_halved", "PEPit/operators/skew_symmetric_linear.py",
     "T[i, j] = - gi * gj + (self.L ** 2) * xi * xj", "T[i, j] = - gi * gj + (self.L ** 2) / 2 * xi * xj"),
    ("block_smooth_partial_gradient_in_linear_term", "PEPit/functions/block_smooth_convex_function.py",
     "constraint = (fi - fj >= gj * (xi - xj) + 1", "constraint = (fi - fj >= gjk * (xi - xj) + 1"),
    ("rsi_mu_replaced_by_L", "PEPit/functions/rsi_eb_function.py",
     "(gi - gj) * (xi - xj) - self.mu * (xi - xj) ** 2 >= 0", "(gi - gj) * (xi - xj) - self.L * (xi - xj) ** 2 >= 0"),
    ("support_convexity_wrong_point", "PEPit/functions/convex_support_function.py",
     "constraint = (xj * (gi - gj) <= 0)", "constraint = (xi * (gi - gj) <= 0)"),
    ("indicator_convexity_tightened", "PEPit/functions/convex_indicator.py",
     "constraint = (0 >= gj * (xi - xj))", "constraint = (0 >= gj * (xi - xj) + 0.125 * (xi - xj) ** 2)"),
    ("lipschitz_strongly_monotone_L_unsquared", "PEPit/operators/lipschitz_strongly_monotone.py",
     "(gi - gj) ** 2 - self.L ** 2 * (xi - xj) ** 2 <= 0", "(gi - gj) ** 2 - self.L ** 2 / 2 * (xi - xj) ** 2 <= 0"),
    ("smooth_strongly_convex_inner_1_over_mu", "PEPit/functions/smooth_strongly_convex_function.py",
     "xi - xj - 1 / self.L * (gi - gj)) ** 2)", "xi - xj - 1 / (2 * self.L) * (gi - gj)) ** 2)"),
    ("qg_convexity_swapped_gradient", "PEPit/functions/convex_qg_function.py",
     "constraint = (fi - fj >= gj * (xi - xj))", "constraint = (fi - fj >= gi * (xi - xj))"),
    ("smooth_convex_slightly_tightened", "PEPit/functions/smooth_convex_function.py",
     "1 / (2 * self.L) * (gi - gj) ** 2", "1 / (1.75 * self.L) * (gi - gj) ** 2"),

]


CLASS_OF = {
    "PEPit/functions/smooth_convex_function.py": ["SmoothConvexFunction"],
    "PEPit/functions/smooth_strongly_convex_function.py": ["SmoothStronglyConvexFunction"],
    "PEPit/functions/convex_function.py": ["ConvexFunction"],
    "PEPit/operators/cocoercive.py": ["CocoerciveOperator"],
    "PEPit/operators/lipschitz.py": ["LipschitzOperator"],
    "PEPit/functions/block_smooth_convex_function.py": ["BlockSmoothConvexFunction"],
    "PEPit/operators/negatively_comonotone.py": ["NegativelyComonotoneOperator"],
    "PEPit/operators/nonexpansive.py": ["NonexpansiveOperator"],
    "PEPit/operators/strongly_monotone.py": ["StronglyMonotoneOperator"],
    "PEPit/functions/smooth_function.py": ["SmoothFunction"],
    "PEPit/functions/convex_indicator.py": ["ConvexIndicatorFunction"],
    "PEPit/functions/convex_support_function.py": ["ConvexSupportFunction"],
    "PEPit/functions/smooth_strongly_convex_quadratic_function.py": ["SmoothStronglyConvexQuadraticFunction"],
    "PEPit/operators/linear.py": ["LinearOperator"],
    "PEPit/operators/skew_symmetric_linear.py": ["SkewSymmetricLinearOperator"],
    "PEPit/operators/symmetric_linear.py": ["SymmetricLinearOperator"],
    "PEPit/functions/convex_qg_function.py": ["ConvexQGFunction"],
    "PEPit/functions/rsi_eb_function.py": ["RsiEbFunction"],
    "PEPit/functions/convex_lipschitz_function.py": ["ConvexLipschitzFunction"],
    "PEPit/functions/strongly_convex_function.py": ["StronglyConvexFunction"],
    "PEPit/operators/cocoercive_strongly_monotone.py": ["CocoerciveStronglyMonotoneOperator"],
    "PEPit/operators/lipschitz_strongly_monotone.py": ["LipschitzStronglyMonotoneOperator"],
    "PEPit/operators/monotone.py": ["MonotoneOperator"],
    "PEPit/functions/smooth_convex_lipschitz_function.py": ["SmoothConvexLipschitzFunction"],
    "PEPit/block_partition.py": ["BlockSmoothConvexFunction"],
}


def make_patch(name, path, old, new, out):
    src = open(os.path.join("/repo", path)).read()
    if src.count(old) != 1:
        raise SystemExit("mutant %s: anchor found %d times in %s" % (name, src.count(old), path))
    with tempfile.TemporaryDirectory() as td:
        a, b = os.path.join(td, "a"), os.path.join(td, "b")
        for d, text in ((a, src), (b, src.replace(old, new))):
            os.makedirs(os.path.dirname(os.path.join(d, path)))
            with open(os.path.join(d, path), "w") as f:
                f.write(text)
        p = subprocess.run(["diff", "-u", os.path.join("a", path), os.path.join("b", path)], cwd=td,
                           stdout=subprocess.PIPE, text=True)
        with open(out, "w") as f:
            f.write(p.stdout)


def main():
    here = os.path.dirname(os.path.dirname(os.path.abspath(__file__)))
    focus = "--focus" in sys.argv
    want = set(a for a in sys.argv[1:] if not a.startswith("--"))
    outdir = tempfile.mkdtemp(prefix="c03mut_")
    for name, path, old, new in MUTANTS:
        if want and name not in want:
            continue
        patch = os.path.join(outdir, name + ".diff")
        make_patch(name, path, old, new, patch)
        t0 = time.time()
        env = dict(os.environ)
        if focus:
            src = open(os.path.join("/repo", path)).read()
            env["C03_CLASSES"] = ",".join(CLASS_OF.get(path, [])) or ""
        p = subprocess.run([os.path.join(here, "tools", "withpatch"), patch, "C03"], stdout=subprocess.PIPE,
                           stderr=subprocess.STDOUT, text=True, env=env)
        sigs = sorted({l.split("signature:")[1].strip() for l in p.stdout.splitlines() if "signature:" in l})
        code = [l for l in p.stdout.splitlines() if l.startswith("exit=")]
        print("%-45s %s %5.0fs  %s" % (name, code[-1] if code else "exit=?", time.time() - t0,
                                        "CAUGHT " + "; ".join(sigs[:3]) if sigs else "NOT CAUGHT\n" + p.stdout[-1500:]))
        sys.stdout.flush()


if __name__ == "__main__":
    main()
