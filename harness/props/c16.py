"""C16 - No number without a solution: failures are reported, not fabricated."""
import json, os
from core import *
from core import verdicts as core_verdicts

PID = "C16"


def _cfg(n, trace=False):
    if trace:
        return "CONSTANTS\n MaxAccesses = 0\nINIT TInit\nNEXT TNext\nINVARIANT Report\nCHECK_DEADLOCK FALSE\n"
    return ("CONSTANTS\n MaxAccesses = %d\nINIT Init\nNEXT Next\nINVARIANT NoNumberWithoutSolution\nINVARIANT Emit\n"
            "CHECK_DEADLOCK FALSE\n" % n)


def judge(res, traces, wd):
    good = [t for t in traces if t["solve"] != "inconclusive"]
    res.inconclusive = len(traces) - len(good)
    path = os.path.join(wd, "acc.ndjson")
    write_ndjson(path, good)
    r = tlc("AccessTrace", _cfg(0, True), wd, env=dict(TRACE_FILE=path))
    res.add_tlc("AccessTrace", r)
    v = core_verdicts(r["out"], len(good))
    keys = set()
    for i, t in enumerate(good):
        keys.add((t["scn"], json.dumps(t["h"])))
        for step, what, got in v[i + 1]:
            sig = "C16|%s|%s|%s" % (t["scn"] if step == 0 or not what.startswith("invalid") else "options", what, got)
            res.violation(sig, "scenario %s: %s gave %s (expected %s)" % (
                t["scn"], what, got, "None from solve" if step == 0 else "an error" if what.startswith("invalid")
                else "the documented ValueError"), dict(scn=t["scn"], mode=t["mode"], h=t["h"]))
    res.distinct_nontrivial = len(keys)
    return good


def run(tier):
    res = Result(PID, tier)
    wd = workdir(PID)
    n = 2 if tier == "quick" else 3
    r = tlc("Access", _cfg(n), wd, coverage=True)
    if r["violated"]:
        raise Machinery("Access.tla violates %s" % r["violated"])
    res.add_tlc("Access(exhaustive, %d accesses)" % n, r)
    res.exhaustive = True
    items = [json.loads(x) for x in split_prints(r["out"]) if isinstance(x, str)]
    traces = pool_map("drv_c16", "run", items)
    res.traces = res.evaluations = len(traces)
    good = judge(res, traces, wd)
    res.rule = ("programs = behaviours of spec/Access.tla: 11 scenarios (fresh model; four unbounded and four infeasible "
                "constructions, solved; objects of a new model after another model was solved; a solved model as sanity) x "
                "all sequences of %d accesses over {leaf/derived point, leaf/derived expression, constraint, LMI, metric} x "
                "{eval, eval_dual}; plus every invalid option value; distinct = (scenario, access sequence)" % n)
    res.samples = [dict(scenario=t["scn"], accesses=[c["o"] + "." + c["a"] for c in t["h"]], observed=t["out"], solve=t["solve"])
                   for t in good[:: max(1, len(good) // 5)][:5]]
    res.assumptions = ["an uninstalled wrapper name silently falls back to cvxpy: documented behaviour, not an invalid option",
                       "values after a LATER unsuccessful solve of an already solved model belong to C13 (finding F5)"]
    res.trusted = ["TLC 1.8", "cvxpy+CLARABEL infeasibility / unboundedness detection"]
    rmwork(PID)
    return finish(res)


def replay(path):
    rp = json.load(open(path))["replay"]
    res = Result(PID, "quick")
    wd = workdir(PID + "-replay")
    r = tlc("Access", _cfg(1), wd)
    res.add_tlc("Access", r)
    traces = pool_map("drv_c16", "run", [rp], procs=1)
    res.traces = 1
    judge(res, traces, wd)
    res.samples = [rp]
    rmwork(PID + "-replay")
    return finish(res)
