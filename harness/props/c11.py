"""C11 - Both solver back-ends solve the same problem and report duals in one convention."""
import os
import solvecheck as sc
from core import VERIF

PID = "C11"
FAKE = os.path.join(VERIF, "harness", "fake")
RULE = ("every program exported by spec/Pep.tla is built twice and solved through the cvxpy back-end and through the REAL "
        "MosekWrapper running against a stand-in `mosek` module that records every Task call and solves the SDP the "
        "recorded data denote (MOSEK is not installable here); TLC folds the call sequence with spec/MosekTask.tla "
        "(pre-conditions of every call, denotation of every row vs the sent item, objective on tau, which row / matrix "
        "variable each multiplier is read from and with which sign) and compares values and constraint lists of the "
        "two back-ends; certificate and primal clauses are re-checked on the MOSEK path; non-trivial = both solves returned")


def select(t, c):
    step, prop, name, detail = c
    if prop == "ALL":
        return sc.crash(t, c, PID, 'mosek')
    o = t["solves"][step - 1]
    w = o["opts"]["wrapper"]
    cls = sc.CLASSNAME.get(t["prog"]["cls"], "?")
    if prop == "C11":
        return "C11|%s|%s" % (name, o["opts"]["heur"]), "solve %d %s: %s (detail %s)" % (step, sc.solvestr(o), name, detail)
    if w == "mosek" and prop in ("C01", "C02") and not name.startswith("identity-with-lmi-not-symmetric") \
            and not (step >= 2 and t["solves"][step - 2]["opts"]["wrapper"] == "mosek"):       # re-solves belong to C13
        first = [x for x in t.get("_clauses", []) if x[0] != step and x[1] == prop and x[2] == name]
        if not first:      # the same clause does not fail on the cvxpy path: specific to the MOSEK path
            return "C11|mosek-path-%s-%s" % (prop, name.split(":")[0]), "solve %d %s: %s fails only on the MOSEK path" % (step, sc.solvestr(o), name)
    return None


def twin(p):
    """[cvxpy solve, the same program rebuilt and solved through the mosek wrapper]"""
    o = dict(p["solves"][0])
    a = dict(o, wrapper="cvxpy", edit="none")
    b = dict(o, wrapper="mosek", edit="twin")
    return dict(prog=p["prog"], solves=[a, b])


def want(p):
    return len(p["solves"]) == 1 and p["solves"][0]["edit"] == "none"


BIG = dict(prog=dict(cls=1, steps="gggggggggg", comp=0, ucons=[], lmis=[], metrics=1, part=0, lmimetric=0, unsent_lmi=0),
           solves=[dict(wrapper="cvxpy", mode="dual", heur="none", edit="none", verbose=0)])      # > 127 rows
RESOLVE = [dict(prog=dict(cls=c, steps="g", comp=0, ucons=[], lmis=l, metrics=1, part=0, lmimetric=0, unsent_lmi=0),
                solves=[dict(wrapper="mosek", mode="dual", heur="none", edit="none", verbose=0),
                        dict(wrapper="mosek", mode="dual", heur="none", edit="none", verbose=0)])
           for c, l in ((1, []), (1, ["S2"]), (4, []), (9, []))]


def run(tier):
    return sc.run_family(PID, tier, RULE, select, want=want, cap=dict(quick=350, thorough=1500), extra_paths=[FAKE],
                         always=[twin(BIG)] + RESOLVE, transform=twin,
                         assumptions=["the stand-in mosek module follows MOSEK's documented conventions (lower-triangular "
                                      "sparse symmetric matrices; y = s_l^c - s_u^c; barsj <= 0 for a maximisation "
                                      "problem, hence the wrapper's negation); real MOSEK behaviour is not observable here"])


def replay(path):
    return sc.replay_family(PID, path, select, extra_paths=[FAKE])
