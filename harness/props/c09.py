"""C09 - No real run of a modelled method on a real function beats the returned bound.

spec/Runs.tla:      real members of the classes (validated against the textbook definitions on a grid), the machine that
                    executes an extracted program on them in exact rationals, the parameter grid of the covered examples
spec/RunsTrace.tla: the same machine on the programs recorded from the real examples (harness/drv_c09.py)
"""
import json, os
from collections import defaultdict, Counter
from core import *

PID = "C09"
KINDS = ("explicit", "implicit", "subgradient", "guess")

# the 81 shipped examples that are NOT executed, and why (the others are in drv_c09.EXAMPLES)
NOT_COVERED = {
    "adversarial or implicit inexact steps (a run needs the adversary's choices)": [
        "unconstrained/inexact_gradient_descent", "unconstrained/inexact_accelerated_gradient",
        "unconstrained/inexact_gradient_exact_line_search", "unconstrained/epsilon_subgradient_method",
        "inexact_proximal_methods/accelerated_inexact_forward_backward",
        "inexact_proximal_methods/partially_inexact_douglas_rachford_splitting",
        "inexact_proximal_methods/relatively_inexact_proximal_point_algorithm",
        "low_dimensional/inexact_gradient"],
    "exact line search / span search (the step is defined by orthogonality conditions, not by a formula)": [
        "unconstrained/gradient_exact_line_search", "unconstrained/conjugate_gradient",
        "unconstrained/conjugate_gradient_qg_convex"],
    "stochastic / randomized (the metric is an expectation over several functions or blocks)": [
        "stochastic/saga", "stochastic/point_saga", "stochastic/sgd", "stochastic/sgd_overparametrized",
        "stochastic/randomized_coordinate_descent_smooth_convex",
        "stochastic/randomized_coordinate_descent_smooth_strongly_convex"],
    "continuous-time models (no discrete run)": [
        "continuous_time/gradient_flow_convex", "continuous_time/gradient_flow_strongly_convex",
        "continuous_time/accelerated_gradient_flow_convex", "continuous_time/accelerated_gradient_flow_strongly_convex"],
    "Bregman / mirror steps (need a kernel function h and its conjugate; no member family built)": [
        "composite/bregman_proximal_point", "composite/no_lips_in_function_value",
        "composite/no_lips_in_bregman_divergence", "composite/improved_interior_algorithm",
        "nonconvex/no_lips_1", "nonconvex/no_lips_2"],
    "block coordinates / linear-operator classes with LMIs (members would need dimension >= 2 per block)": [
        "unconstrained/cyclic_coordinate_descent", "unconstrained/gradient_descent_lc",
        "unconstrained/gradient_descent_quadratics", "composite/proximal_gradient_quadratics"],
    "coefficients are irrational (sqrt in the step sizes) or need denominators > 4096 at every tried setting": [
        "unconstrained/gradient_descent_silver_stepsize_convex", "unconstrained/robust_momentum"],
    "operator without fixed point (displacement vector attribute)": ["fixed_point/inconsistent_halpern_iteration"],
    "same methods as covered examples, solved with dimension-reduction heuristics (logdet/trace)": [
        "low_dimensional/alternate_projections", "low_dimensional/averaged_projections", "low_dimensional/dykstra",
        "low_dimensional/frank_wolfe", "low_dimensional/gradient_descent", "low_dimensional/halpern_iteration",
        "low_dimensional/optimized_gradient", "low_dimensional/proximal_point"],
}


def _cfg(trace_mode, nmax, reduced, init, nxt, invs):
    return ("CONSTANTS\n TraceMode = %s\n NMax = %d\n Reduced = %s\nINIT %s\nNEXT %s\n%sCHECK_DEADLOCK FALSE\n" % (
        "TRUE" if trace_mode else "FALSE", nmax, "TRUE" if reduced else "FALSE", init, nxt,
        "".join("INVARIANT %s\n" % i for i in invs)))


def run_records(out):
    recs = []
    for line in out.splitlines():
        line = line.strip()
        if line.startswith('"[\\"R\\",'):
            try:
                recs.append(json.loads(json.loads(line)))
            except Exception:
                raise Machinery("unparsable run record: " + line[:200])
    return recs


def model_phase(res, tier, wd):
    """Runs.tla on its own: member families against the class definitions, the parameter grid (spec -> code), the
    machine on the built-in programs (must be sharp)."""
    nmax = 2 if tier == "quick" else 3
    r = tlc("Runs", _cfg(False, nmax, tier == "quick", "GInit", "GNext", ["FamilySound", "FamilyNonEmpty", "EmitGrid"]), wd)
    if r["violated"]:
        raise Machinery("Runs.tla: member families violate the class definitions: %s" % r["violated"])
    res.add_tlc("Runs(families vs class definitions + parameter grid)", r)
    insts = [json.loads(x) for x in split_prints(r["out"]) if isinstance(x, str)]
    if not insts:
        raise Machinery("Runs.tla printed no parameter grid")
    r = tlc("Runs", _cfg(False, nmax, False, "Init", "Next", ["Report"]), wd)
    res.add_tlc("Runs(machine on built-in GD / proximal-point programs)", r)
    recs = run_records(r["out"])
    best = defaultdict(lambda: None)
    for x in recs:
        if x[3] == "BEATS":
            raise Machinery("Runs.tla: a run of a built-in program beats its analytic bound: %s" % x)
        if x[3] == "ok":
            best[x[1]] = max(best[x[1]] or 0, x[4])
    # built-in bounds 1/6 and 1/4 are tight: the machine must reach them (sharpness of the member families)
    if not (best[1] is not None and best[1] >= 166666 - 21 and best[2] is not None and best[2] >= 250000 - 21):
        raise Machinery("Runs.tla is not sharp on the built-in programs: %s" % dict(best))
    return insts


def items_of(insts):
    return [dict(ex=i["ex"], p={q["k"]: [q["n"], q["d"]] for q in i["p"]}) for i in insts]


def validate(res, traces, tier, wd):
    """TLC executes every recorded program on the member tuples; returns per-trace aggregates."""
    ok = [t for t in traces if t["status"] == "ok"]
    agg = []
    if not ok:
        return agg
    B = 400
    for s in range(0, len(ok), B):
        chunk = ok[s:s + B]
        path = os.path.join(wd, "runs_%d.ndjson" % s)
        write_ndjson(path, chunk)
        r = tlc("RunsTrace", _cfg(True, 3, tier == "quick", "Init", "Next", ["Report"]), wd, env=dict(TRACE_FILE=path),
                timeout=3000)
        res.add_tlc("RunsTrace", r)
        by = defaultdict(list)
        for x in run_records(r["out"]):
            by[x[1]].append(x)
        for i, t in enumerate(chunk):
            v = by.get(i + 1, [])
            feas = [x for x in v if x[3] in ("ok", "BEATS")]
            agg.append(dict(t=t, n_runs=len(v), n_feasible=len(feas), best=max([x[4] for x in feas] or [None]) if feas else None,
                            beats=[x for x in v if x[3] == "BEATS"], big=sum(1 for x in v if x[3] == "big"),
                            stuck=sum(1 for x in v if x[3] == "stuck"),
                            kinds=[sum(x[5 + j] for x in feas) for j in range(4)],
                            members=sorted({"+".join(x[9]) for x in feas})))
        os.remove(path)
    return agg


def judge(res, agg, traces):
    covered, vacuous, stuck, sharp = defaultdict(int), [], [], []
    kinds = [0, 0, 0, 0]
    nontriv = 0
    for a in agg:
        t = a["t"]
        if a["n_feasible"] == 0:
            (stuck if a["stuck"] and a["stuck"] == a["n_runs"] else vacuous).append("%s(%s)" % (t["ex"], t["kws"]))
            continue
        covered[t["ex"]] += 1
        res.evaluations += a["n_feasible"]
        for j in range(4):
            kinds[j] += a["kinds"][j]
        if a["best"] is not None and a["best"] > 0:
            nontriv += 1
        if a["best"] is not None and t["tau"] - a["best"] <= 1000:
            sharp.append(dict(example=t["ex"], params=t["kws"], tau=t["tau"] / 1e6, best_real_run=a["best"] / 1e6))
        seen = set()
        for x in a["beats"]:
            fam = "+".join(x[9])
            if fam in seen:
                continue
            seen.add(fam)
            res.violation("C09|%s|%s|%s" % (t["ex"], t["kws"], fam),
                          "example %s(%s): a real run on members %s (a, c, d = %s) reaches %.6f > returned tau %.6f (+tol)" % (
                              t["ex"], t["kws"], fam, x[10], x[4] / 1e6, t["tau"] / 1e6),
                          dict(kind="instance", ex=t["ex"], p=t["p"]))
    res.distinct_nontrivial = nontriv
    res.cov["RunsTrace"] = {"Step." + k: [kinds[j], kinds[j]] for j, k in enumerate(KINDS)}
    res.cov["RunsTrace"]["Finish"] = [res.evaluations, res.evaluations]
    other = Counter(t["status"] for t in traces if t["status"] != "ok")
    res.inconclusive = sum(v for k, v in other.items() if k.startswith("solver"))
    res.extra["examples_covered"] = sorted(covered)
    res.extra["examples_covered_count"] = len(covered)
    res.extra["instances_per_example"] = dict(covered)
    res.extra["instances_not_executable"] = sorted(
        "%s(%s): %s %s" % (t["ex"], t["kws"], t["status"], t["why"]) for t in traces if t["status"] != "ok")
    res.extra["instances_without_feasible_run"] = vacuous
    res.extra["instances_stuck"] = stuck
    res.extra["examples_not_covered"] = NOT_COVERED
    res.extra["sharp_instances"] = sharp[:60]
    res.extra["sharp_count"] = len(sharp)
    res.extra["overflow_avoided_runs"] = sum(a["big"] for a in agg)
    return covered


def run(tier):
    res = Result(PID, tier)
    wd = workdir(PID)
    res.rule = ("traces = worked examples run on the real code at the TLC-enumerated parameter grid (documented ranges, "
                "n <= %d); evaluations = completed runs (one tuple of real class members x one start) that satisfy the "
                "initial condition; distinct_nontrivial = instances whose best real run has a positive metric; a run is "
                "judged only if every sample (x, g, f) of the extracted program is a (point, subgradient, value) triple "
                "of its member" % (2 if tier == "quick" else 3))
    insts = model_phase(res, tier, wd)
    traces = pool_map("drv_c09", "run", items_of(insts), chunksize=2)
    res.traces = sum(1 for t in traces if t["status"] == "ok")
    agg = validate(res, traces, tier, wd)
    covered = judge(res, agg, traces)
    import drv_c09
    dead = [e for e in {i["ex"] for i in insts} if e not in covered
            and any(t["ex"] == e and t["status"] == "ok" for t in traces)]
    if dead:
        # an example whose programs could be extracted but never executed: the check would be silently vacuous
        raise Machinery("no feasible real run for any instance of %s (extracted program not executable)" % sorted(dead))
    res.samples = [dict(example=a["t"]["ex"], params=a["t"]["kws"], tau=a["t"]["tau"] / 1e6,
                        best_real_run=None if a["best"] is None else a["best"] / 1e6, feasible_runs=a["n_feasible"],
                        members=a["members"][:4]) for a in agg[:: max(1, len(agg) // 6)][:6]]
    res.assumptions = [
        "cvxpy back-end with solver CLARABEL only (MOSEK is not installed); tolerance 2e-5 + 1e-5|tau| + quantisation",
        "members are rational: 1-D quadratics, Huber, m|x-c|, interval indicators; operators are complex-linear maps "
        "(rotations/scalings of the plane); n <= 3 iterations; a run whose rationals would leave 14 bits is abandoned",
        "coefficients of the extracted program must be rationals with denominator <= 4096 (irrational step sizes are "
        "reported as not executable)",
        "a violation needs a member of the grid that beats the bound: bounds that are wrong only in high dimension are "
        "not detected"]
    res.trusted = ["TLC 1.8", "harness/proj.py + drv_c09.py projection (reads decomposition_dict only)",
                   "cvxpy + CLARABEL as the solver actually run"]
    rmwork(PID)
    return finish(res)


def replay(path):
    rp = json.load(open(path))["replay"]
    res = Result(PID, "quick")
    wd = workdir(PID + "-replay")
    traces = pool_map("drv_c09", "run", [dict(ex=rp["ex"], p=rp["p"])], procs=1)
    res.traces = len(traces)
    agg = validate(res, traces, "thorough", wd)
    judge(res, agg, traces)
    res.samples = [rp]
    rmwork(PID + "-replay")
    return finish(res)
