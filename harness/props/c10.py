"""C10 - Shipped examples agree with their published closed-form rates on the whole documented range.

Claimed level: exploration.  spec/Rates.tla is an oracle (closed forms and validity ranges transcribed from the docstrings,
evaluated in exact rationals) and an enumerator (parameter grid inside every documented range); harness/drv_c10.py runs
the real examples (cvxpy + CLARABEL only: MOSEK is not installed) and spec/RatesTrace.tla compares.
"""
import json, os
from collections import defaultdict, Counter
from core import *

PID = "C10"
GRID_CFG = "CONSTANTS\n TraceMode = FALSE\n Dense = %s\nINIT GInit\nNEXT GNext\nINVARIANT EmitGrid\nINVARIANT TheoryDefined\nCHECK_DEADLOCK FALSE\n"
TRACE_CFG = "CONSTANTS\n TraceMode = TRUE\n Dense = FALSE\nINIT TInit\nNEXT Step\nINVARIANT Report\nCHECK_DEADLOCK FALSE\n"

NO_RATE = ["composite/three_operator_splitting", "composite/accelerated_douglas_rachford_splitting (bound for quadratics only, "
           "'not directly comparable')", "fixed_point/krasnoselskii_mann_increasing_step_sizes",
           "low_dimensional/alternate_projections", "low_dimensional/averaged_projections", "low_dimensional/dykstra",
           "monotone/optimistic_gradient", "monotone/past_extragradient", "monotone/three_operator_splitting",
           "unconstrained/cyclic_coordinate_descent",
           "unconstrained/gradient_descent_lc (conjecture; reference value needs a numerical root; its repository test fails on "
           "the pinned tree)"]


def label(ex):
    grp, name = ex.split("/")
    return "wc_%s(%s)" % (name, grp)


def grid(res, wd, tier):
    r = tlc("Rates", GRID_CFG % ("TRUE" if tier == "thorough" else "FALSE"), wd)
    if r["violated"]:
        raise Machinery("Rates.tla: %s violated (closed form out of fixed-point range)" % r["violated"])
    res.add_tlc("Rates(parameter grid inside the documented ranges + closed forms)", r)
    insts = [json.loads(x) for x in split_prints(r["out"]) if isinstance(x, str)]
    if not insts:
        raise Machinery("Rates.tla printed no grid")
    insts.sort(key=lambda i: (i["ex"], json.dumps(i["p"])))
    return insts


def subsample(insts, tier):
    return insts          # (the whole grid costs a few seconds; the quick tier used to take every second point)
    if tier != "quick":
        return insts
    out, seen = [], defaultdict(int)
    for i in insts:
        k = seen[i["ex"]]
        seen[i["ex"]] += 1
        if k % 2 == 0 or i["region"]:
            out.append(i)
    return out


def validate(res, traces, wd):
    path = os.path.join(wd, "rates.ndjson")
    write_ndjson(path, traces)
    r = tlc("RatesTrace", TRACE_CFG, wd, env=dict(TRACE_FILE=path))
    res.add_tlc("RatesTrace", r)
    v = verdicts(r["out"], len(traces))
    os.remove(path)
    return [(t, v[i + 1]) for i, t in enumerate(traces)]


def judge(res, verd):
    per = defaultdict(lambda: dict(points=0, judged=0, inconclusive=0, variants=0))
    nontriv = 0
    for t, bad in verd:
        e = per[t["ex"]]
        e["points"] += 1
        if t["status"] == "ok":
            e["judged"] += 1
            if t["form"] == "rat" or t["hastheo"]:
                nontriv += 1
        elif t["status"] in ("inconclusive", "out-of-range"):
            e["inconclusive"] += 1
            res.inconclusive += 1
        e["variants"] += sum(1 for x in t["variants"] if x["status"] == "ok")
        res.inconclusive += sum(1 for x in t["variants"] if x["status"] != "ok")
        for clause in bad:
            region = t["region"] or t["kws"]
            what = "%s at %s: clause %s fails: computed %.6f, example's theoretical_tau %s, docstring flag %s (%s form)%s" % (
                label(t["ex"]), t["kws"], clause, t["pepit"] / 1e6, (t["theo"] / 1e6) if t["hastheo"] else None, t["flag"],
                t["form"], (" - " + t["why"]) if t["why"] else "")
            if clause.startswith("equivalent-formulation"):
                what += "; variants " + json.dumps([(x["name"], x["val"] / 1e6) for x in t["variants"]])
            res.violation("C10|%s|%s|%s" % (label(t["ex"]), clause, region), what,
                          dict(kind="gridpoint", item=dict(ex=t["ex"], flag=t["flag"], form=t["form"], region=t["region"], p=t["p"])))
    res.distinct_nontrivial = nontriv
    res.extra["examples_checked"] = {k: v for k, v in sorted(per.items())}
    res.extra["examples_checked_count"] = len(per)
    res.extra["examples_with_rational_closed_form"] = sorted({t["ex"] for t, _ in verd if t["form"] == "rat"})
    res.extra["examples_own_pair_only"] = sorted({t["ex"] for t, _ in verd if t["form"] == "own"})
    res.extra["examples_without_stated_rate"] = NO_RATE
    res.extra["inconclusive_points"] = sorted("%s(%s): %s" % (t["ex"], t["kws"], t["why"]) for t, _ in verd
                                              if t["status"] in ("inconclusive", "out-of-range"))[:80]
    res.extra["equivalent_formulation_comparisons"] = sum(v["variants"] for v in per.values())


def run(tier):
    res = Result(PID, tier, level="exploration")
    wd = workdir(PID)
    res.rule = ("traces = grid points (example, parameters) printed by spec/Rates.tla inside the documented validity ranges and "
                "run on the real code (quick: all grid points; thorough: "
                "also the midpoints between neighbouring candidate values of the real parameters); "
                "evaluations = traces + complexified-variant runs; distinct_nontrivial = points with a solved value and a "
                "closed form (docstring formula or the example's own theoretical_tau) to compare with")
    insts = subsample(grid(res, wd, tier), tier)
    traces = pool_map("drv_c10", "run", insts, chunksize=1)
    res.traces = len(traces)
    res.evaluations = len(traces) + sum(len(t["variants"]) for t in traces)
    verd = validate(res, traces, wd)
    judge(res, verd)
    if sum(1 for t, _ in verd if t["status"] in ("inconclusive", "out-of-range")) > 0.2 * len(verd):
        raise Machinery("more than 20%% of the grid points are inconclusive (%s)" % Counter(t["status"] for t, _ in verd))
    res.samples = [dict(example=t["ex"], params=t["kws"], pepit_tau=t["pepit"] / 1e6,
                        theoretical_tau=(t["theo"] / 1e6) if t["hastheo"] else None, flag=t["flag"], clauses_failed=b)
                   for t, b in verd[:: max(1, len(verd) // 6)][:6]]
    res.cov["RatesTrace"] = {"Step(%s)" % c: [len(verd), len(verd)] for c in ("value", "rate", "doc-formula", "own-pair", "equivalent-formulation")}
    res.assumptions = [
        "cvxpy back-end with solver CLARABEL only: MOSEK is NOT installed here, so the 'both back-ends' part of the property is "
        "not exercised; points where CLARABEL does not return 'optimal' are inconclusive",
        "tolerances: tight |pepit - T| <= 1e-3 max(|T|, 1e-3) + 2e-5; upper pepit <= T (1 + 1e-3) + 1e-5 + 2e-5; fixed point 1e-6",
        "closed forms and validity ranges are transcribed by hand from the docstrings (spec/Rates.tla); irrational closed forms "
        "are compared through the example's own theoretical_tau only",
        "a finite grid of a continuous range: exploration, not a proof"]
    res.trusted = ["TLC 1.8 (rational oracle)", "cvxpy + CLARABEL", "harness/drv_c10.py"]
    rmwork(PID)
    return finish(res)


def replay(path):
    rp = json.load(open(path))["replay"]
    res = Result(PID, "quick", level="exploration")
    wd = workdir(PID + "-replay")
    traces = pool_map("drv_c10", "run", [rp["item"]], procs=1)
    res.traces = len(traces)
    judge(res, validate(res, traces, wd))
    res.samples = [rp]
    rmwork(PID + "-replay")
    return finish(res)
