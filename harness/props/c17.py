"""C17 - Dual tables report each multiplier at the pair of points it belongs to."""
import json, os, re
from core import *
import classes_common as cc
import c04

PID = "C17"

TRACE_CFG = ("CONSTANTS\n Depth = 0\n ClsSet = {}\n NPar = 2\n AllPerms = FALSE\n K = 0\nINIT T17Init\nNEXT T17Next\n"
             "INVARIANT Report17\nCHECK_DEADLOCK FALSE\n")
VARIANTS = ["none", "all", "mixed"]


def judge(res, verdicts):
    nontriv = set()
    for t, clauses in verdicts:
        if len(t["samples"]) >= 2:
            nontriv.add((t["cls"], t["hs"], t["names"], t["solved"]))
        for c in clauses:
            clause, cond, detail, count = c
            name = clause if detail == "-" else "%s:%s" % (clause, detail)
            if clause == "raises":
                name, cond = "raises:" + cond, "-"
            sig = "C17|%s|%s|%s" % (t["cls"], cond, name)
            res.violation(sig, "%s%s %s, points %s, declarations %s (%d samples): %s %s x%d" % (
                t["cls"], c04.pstr(t["P"]), "after a solve" if t["solved"] else "after set_class_constraints()",
                {"none": "unnamed", "all": "named", "mixed": "partly named"}[t["names"]], t["hs"] or "(none)",
                len(t["samples"]), name, cond, count),
                dict(kind="solved" if t["solved"] else "hist", cls=t["cls"], P=t["P"], h=t["h"], names=t["names"],
                     decls=t.get("decls"), order=t.get("order"), resolve=t.get("resolve", 0)))
    return nontriv


def solved_items(tier, pts):
    items = []
    for cls in cc.ALL:
        ks = [3] if tier == "quick" else [3, 4]
        for k in ks:
            decls = c04.decls_for(cls, k)
            for pi, P in enumerate(pts[cls][:2]):
                orders = [list(range(1, k + 1)), list(range(k, 0, -1))]
                if tier != "quick":
                    orders.append([2, 1] + list(range(3, k + 1)))
                for oi, order in enumerate(orders):
                    for names in VARIANTS:
                        if tier == "quick" and (pi + oi + VARIANTS.index(names)) % 2 == 1:
                            continue
                        items.append(dict(cls=cls, P=P, decls=decls, order=order, names=names))
                        if oi == 0 and names == VARIANTS[0]:
                            # the same model solved, its tables read, the metric doubled (no new sample), solved again:
                            # the tables must hold the multipliers of the LATEST solve
                            items.append(dict(cls=cls, P=P, decls=decls, order=order, names=names, resolve=1))
    return items


def run(tier):
    res = Result(PID, tier)
    wd = workdir(PID)
    depth, npar = (2, 2) if tier == "quick" else (3, 3)
    res.rule = ("cases = (class, declarations, parameter point, naming variant): (a) every declaration history of "
                "spec/ClassHist.tla with at most %d declarations of each of the 24 classes x %d parameter points x "
                "{unnamed, named, partly named with a second function} after set_class_constraints() (structure, names); "
                "(b) small solved models per class (3-4 declarations, several orders, 2 parameter points, the 3 naming "
                "variants) with the multipliers; non-trivial = at least two samples" % (depth, npar))
    H = c04.histories(res, wd, depth, npar, False, "ClassHist(depth %d)" % depth)
    res.exhaustive = True
    pts = {}
    for rec in H:
        pts.setdefault(rec["cls"], rec["P"])
    items, seen = [], set()
    for rec in H:
        for pi in range(npar):
            for names in VARIANTS:
                key = (rec["cls"], json.dumps(rec["P"][pi]), json.dumps(rec["h"]), names)
                if key not in seen:
                    seen.add(key)
                    items.append(dict(cls=rec["cls"], P=rec["P"][pi], h=rec["h"], names=names))
    traces = pool_map("drv_c17", "run", items)
    sit = solved_items(tier, pts)
    solved = pool_map("drv_c17", "run_solved", sit)
    for it, t in zip(sit, solved):
        t["decls"], t["order"] = it["decls"], it["order"]
        t["hs"] = "+".join(it["decls"][i - 1] for i in it["order"])
    res.inconclusive = sum(1 for t in solved if t["skip"])
    solved = [t for t in solved if not t["skip"]]
    traces += solved
    res.traces = len(traces)
    res.evaluations = len(traces)
    res.extra["solved_models"] = len(solved)
    res.extra["table_entries_checked"] = sum(sum(tb["rowlen"]) for t in traces for tb in t["tables"])
    res.extra["nonzero_multipliers_in_dual_tables"] = sum(1 for t in solved for d in t["duals"] for r in d["val"]
                                                         for x in r if x != 0)
    if not solved or not res.extra["nonzero_multipliers_in_dual_tables"] or len({t["cls"] for t in traces}) != 24:
        raise Machinery("vacuous run: %s" % res.extra)
    verdicts = c04.validate(res, traces, wd, module="TablesTrace", cfg=TRACE_CFG)
    nontriv = judge(res, verdicts)
    res.distinct_nontrivial = len(nontriv)
    res.samples = [dict(cls=t["cls"], P=c04.pstr(t["P"]), declarations=t["hs"], names=t["names"], solved=t["solved"],
                        tables=[(tb["name"], tb["type"], tb["nrows"], tb["rowlen"]) for tb in t["tables"]],
                        duals=[(d["name"], d["val"]) for d in t["duals"]][:2])
                   for t in (traces[:: max(1, len(traces) // 3)][:3] + solved[:: max(1, len(solved) // 3)][:3])]
    res.assumptions = ["the documented conditions and table names are the transcription in spec/Classes.tla",
                       "default ids: a function is Function_<counter>, an unnamed point is Point_<position in the list the "
                       "table runs over> (the convention of add_constraints_from_*; for the stationary x all tables the row "
                       "position is the position in the list of stationary points)",
                       "for a symmetric condition the constraint of the unordered pair may sit in either triangle",
                       "the multiplier of a constraint object is what eval_dual() returns (its agreement with the solver "
                       "is C01's business); solver failures are inconclusive"]
    res.trusted = ["TLC 1.8", "harness/proj.py projection", "spec/Classes.tla transcription of the documentation",
                   "CLARABEL via cvxpy"]
    rmwork(PID)
    return finish(res)


def replay(path):
    rp = json.load(open(path))["replay"]
    res = Result(PID, "quick")
    wd = workdir(PID + "-replay")
    if rp["kind"] == "solved":
        it = dict(cls=rp["cls"], P=rp["P"], decls=rp["decls"], order=rp["order"], names=rp["names"], resolve=rp.get("resolve", 0))
        traces = pool_map("drv_c17", "run_solved", [it], procs=1)
        for t in traces:
            t["decls"], t["order"] = it["decls"], it["order"]
            t["hs"] = "+".join(it["decls"][i - 1] for i in it["order"])
        traces = [t for t in traces if not t["skip"]]
    else:
        traces = pool_map("drv_c17", "run", [dict(cls=rp["cls"], P=rp["P"], h=rp["h"], names=rp["names"])], procs=1)
    res.traces = len(traces)
    if traces:
        judge(res, c04.validate(res, traces, wd, module="TablesTrace", cfg=TRACE_CFG))
    else:
        res.inconclusive = 1
    res.samples = [rp]
    rmwork(PID + "-replay")
    return finish(res)
