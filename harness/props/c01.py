"""C01 - Returned upper bound is backed by a complete, checkable dual certificate."""
import solvecheck as sc

PID = "C01"
RULE = ("models = behaviours of spec/Pep.tla (12 function/operator classes x steps x composite x user constraints x "
        "LMIs of five shapes x metrics x partition; solve options dual/primal, no heuristic/trace/logdet1, verbosity; "
        "re-solves and edits), built with the real DSL and solved with cvxpy+CLARABEL; TLC (SolveTrace.tla) recomputes "
        "the certificate identity monomial by monomial from the exposed multipliers; non-trivial = a solve returned a number")


def select(t, c):
    step, prop, name, detail = c
    if prop == "ALL":
        return sc.crash(t, c, PID, 'cvxpy')
    o = t["solves"][step - 1]
    if prop != "C01":
        return None
    cls = sc.CLASSNAME.get(t["prog"]["cls"], "?")
    sig = "C01|%s|%s|%s" % (name, cls, o["opts"]["heur"])
    return sig, "solve %d (%s): %s (detail %s)" % (step, sc.solvestr(o), name, detail)


def run(tier):
    return sc.run_family(PID, tier, RULE, select, cap=dict(quick=700, thorough=2500))


def replay(path):
    return sc.replay_family(PID, path, select)
