"""C02 - Primal output is a feasible, self-consistent worst-case instance."""
import solvecheck as sc

PID = "C02"
RULE = ("models = behaviours of spec/Pep.tla built with the real DSL and solved with cvxpy+CLARABEL (first solve of each "
        "program; later solves belong to C13); TLC (SolveTrace.tla) recomputes in fixed point: Gram of the evaluated "
        "coordinates vs PSD projection of the solver's Gram matrix, every held / derived object's value from the leaf "
        "values, every sent row and LMI at the instance, objective = smallest metric, primal <= dual; non-trivial = a "
        "solve returned a number")


def select(t, c):
    step, prop, name, detail = c
    if prop == "ALL":
        return sc.crash(t, c, PID, 'cvxpy')
    if prop != "C02" or step != 1:
        return None
    o = t["solves"][0]
    what = name
    sig = "C02|%s|%s" % (name.split(":")[0], o["opts"]["heur"])
    if name.startswith("object-built-after-a-new-leaf-point"):
        return "C02|" + name.replace(":", "|", 1), "first solve %s: %s" % (sc.solvestr(o), name)
    if name.startswith("held-object-has-no-value") or name.startswith("derived-"):
        h = o["held"][detail - 1]
        what = "%s (held object '%s')" % (name, h["name"])
        if h["name"].startswith("postleaf_"):
            sig = "C02|object-built-after-a-new-leaf-point|%s" % name.split(":", 1)[-1]
        elif h["name"].startswith("post_"):
            sig = "C02|object-built-after-the-solve|%s" % name.split(":")[0]
    return sig, "first solve %s: %s" % (sc.solvestr(o), what)


def run(tier):
    return sc.run_family(PID, tier, RULE, select, cap=dict(quick=600, thorough=2500))


def replay(path):
    return sc.replay_family(PID, path, select)
