"""C14 - Dimension-reduction post-processing keeps the guarantee it started from."""
import solvecheck as sc

PID = "C14"
RULE = ("models = behaviours of spec/Pep.tla whose solve requests a dimension-reduction heuristic (trace, logdet1; dual and "
        "primal return), run on the real library under recording wrappers that log (G, F, value) after every internal "
        "solve and the arguments of prepare_heuristic / heuristic; TLC (SolveTrace.tla) checks: multipliers assigned once "
        "and before the heuristic, dual-mode return = certificate constant of the first problem, primal-mode return within "
        "tol of the optimum, the returned instance is the last solution and satisfies every sent row, trace does not "
        "increase; non-trivial = a heuristic solve returned a number")


def select(t, c):
    step, prop, name, detail = c
    if prop == "ALL":
        return sc.crash(t, c, PID, 'cvxpy')
    o = t["solves"][step - 1]
    if o["opts"]["heur"] == "none" or step != 1:
        return None
    if prop == "C14":
        return "C14|%s|%s" % (name, o["opts"]["heur"]), "solve %s: %s (detail %s)" % (sc.solvestr(o), name, detail)
    if prop == "C01" and name in ("identity", "returned-bound-is-not-the-certificate-constant", "negative-multiplier",
                                  "residual-not-psd", "lmi-multiplier-not-psd", "multiplier-missing"):
        return "C14|certificate-%s|%s" % (name, o["opts"]["heur"]), "solve %s: certificate clause %s fails" % (sc.solvestr(o), name)
    if prop == "C02" and name in ("inequality-violated-at-the-instance", "equality-violated-at-the-instance",
                                  "lmi-violated-at-the-instance", "coordinates-do-not-reproduce-gram"):
        return "C14|instance-%s|%s" % (name, o["opts"]["heur"]), "solve %s: %s (item %s)" % (sc.solvestr(o), name, detail)
    return None


def want(p):
    return p["solves"][0]["heur"] != "none"


def fallback(p):
    """every fourth program names the MOSEK wrapper although MOSEK is not installed: solve() falls back to cvxpy and must
    carry all options over"""
    fallback.n = getattr(fallback, "n", 0) + 1
    if fallback.n % 4 == 0:
        return dict(prog=p["prog"], solves=[dict(o, wrapper="mosek") for o in p["solves"]])
    return p


def run(tier):
    return sc.run_family(PID, tier, RULE, select, want=want, cap=dict(quick=300, thorough=1500), transform=fallback)


def replay(path):
    return sc.replay_family(PID, path, select)
