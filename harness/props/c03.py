"""C03 - Class constraints never exclude a real member of the class.

spec/Members.tla      real members of the 24 classes (value level, exact rationals) + membership by definition
spec/MemberHist.tla   declaration histories of one function (O, S, X, R, C, G, B, T, U, W events)
harness/drv_c03.py    replay on the real class, record roles of the leaves + the generated constraints / LMIs
spec/MembersTrace.tla every member x every assignment of the leaves: evaluate the code's constraints exactly
"""
import hashlib, json, os, random
from core import *

PID = "C03"
BATCH = 6000


def _mode(tier):
    return 2 if tier == "thorough" else 1


def model_run(res, tier, wd):
    """TLC on Members.tla alone: every member of every case belongs to its class by the definition of the class.
    Returns the cases (class, parameters, member tags): the single source of the parameter grid."""
    cfg = ("CONSTANTS\n GridMode = %d\nINIT Init\nNEXT Check\nINVARIANT MembersAreMembers\nINVARIANT Emit\n"
           "CHECK_DEADLOCK FALSE\n" % _mode(tier))
    r = tlc("Members", cfg, os.path.join(wd, "members"), cont=True)
    res.add_tlc("Members(membership by definition, GridMode %d)" % _mode(tier), r)
    if r["violated"]:
        raise Machinery("spec/Members.tla: a member does not belong to its class by definition:\n" +
                        "\n".join(l for l in r["out"].splitlines() if l.startswith("fails") or l.startswith("/\\ fails"))[:3000])
    cases = [json.loads(x) for x in split_prints(r["out"]) if isinstance(x, str)]
    if r["distinct"] != 2 * len(cases) or not cases:
        raise Machinery("Members.tla: %d states for %d cases (the Check action was not taken for every case)" % (
            r["distinct"], len(cases)))
    res.cov["Members"] = {"Members.Init": [len(cases), len(cases)], "Members.Check": [len(cases), len(cases)]}
    res.extra["near_miss_non_members_rejected_by_the_definition_check"] = sum(c["nnon"] for c in cases)
    for c in cases:
        c["P"] = [[n, d] for n, d in zip(c["Pn"], c["Pd"])]
    cases.sort(key=lambda c: (c["cls"], c["P"]))
    only = os.environ.get("C03_CLASSES")           # development aid (mutation experiments): restrict the classes
    if only:
        cases = [c for c in cases if c["cls"] in only.split(",")]
        res.extra["restricted_to_classes"] = only
    return cases


def histories(res, wd, maxlen, hast, nblocks, label):
    cfg = ("CONSTANTS\n MaxLen = %d\n HasT = %s\n NBlocks = %d\nINIT Init\nNEXT Next\nINVARIANT WellFormed\n"
           "INVARIANT Emit\nCHECK_DEADLOCK FALSE\n" % (maxlen, "TRUE" if hast else "FALSE", nblocks))
    r = tlc("MemberHist", cfg, os.path.join(wd, "hist"), coverage=True)
    if r["violated"]:
        raise Machinery("MemberHist.tla violates its own invariant %s" % r["violated"])
    res.add_tlc("MemberHist(%s, length <= %d)" % (label, maxlen), r)
    hs = [json.loads(x)["h"] for x in split_prints(r["out"]) if isinstance(x, str)]
    if len(hs) != r["distinct"] - 1:
        raise Machinery("MemberHist: %d histories printed for %d states" % (len(hs), r["distinct"]))
    hs.sort(key=lambda h: (len(h), json.dumps(h, sort_keys=True)))
    return hs


def family(case):
    if case["cls"] == "LinearOperator":
        return "adjoint"
    if case["cls"] == "BlockSmoothConvexFunction" and len(case["P"]) > 1:
        return "blocks"
    return "plain"


def programs(res, tier, wd, cases):
    """(case, history) items.
    quick: every history of length <= 2 on every case; the length-3 histories of the class's event alphabet are
    dealt out (seeded shuffle) over the parameter points of the class, so every length-3 history is replayed on at
    least one parameter point of every class.
    thorough: every history of length <= 3 on every case + a seeded sample of the length-4 histories."""
    rnd = random.Random(seed() + 3)
    H = {"plain": histories(res, wd, 3, False, 1, "plain"),
         "adjoint": histories(res, wd, 3, True, 1, "with adjoint"),
         "blocks": histories(res, wd, 3, False, 2, "with 2 blocks")}
    H4 = {}
    if tier == "thorough":
        H4 = {"plain": [h for h in histories(res, wd, 4, False, 1, "plain") if len(h) == 4],
              "adjoint": [h for h in histories(res, wd, 4, True, 1, "with adjoint") if len(h) == 4],
              "blocks": [h for h in histories(res, wd, 4, False, 2, "with 2 blocks") if len(h) == 4]}
    groups = {}
    for c in cases:
        groups.setdefault((c["cls"], family(c)), []).append(c)
    items = []
    for (cls, fam), cs in sorted(groups.items()):
        short = [h for h in H[fam] if len(h) <= 2]
        long3 = [h for h in H[fam] if len(h) == 3]
        rnd.shuffle(long3)
        for k, c in enumerate(cs):
            hs = short + (long3 if tier == "thorough" else long3[k::len(cs)])
            items += [dict(ci=c["ci"], cls=c["cls"], P=c["P"], h=h) for h in hs]
            if H4:
                items += [dict(ci=c["ci"], cls=c["cls"], P=c["P"], h=h) for h in rnd.sample(H4[fam], min(N4, len(H4[fam])))]
    return items


N4 = 16      # length-4 histories sampled per case in the thorough tier


def trace_key(t):
    return hashlib.sha1(json.dumps([t["cls"], t["P"], t["d"], t["roles"], t["fr"], t["cons"], t["lmis"], t.get("events", [])],
                                   sort_keys=True).encode()).hexdigest()


def validate(res, tier, traces, wd):
    """TLC trace validation; returns [(trace, bad, nev, tight)]"""
    out = []
    cfg = ("CONSTANTS\n GridMode = %d\nINIT TInit\nNEXT Step\nINVARIANT Report\nCHECK_DEADLOCK FALSE\n" % _mode(tier))
    for s in range(0, len(traces), BATCH):
        chunk = traces[s:s + BATCH]
        path = os.path.join(wd, "traces_%d.ndjson" % s)
        write_ndjson(path, [{k: t[k] for k in ("ci", "cls", "P", "d", "NP", "NE", "roles", "fr", "cons", "lmis", "events")} for t in chunk])
        r = tlc("MembersTrace", cfg, os.path.join(wd, "trace"), env=dict(TRACE_FILE=path), timeout=3000)
        res.add_tlc("MembersTrace", r)
        cv = res.cov.setdefault("MembersTrace", {"MembersTrace.TInit": [0, 0], "MembersTrace.Step": [0, 0]})
        cv["MembersTrace.TInit"] = [cv["MembersTrace.TInit"][0] + len(chunk)] * 2
        cv["MembersTrace.Step"] = [cv["MembersTrace.Step"][0] + r["distinct"] - len(chunk)] * 2
        vd = verdicts(r["out"], len(chunk))
        for i, t in enumerate(chunk):
            v = vd[i + 1]
            out.append((t, v["bad"], v["n"], v["tight"], v["ov"], v["unk"]))
        os.remove(path)
    return out


def witness(w):
    """the TLA+ value <<vector, ...>> (vector = <<<<n, d>>, ...>>) printed by ToString, as fractions"""
    try:
        from core import _parse_tla_value
        vs = _parse_tla_value(w)
        return "[" + ", ".join("(" + ", ".join(str(n) if d == 1 else "%d/%d" % (n, d) for n, d in v) + ")" for v in vs) + "]"
    except Exception:
        return w


def pstr(t):
    return "(" + ", ".join("inf" if d == 0 else (str(n) if d == 1 else "%d/%d" % (n, d)) for n, d in t["P"]) + ")"


def judge(res, verdicts):
    nontriv = set()
    tight_by_class, evals_by_class, cons_by_class = {}, {}, {}
    seen_sig = set()
    total_ev = 0
    n_ov = n_unk = 0
    # shortest histories first: a signature is reported with the simplest history that shows it
    for t, bad, nev, tight, ov, unk in sorted(verdicts, key=lambda v: (len(v[0]["h"]), v[0]["cls"], v[0]["P"], v[0]["hist"])):
        cls = t["cls"]
        n_ov += ov
        n_unk += unk
        names = {c["nm"] for c in t["cons"]} | {l["nm"] for l in t["lmis"]}
        total_ev += nev
        evals_by_class[cls] = evals_by_class.get(cls, 0) + nev
        cons_by_class.setdefault(cls, set()).update(names)
        tight_by_class.setdefault(cls, set()).update(tight)
        if nev > 0 and names:
            nontriv.add((cls, pstr(t), t["hist"]))
        for cname, tag, wit in sorted(map(tuple, bad)):
            if cname.startswith("MACHINERY"):
                raise Machinery("%s: %s (class %s, history %s)" % (cname, tag, cls, t["hist"]))
            sig = "C03|%s|%s|%s" % (cls, cname, tag)
            if sig in seen_sig:
                continue        # one violation per signature: the first (shortest) history that shows it
            seen_sig.add(sig)
            res.violation(sig, "%s%s, history %s: the generated constraint '%s' is violated by the real member '%s' of "
                               "the class (the relaxation excludes a real execution); leaf points = %s with roles %s"
                          % (cls, pstr(t), t["hist"], cname, tag, witness(wit), [r["t"] for r in t["roles"]]),
                          dict(kind="history", tier=res.tier, cls=cls, P=t["P"], h=t["h"]))
    res.distinct_nontrivial = len(nontriv)
    res.evaluations = total_ev
    res.extra["member_assignment_evaluations"] = total_ev
    res.extra["assignments_dropped_by_32bit_guard"] = n_ov
    res.extra["constraint_evaluations_not_judged_by_32bit_guard"] = n_unk
    res.inconclusive = n_unk
    res.extra["evaluations_by_class"] = dict(sorted(evals_by_class.items()))
    res.extra["constraint_families_tight_at_some_member"] = {k: sorted(v) for k, v in sorted(tight_by_class.items())}
    never = {k: sorted(n for n in cons_by_class[k] - tight_by_class.get(k, set())
                       if not n.startswith("lmi") and n not in EQUALITY_FAMILIES) for k in sorted(cons_by_class)}
    res.extra["inequality_families_never_tight"] = {k: v for k, v in never.items() if v}
    res.extra["constraint_families_evaluated"] = {k: sorted(v) for k, v in sorted(cons_by_class.items())}


EQUALITY_FAMILIES = {"value", "fenchel_value", "symmetry", "symmetric_linearity", "antisymmetric_linearity",
                     "unnamed_equality", "partition_orthogonality"}


def run_items(res, tier, wd, items):
    traces = pool_map("drv_c03", "run", items)
    raised = [t for t in traces if t["exc"]]
    res.extra["histories_on_which_the_library_raised"] = len(raised)
    res.extra["raised_samples"] = [dict(cls=t["cls"], P=t["P"], hist=t["hist"], exc=t["exc"]) for t in raised[:5]]
    traces = [t for t in traces if not t["exc"]]
    res.extra["histories_replayed"] = len(traces)
    uniq, seen = [], set()
    for t in traces:
        k = trace_key(t)
        if k not in seen:
            seen.add(k)
            uniq.append(t)
    res.traces = len(uniq)
    # cheap traces first does not matter for TLC (breadth first); shuffle so that batches are balanced
    random.Random(seed() + 5).shuffle(uniq)
    verdicts = validate(res, tier, uniq, wd)
    judge(res, verdicts)
    return uniq, verdicts


def run(tier):
    res = Result(PID, tier)
    wd = workdir(PID)
    cases = model_run(res, tier, wd)
    res.extra["cases"] = len(cases)
    res.extra["members_per_case"] = {"%s%s" % (c["cls"], pstr(c)): len(c["tags"]) for c in cases}
    items = programs(res, tier, wd, cases)
    uniq, verdicts = run_items(res, tier, wd, items)
    res.rule = ("cases = (class, parameter point) of spec/Members.tla (24 classes); histories = behaviours of "
                "spec/MemberHist.tla (events O/S/X/R/C/G, B for 2 blocks, T/U/W for the adjoint; all of length <= 3, "
                "thorough adds a seeded sample of length 4); traces = distinct (class, parameters, roles, generated "
                "constraints); non-trivial = (class, parameters, history) with at least one generated constraint "
                "evaluated on at least one (member, assignment); evaluations = (member, assignment, subgradient "
                "choice) tuples on which all generated constraints were evaluated exactly")
    res.exhaustive = tier == "thorough"     # thorough: every history of length <= 3 on every case, every member, whole grid
    step = max(1, len(verdicts) // 5)
    res.samples = [dict(cls=t["cls"], P=pstr(t), history=t["hist"], constraints=sorted({c["nm"] for c in t["cons"]}),
                        lmis=len(t["lmis"]), evaluations=nev, tight=sorted(tight))
                   for t, bad, nev, tight, ov, unk in verdicts[::step][:5]]
    res.assumptions = [
        "members are rational and of dimension 1 or 2; a constraint that only excludes members needing dimension >= 3 "
        "or irrational data is not seen",
        "free points range over a small grid (quick: 3 values in 1-D / 4 vectors in 2-D; thorough: 5 / 5), "
        "stationary / fixed points over {-1,-1/2,0,1/2,1} (1-D) and {-1/2,0,1/2}^2 (2-D)",
        "subgradients at kinks: both end points of the subdifferential, its mid point and 0 (normal cones truncated "
        "to [-2, 2])",
        "RsiEbFunction / ConvexQGFunction: the class is read as 'the inequality holds with respect to every "
        "stationary point' (what stationary_point() can return); members have the stationary sets this allows",
        "an LMI is what the solver sees: every entry as written equals the entry of one symmetric PSD matrix",
        "class parameters that are not dyadic after the library's arithmetic are projected with "
        "Fraction.limit_denominator(4096) and must be within 1e-12 (else machinery failure)"]
    res.trusted = ["TLC 1.8", "spec/Members.tla member definitions (validated by the model run against the class "
                   "definitions on the grid)", "harness/proj.py projection (reads decomposition_dict only)",
                   "harness/drv_c03.py role assignment (from the public calls and their return values)"]
    rmwork(PID)
    return finish(res)


def replay(path):
    rp = json.load(open(path))["replay"]
    tier = rp.get("tier", "quick")
    res = Result(PID, tier)
    wd = workdir(PID + "-replay")
    cases = [c for c in model_run(res, tier, wd) if c["cls"] == rp["cls"] and c["P"] == rp["P"]]
    if not cases:
        raise Machinery("replay: case %s %r is not in the %s grid of spec/Members.tla" % (rp["cls"], rp["P"], tier))
    run_items(res, tier, wd, [dict(ci=cases[0]["ci"], cls=rp["cls"], P=rp["P"], h=rp["h"])])
    res.samples = [rp]
    rmwork(PID + "-replay")
    return finish(res)
