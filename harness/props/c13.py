"""C13 - Solving again gives fresh, consistent answers."""
import solvecheck as sc

PID = "C13"
RULE = ("solve / edit / evaluate sequences = behaviours of spec/Pep.tla with >= 2 solves (unchanged re-solve, replaced "
        "initial condition, added metric, added LMI, a solve made infeasible and feasible again, other return mode or "
        "heuristic), run on the real library; held objects are evaluated after every solve; TLC (SolveTrace.tla) "
        "recomputes every value from the latest leaf values, compares the data sent at consecutive solves of an unedited "
        "model, and re-checks the certificate of every solve; non-trivial = at least two solves returned")


def select(t, c):
    step, prop, name, detail = c
    if prop == "ALL":
        return sc.crash(t, c, PID, None)
    o = t["solves"][step - 1]
    cls = sc.CLASSNAME.get(t["prog"]["cls"], "?")
    if prop == "C13":
        if name == "class-lmis-accumulate-over-solves":
            return "C13|%s|%s" % (name, cls), "solve %d sends %s more class LMI(s) than solve %d of the same model" % (step, detail, step - 1)
        if name == "partition-constraints-accumulate-over-solves":
            return "C13|%s" % name, "solve %d sends %s more partition constraints than solve %d of the same model" % (step, detail, step - 1)
        return "C13|%s|%s" % (name, cls), "solve %d: %s (detail %s)" % (step, name, detail)
    if o["edit"] == "fresh-twin":
        return None
    if step >= 2 and prop == "C05" and name == "orthogonality-of-declared-blocks-not-sent":
        if not [x for x in t.get("_clauses", []) if x[0] == 1 and x[1] == "C05" and x[2] == name]:
            return ("C13|declared-orthogonality-missing-after-edit",
                    "solve %d does not send the orthogonality of %s pair(s) of blocks the partition handed out "
                    "(the first solve of the model did send all of its pairs)" % (step, detail))
    if step >= 2 and prop == "C02":
        base = name.split(":")[0]
        if base.startswith("derived-") or base.startswith("held-object-has-no-value"):
            import re
            h = o["held"][detail - 1]["name"]
            m = re.match(r"post(\d*)_", h)
            if m and int(m.group(1) or 1) == step:
                return ("C13|object-built-after-the-latest-solve|%s" % base,
                        "after solve %d an object built AFTER that solve ('%s') does not evaluate to the latest solution (%s)" % (step, h, name))
        if base.startswith("derived-") or base in ("constraint-value-differs-from-its-expression",
                                                   "lmi-value-differs-from-its-entries"):
            return ("C13|stale-value-after-resolve|%s" % base,
                    "after solve %d an object evaluates to a number that is not the latest solution (%s)" % (step, name))
        if base in ("leaf-expression-value-is-not-the-solver-value", "leaf-expression-without-value",
                    "coordinates-do-not-reproduce-gram"):
            # leaf values are re-assigned at every solve (this is not the stale-cache finding F5, which concerns derived objects)
            if not [x for x in t.get("_clauses", []) if x[0] == 1 and x[1] == "C02" and x[2] == name]:
                return ("C13|leaf-values-are-not-those-of-the-latest-solve|%s" % base,
                        "after solve %d the leaf points / leaf expressions do not carry the latest solution (%s)" % (step, name))
        if base == "held-object-has-no-value":
            return ("C13|no-value-after-resolve", "after solve %d: %s" % (step, name))
        if base in ("inequality-violated-at-the-instance", "equality-violated-at-the-instance", "lmi-violated-at-the-instance"):
            return None       # consequence of stale constraint values; reported through the clauses above
    if step >= 2 and prop == "C01" and not name.startswith("identity-with-lmi-not-symmetric"):     # (that one is finding F7 of C01)
        first = [x for x in t.get("_clauses", []) if x[0] == 1 and x[1] == "C01" and x[2] == name]
        if not first:
            return "C13|certificate-of-latest-solve|%s" % name, "solve %d: %s" % (step, name)
    return None


def want(p):
    return len(p["solves"]) >= 2


def fresh_twin(p):
    """append the newly built equivalent model (same program, all edits applied before its only solve)"""
    last = dict(p["solves"][-1])
    if last["heur"] != "none":
        return p
    return dict(prog=p["prog"], solves=list(p["solves"]) + [dict(last, edit="fresh-twin")])


def run(tier):
    return sc.run_family(PID, tier, RULE, select, want=want, cap=dict(quick=400, thorough=2000), transform=fresh_twin)


def replay(path):
    return sc.replay_family(PID, path, select)
