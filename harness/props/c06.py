"""C06 - Point / expression algebra is a faithful vector-space and inner-product calculus."""
import json, os, random
from core import *
from core import verdicts as core_verdicts

PID = "C06"


def _cfg(depth, ill, extra="", focus="all", sim=False):
    return ("CONSTANTS\n NP = 2\n NE = 1\n Depth = %d\n IllTyped = %s\n Sim = %s\n Focus = \"%s\"\nINIT Init\nNEXT Next\n"
            "INVARIANT Sound\nINVARIANT IllRaises\nINVARIANT Emit\nPROPERTY NoMutation\nCHECK_DEADLOCK FALSE\n%s"
            % (depth, "TRUE" if ill else "FALSE", "TRUE" if sim else "FALSE", focus, extra))


TRACE_CFG = ("CONSTANTS\n NP = 2\n NE = 1\n Depth = 0\n IllTyped = FALSE\n Sim = FALSE\n Focus = \"all\"\nINIT TInit\nNEXT Step\n"
             "INVARIANT Report\nCHECK_DEADLOCK FALSE\n")


SMALL = []     # focus programs: only meaningful with the tiny 4th scalar (variant 2)


def programs(res, tier, wd):
    progs = []
    del SMALL[:]
    # exhaustive: all well-typed programs of depth 2 + all ill-typed one-step programs
    r = tlc("Algebra", _cfg(2, True), wd, coverage=True)
    if r["violated"]:
        raise Machinery("Algebra.tla violates its own invariant %s" % r["violated"])
    res.add_tlc("Algebra(depth 2, exhaustive)", r)
    for rec in split_prints(r["out"]):
        if isinstance(rec, str):
            progs.append(json.loads(rec)["h"])
    res.exhaustive = True
    # all depth-3 programs that build a SMALL coefficient (4th scalar squared) and push it through one more operator
    r = tlc("Algebra", _cfg(3, False, focus="small"), wd)
    if r["violated"]:
        raise Machinery("Algebra.tla (focus small) violates %s" % r["violated"])
    res.add_tlc("Algebra(depth 3, focus: small coefficients, exhaustive)", r)
    for rec in split_prints(r["out"]):
        if isinstance(rec, str):
            SMALL.append(json.loads(rec)["h"])
    if tier == "thorough":
        # sampled depth-4 behaviours
        r = tlc("Algebra", _cfg(4, False, sim=True), wd, workers=1,
                simulate="num=40000", extra=["-depth", "5", "-seed", str(seed() + 11)])
        res.add_tlc("Algebra(depth 4, simulate)", r)
        seen = set()
        for rec in split_prints(r["out"]):
            if isinstance(rec, str) and rec not in seen:
                seen.add(rec)
                progs.append(json.loads(rec)["h"])
    return progs


def validate(res, traces, wd, name="traces"):
    """TLC trace validation; returns list of (trace, clauses)."""
    out = []
    B = 20000
    for s in range(0, len(traces), B):
        chunk = traces[s:s + B]
        path = os.path.join(wd, "%s_%d.ndjson" % (name, s))
        write_ndjson(path, chunk)
        r = tlc("AlgebraTrace", TRACE_CFG, wd, env=dict(TRACE_FILE=path))
        res.add_tlc("AlgebraTrace", r)
        verdicts = core_verdicts(r["out"], len(chunk))
        for i, t in enumerate(chunk):
            out.append((t, verdicts[i + 1]))
        os.remove(path)
    return out


def opstr(o):
    def x(a):
        return {"obj": "o%d", "sc": "s%d", "junk": "j%d", "no": ""}[a["t"]] % ((a["i"],) if a["t"] != "no" else ())
    return "%s(%s,%s)" % (o["op"], x(o["a"]), x(o["b"]))


def judge(res, verdicts):
    nontriv = set()
    for t, clauses in verdicts:
        key = " ; ".join(opstr(o) for o in t["h"])
        if len(t["h"]) >= 1:
            nontriv.add(key)
        for c in clauses:
            step, op, clause = c
            o = t["h"][step - 1] if step >= 1 else None
            kinds = ""
            if o:
                kinds = "/" + o["a"]["t"] + "-" + o["b"]["t"]
            sig = "C06|%s%s|%s" % (op, kinds, clause)
            res.violation(sig, "program [%s] (scalars as %s): step %d %s: %s; observed %s" % (
                key, ("int", "float", "tiny 4th scalar")[t["variant"]], step, op, clause,
                json.dumps(t["res"][step - 1]) if step >= 1 else "init"),
                dict(kind="program", h=t["h"], variant=t["variant"]))
    res.distinct_nontrivial = len(nontriv)


def run(tier):
    res = Result(PID, tier)
    wd = workdir(PID)
    res.rule = ("programs = behaviours of spec/Algebra.tla (all well-typed operator programs of depth 2 over 2 leaf "
                "points, 1 leaf expression, 1 constraint, scalars {-1,0,2,1/2}; all one-step programs with operands of "
                "undocumented kinds; thorough adds sampled depth-4 programs), each replayed with int and with float "
                "scalars; distinct = distinct operator sequences; non-trivial = at least one operator applied")
    progs = programs(res, tier, wd)
    def uses4(h):
        return any(o[x]["t"] == "sc" and o[x]["i"] == 4 for o in h for x in ("a", "b"))
    # variant 0: int scalars, 1: float scalars, 2: the 4th scalar is 2^-20 instead of 1/2 (re-encoded exactly, see drv_c06)
    items = [dict(h=h, variant=v) for h in progs for v in (0, 1)] + [dict(h=h, variant=2) for h in progs if uses4(h)] \
        + [dict(h=h, variant=2) for h in SMALL]
    traces = pool_map("drv_c06", "run", items)
    res.traces = len(traces)
    res.evaluations = len(traces)
    verdicts = validate(res, traces, wd)
    judge(res, verdicts)
    res.samples = [dict(program=[opstr(o) for o in t["h"]], observed_last=t["res"][-1] if t["res"] else None)
                   for t in traces[:: max(1, len(traces) // 5)][:5]]
    res.assumptions = ["dyadic scalars only: PEPit's float arithmetic is exact on them, so equality of normal forms is exact",
                       "numpy scalar operands and non-dyadic floats are outside this check"]
    res.trusted = ["TLC 1.8", "harness/proj.py projection (reads decomposition_dict only)"]
    rmwork(PID)
    return finish(res)


def replay(path):
    rp = json.load(open(path))["replay"]
    res = Result(PID, "quick")
    wd = workdir(PID + "-replay")
    traces = pool_map("drv_c06", "run", [dict(h=rp["h"], variant=rp["variant"])], procs=1)
    res.traces = 1
    r = tlc("Algebra", _cfg(1, False), wd)
    res.add_tlc("Algebra(depth 1)", r)
    judge(res, validate(res, traces, wd))
    res.samples = [rp]
    rmwork(PID + "-replay")
    return finish(res)
