"""C15 - Block partitions behave as orthogonal coordinate-block projections."""
import json, os
from core import *
from core import verdicts as core_verdicts

PID = "C15"


def _cfg(calls, trace=False):
    c = "CONSTANTS\n MaxD = 3\n MaxCalls = %d\n MaxP = 10\n" % calls
    if trace:
        return c + "INIT TInit\nNEXT TNext\nINVARIANT Report\nCHECK_DEADLOCK FALSE\n"
    return c + "INIT Init\nNEXT Next\nINVARIANT InvSum\nINVARIANT InvOne\nINVARIANT InvSame\nINVARIANT Emit\nCHECK_DEADLOCK FALSE\n"


def judge(res, traces, wd):
    out = []
    B = 3000
    for s in range(0, len(traces), B):
        chunk = traces[s:s + B]
        path = os.path.join(wd, "part_%d.ndjson" % s)
        write_ndjson(path, chunk)
        r = tlc("PartitionTrace", _cfg(0, True), wd, env=dict(TRACE_FILE=path))
        res.add_tlc("PartitionTrace", r)
        v = core_verdicts(r["out"], len(chunk))
        out += [(t, v[i + 1]) for i, t in enumerate(chunk)]
        os.remove(path)
    keys = set()
    for t, clauses in out:
        key = "d=%d " % t["d"] + " ".join(("p%d.b%d" % (c["p"], c["k"])) if c["p"] else "GENERATE" for c in t["h"])
        keys.add(key)
        for what, detail in clauses:
            res.violation("C15|%s|d=%d" % (what, t["d"]), "partition with %d block(s), calls [%s]: %s (detail %s)" % (
                t["d"], key, what, detail), dict(d=t["d"], ctor=t.get("ctor", 1), h=t["h"]))
    res.distinct_nontrivial = len(keys)


def run(tier):
    res = Result(PID, tier)
    wd = workdir(PID)
    n = 3 if tier == "quick" else 4        # (an intermediate generation counts as one call)
    r = tlc("Partition", _cfg(n), wd, coverage=True)
    if r["violated"]:
        raise Machinery("Partition.tla violates %s" % r["violated"])
    res.add_tlc("Partition(exhaustive, %d calls)" % n, r)
    res.exhaustive = True
    items = [json.loads(x) for x in split_prints(r["out"]) if isinstance(x, str)]
    if tier == "thorough" and len(items) > 7000:
        # all sequences of 3 calls are covered by the quick tier; of the sequences of 4 calls a seeded sample is replayed
        import random
        random.Random(seed() + 2).shuffle(items)
        items = items[:7000]
        res.exhaustive = False
    traces = pool_map("drv_c15", "run", items)
    res.traces = res.evaluations = len(traces)
    judge(res, traces, wd)
    res.rule = ("programs = behaviours of spec/Partition.tla: d in 1..3, all sequences of %d get_block calls over 5 held points "
                "(two leaves, two combinations, and the block returned by the first call, decomposed again) and all block numbers, then the solve-time "
                "constraint generation; TLC checks on the observed blocks and constraints: sum, repetition, identity for d=1, "
                "set of orthogonality relations, and every coordinate partition of Z^3 on a grid as a real instance" % n)
    res.samples = [dict(d=t["d"], calls=t["h"], leaf_points=t["np"], constraints=len(t["cons"])) for t in
                   traces[:: max(1, len(traces) // 5)][:5]]
    res.assumptions = ["accumulation of partition constraints over several solves is C13's (finding F4); here one generation"]
    res.trusted = ["TLC 1.8", "harness/drv_c15.py projection of blocks_dict / list_of_constraints"]
    rmwork(PID)
    return finish(res)


def replay(path):
    rp = json.load(open(path))["replay"]
    res = Result(PID, "quick")
    wd = workdir(PID + "-replay")
    r = tlc("Partition", _cfg(1), wd)
    res.add_tlc("Partition", r)
    traces = pool_map("drv_c15", "run", [rp], procs=1)
    res.traces = 1
    judge(res, traces, wd)
    res.samples = [rp]
    rmwork(PID + "-replay")
    return finish(res)
