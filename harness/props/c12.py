"""C12 - A model's result does not depend on what happened earlier in the process."""
import json, os
from core import *
from core import verdicts as core_verdicts

PID = "C12"
NFRAG, NMODELS = 16, 12
FRAG = {1: "partition model solved", 2: "class-LMI + user LMI model solved", 3: "composite function model solved",
        4: "linear operator with transpose + LMI solved", 5: "construction that raises", 6: "model built and abandoned",
        7: "unbounded solve (None)", 8: "solved model kept referenced and evaluated", 9: "verbose solve",
        10: "solve with trace heuristic", 11: "unsent LMI object, named point, solved", 12: "good solve then infeasible solve",
        13: "DSL objects built with the bare classes, no PEP",
        14: "solve with its own solver options, everything evaluated afterwards",
        15: "solved model whose last reference is dropped while the next model is being built",
        16: "abandoned model in a reference cycle, garbage collected while the next model is being built"}


def _cfg(maxhist, forget="{}", trace=False, emit=True):
    c = "CONSTANTS\n MaxHist = %d\n NFragments = %d\n NModels = %d\n Forget = %s\n" % (maxhist, NFRAG, NMODELS, forget)
    if trace:
        return c + "INIT TInit\nNEXT TNext\nINVARIANT Report\nCHECK_DEADLOCK FALSE\n"
    return c + "INIT Init\nNEXT Next\nINVARIANT CleanSlate\n" + ("INVARIANT Emit\n" if emit else "") + "CHECK_DEADLOCK FALSE\n"


def judge(res, traces, wd):
    path = os.path.join(wd, "reg.ndjson")
    write_ndjson(path, traces)
    r = tlc("RegistryTrace", _cfg(0, trace=True), wd, env=dict(TRACE_FILE=path))
    res.add_tlc("RegistryTrace", r)
    v = core_verdicts(r["out"], len(traces))
    keys = set()
    for i, t in enumerate(traces):
        if t["hist"]:
            keys.add((tuple(t["hist"]), t["b"], t["verbose"]))
        for what, detail in v[i + 1]:
            last = t["hist"][-1] if t["hist"] else 0
            res.violation("C12|%s|%s" % (what, detail),
                          "model B%d (verbose=%d) after history %s: %s (%s) differs from the same model in a fresh interpreter" % (
                              t["b"], t["verbose"], [FRAG[k] for k in t["hist"]], what, detail),
                          dict(hist=t["hist"], b=t["b"], verbose=t["verbose"]))
    res.distinct_nontrivial = len(keys)


def run_items(items):
    # references: each model B alone, in a FRESH interpreter (one task per worker process)
    refs = {}
    ref_items = sorted({(it["b"], v) for it in items for v in (0, 1, 2)})
    outs = pool_map("drv_c12", "run", [dict(hist=[], b=b, verbose=v) for b, v in ref_items], maxtasksperchild=1, chunksize=1)
    for (b, v), o in zip(ref_items, outs):
        refs[(b, v)] = o
    traces = pool_map("drv_c12", "run", items, maxtasksperchild=1, chunksize=1)
    for t in traces:
        r = refs[(t["b"], t["verbose"])]
        o = refs.get((t["b"], (t["verbose"] + 1) % 3), r)      # the same model at the next verbosity level (0 -> 1 -> 2 -> 0)
        t.update(ref_snap=r["snap"], ref_hash=r["hash"], ref_rows=r["rows"], ref_val=r["val"], ref_out=r["out"],
                 oth_hash=o["hash"], oth_rows=o["rows"], oth_val=o["val"], oth_out=o["out"], ref_inst=r["inst"], oth_inst=o["inst"])
    return traces


def run(tier):
    res = Result(PID, tier)
    wd = workdir(PID)
    # design: NewPEP resets everything; forgetting any single registry is exposed by some history (vacuity control)
    r = tlc("Registry", _cfg(2 if tier == "quick" else 3), wd, coverage=True)
    if r["violated"]:
        raise Machinery("Registry.tla violates %s" % r["violated"])
    res.add_tlc("Registry(exhaustive)", r)
    for name in ("Expression.counter", "BlockPartition.list_of_partitions", "PSDMatrix.counter"):
        rr = tlc("Registry", _cfg(2, '{"%s"}' % name, emit=False), wd)
        if "CleanSlate" not in rr["violated"]:
            raise Machinery("Registry.tla: forgetting %s is not exposed" % name)
    progs = [json.loads(x) for x in split_prints(r["out"]) if isinstance(x, str)]
    import random
    rnd = random.Random(seed() + 5)
    one = [p for p in progs if len(p["hist"]) <= 1]
    more = [p for p in progs if len(p["hist"]) >= 2]
    rnd.shuffle(more)
    sel = one + more[:(150 if tier == "quick" else 900)]
    items = [dict(hist=p["hist"], b=p["b"], verbose=(0, 0, 0, 1, 2)[i % 5]) for i, p in enumerate(sel)]
    traces = run_items(items)
    res.traces = res.evaluations = len(traces)
    judge(res, traces, wd)
    import integrated
    n_int = integrated.run(res, tier, wd)          # the integrated machine PEPit.tla: registries after every call (drift only)
    res.traces += n_int
    res.evaluations += n_int
    res.rule = ("histories = behaviours of spec/Registry.tla: every history of <= 1 fragment and a seeded sample of longer ones "
                "(<= %d fragments out of 16: partition / LMI / composite / linear-operator models, failed construction, abandoned "
                "model, unbounded and infeasible solves, referenced objects, verbose and heuristic solves, earlier models released or "
                "garbage collected while B is being built) followed by each of 12 models B (two of them without a finite value, three with dimension reduction); compared with B in a fresh interpreter: registry snapshot after PEP() (reflection over all class "
                "attributes), SHA-256 of the conic data and of the symbolic rows (exact float bits), returned value" % (
                    2 if tier == "quick" else 3))
    res.samples = [dict(history=[FRAG[k] for k in t["hist"]], model=t["b"], conic_hash=t["hash"], value=t["val"]) for t in
                   traces[:: max(1, len(traces) // 5)][:5]]
    res.assumptions = ["PYTHONHASHSEED=0 (set by ./check); cvxpy canonicalisation is deterministic for equal inputs"]
    res.trusted = ["TLC 1.8", "cvxpy get_problem_data('CLARABEL') as the solver input"]
    rmwork(PID)
    return finish(res)


def replay(path):
    rp = json.load(open(path))["replay"]
    res = Result(PID, "quick")
    wd = workdir(PID + "-replay")
    r = tlc("Registry", _cfg(1, emit=False), wd)
    res.add_tlc("Registry", r)
    traces = run_items([rp])
    res.traces = 1
    judge(res, traces, wd)
    res.samples = [rp]
    rmwork(PID + "-replay")
    return finish(res)
