"""C08 - Primitive steps encode exactly their defining optimality conditions.

(A) structure: programs = behaviours of spec/Steps.tla (calls of the 8 primitive steps, every option, on leaf and
    composite functions, leaf / combination / previously-returned start points, dyadic step sizes and accuracies),
    replayed on the real steps by harness/drv_c08.py; spec/StepsTrace.tla compares the observed delta of every call
    (returned tuple, new samples per function, new constraints per function) with the documented delta evaluated on
    the previously observed state, up to a permutation of the fresh leaves, constraints as a set of normalised
    conditions.
(B) real side: spec/StepsReal.tla instantiates the leaves of every single-call trace on a leaf function with the
    output of the real operation on quadratic / abs / box members (exact rationals) and checks every recorded
    sample, constraint and returned normal form.
"""
import json, os, re
from core import *
from core import verdicts as core_verdicts

PID = "C08"
STEPS = ["proximal_step", "inexact_gradient_step", "inexact_proximal_step", "exact_linesearch_step",
         "bregman_gradient_step", "bregman_proximal_step", "linear_optimization_step", "epsilon_subgradient_step"]
OPTS = {"inexact_gradient_step": ["absolute", "relative"], "inexact_proximal_step": ["PD_gapI", "PD_gapII", "PD_gapIII"]}
FNAMES = {0: "-", 1: "D1", 2: "D2", 3: "N1", 4: "N2", 5: "N3", 6: "S=D1+2N1", 7: "M=D1+D2/2", 8: "K=N2+2N3", 9: "Zc=(D1+N1)-N1"}


def _cfg(depth, grid, init="Init", nxt="Next", invs=("Documented", "Fits", "Emit")):
    dimp, dime = 2 + 6 * max(depth, 1), 5 * max(depth, 1)
    return ("CONSTANTS\n Depth = %d\n Grid = %d\n DimP = %d\n DimE = %d\nINIT %s\nNEXT %s\n%sCHECK_DEADLOCK FALSE\n"
            % (depth, grid, dimp, dime, init, nxt, "".join("INVARIANT %s\n" % i for i in invs)))


def _progs(r):
    return [json.loads(rec)["h"] for rec in split_prints(r["out"]) if isinstance(rec, str)]


def model(res, wd, name, depth, grid, simulate=None):
    if simulate:
        r = tlc("Steps", _cfg(depth, grid), wd, workers=1, simulate="num=%d" % simulate,
                extra=["-depth", str(depth + 1), "-seed", str(seed() + 8)])
        m = re.search(r"The number of states generated: (\d+)", r["out"])
        if m:                           # simulation mode reports its count in another form
            r["generated"] = r["distinct"] = int(m.group(1))
    else:
        r = tlc("Steps", _cfg(depth, grid), wd)
    if r["violated"]:
        raise Machinery("Steps.tla violates its own invariant %s (%s)" % (r["violated"], name))
    res.add_tlc(name, r)
    return _progs(r)


def programs(res, tier, wd):
    """[(h, variant)]"""
    items = []
    p1 = model(res, wd, "Steps(1 call, full grids, exhaustive)", 1, 0)
    items += [(h, v) for h in p1 for v in (0, 1)]
    p2 = model(res, wd, "Steps(2 calls, %s, exhaustive)" % ("full grids" if tier == "thorough" else "gamma=2, eps=1/2"),
               2, 0 if tier == "thorough" else 1)
    items += [(h, i % 2 if tier == "thorough" else 0) for i, h in enumerate(p2)]
    # the same calls with every composite function formed at the call site and not kept by the caller
    comp = lambda h: any(c["f"] >= 6 or c["h"] >= 6 for c in h)
    items += [(h, 2) for h in p1 if comp(h)]
    items += [(h, 2) for i, h in enumerate([h for h in p2 if comp(h)]) if tier == "thorough" or i % 3 == 0]
    if tier == "thorough":
        p3 = model(res, wd, "Steps(3 calls, full grids, simulate)", 3, 2, simulate=4000)
        seen = set()
        for h in p3:
            k = json.dumps(h, sort_keys=True)
            if k not in seen:
                seen.add(k)
                items.append((h, 0))
    res.exhaustive = True
    # action coverage of the model, counted on the exported behaviours (TLC's -coverage cost model does not
    # terminate on this specification: recursive operators below eight action call sites)
    cov = {}
    for h, v in items:
        for c in h:
            k = "Steps.%s/%s" % (c["step"], c["opt"])
            cov[k] = cov.get(k, 0) + 1
    need = ["Steps.%s/%s" % (s, o) for s in STEPS for o in OPTS.get(s, ["-"])] + [
        "Steps.inexact_gradient_step/bogus", "Steps.inexact_proximal_step/bogus"]
    missing = [k for k in need if not cov.get(k)]
    if missing:
        raise Machinery("model never takes %s" % missing)
    res.cov["Steps(calls in exported behaviours)"] = cov
    return items


def validate(res, module, cfg, traces, wd, name):
    out = []
    B = 20000
    for s in range(0, len(traces), B):
        chunk = traces[s:s + B]
        path = os.path.join(wd, "%s_%d.ndjson" % (name, s))
        write_ndjson(path, chunk)
        r = tlc(module, cfg, wd, env=dict(TRACE_FILE=path))
        res.add_tlc(module, r)
        v = core_verdicts(r["out"], len(chunk))
        for i, t in enumerate(chunk):
            out.append((t, v[i + 1]))
        os.remove(path)
    return out


def callstr(c):
    s = c["step"] + ("[%s]" % c["opt"] if c["opt"] != "-" else "")
    args = []
    if c["f"]: args.append("f=" + FNAMES[c["f"]])
    if c["h"]: args.append("h=" + FNAMES[c["h"]])
    args.append("a=" + c["a"])
    if c["b"] != "-": args.append("b=" + c["b"])
    if c["step"] == "exact_linesearch_step": args.append("dirs=" + "+".join(c["dirs"]))
    if c["step"] not in ("exact_linesearch_step", "linear_optimization_step"):
        args.append("gamma=%d/%d" % (c["gn"], c["gd"]))
    if c["step"] == "inexact_gradient_step": args.append("eps=%d/%d" % (c["en"], c["ed"]))
    return "%s(%s)" % (s, ",".join(args))


def casekey(c):
    return json.dumps([c[k] for k in ("step", "opt", "f", "h", "a", "b", "dirs", "gn", "gd", "en", "ed")])


def is_real(t):
    """single documented call on leaf functions only: input of the real side"""
    if len(t["h"]) != 1:
        return False
    c = t["h"][0]
    if c["step"] == "proximal_step" and c["f"] == 6:       # the one composite case of the real side
        return True
    return c["opt"] not in ("bogus", "rel", "PD_gap") and c["f"] in (0, 1, 2, 3, 4, 5) and c["h"] in (0, 1, 2)


def judge(res, verdicts, part):
    for t, clauses in verdicts:
        prog = " ; ".join(callstr(c) for c in t["h"])
        for cl in clauses:
            l, step, opt, clause = cl
            if step == "scenarios":
                res.evaluations += int(clause)
                continue
            if clause == "skipped":
                continue
            if clause.startswith("machinery"):
                raise Machinery("trace validation: %s on program [%s] call %d" % (clause, prog, l))
            d = t["d"][l - 1] if 1 <= l <= len(t["d"]) else None
            obs = ""
            if d is not None:
                obs = "exc=%s ret=%s new_samples=%s new_constraints=%s" % (
                    d["exc"] or "-", json.dumps([o["p"] if o["k"] == "pt" else [o["F"], o["G"], o["c"]] for o in d["ret"]]),
                    json.dumps({FNAMES[i + 1]: len(x) for i, x in enumerate(d["ns"]) if x}),
                    json.dumps({FNAMES[i + 1]: x for i, x in enumerate(d["nc"]) if x}))
            if clause.startswith("drift-"):
                res.drift.append("program [%s] call %d: %s" % (prog, l, clause))
                continue
            sig = "C08|%s|%s|%s" % (step, opt, clause)
            res.violation(sig, "%s: program [%s] (scalars as %s), call %d %s: %s; observed %s" % (
                part, prog, ["int", "float", "float, composite functions formed at the call site"][t["variant"]], l, step, clause, obs[:1500]),
                dict(kind="program", h=t["h"], variant=t["variant"]))


def finish_meta(res, traces, rtraces):
    res.traces = len(traces)
    keys = set()
    for t in traces:
        for c in t["h"]:
            keys.add(casekey(c))
    res.distinct_nontrivial = len(keys)
    step = max(1, len(traces) // 5)
    res.samples = [dict(program=[callstr(c) for c in t["h"]],
                        observed_last=dict(ret=t["d"][-1]["ret"], np=t["d"][-1]["np"], ne=t["d"][-1]["ne"],
                                           new_constraints=[x for x in t["d"][-1]["nc"] if x]))
                   for t in traces[::step][:5]]
    res.extra["real_side_traces"] = len(rtraces)
    res.extra["real_side_scenario_evaluations"] = res.evaluations
    res.evaluations += len(traces)
    res.rule = ("programs = behaviours of spec/Steps.tla: all single calls (8 steps, every option, functions D1 / N1 / "
                "S=D1+2N1 (indicator N2 / K=N2+2N3 for the LMO step, mirror maps D1 / M=D1+D2/2), start points x0 | "
                "x0-x1/2 | previously returned point, gamma in {1/2,1,2}, epsilon in {0,1/2}, 0-2 search directions, "
                "one undocumented option per optioned step), each with int and float scalars, and every call on a composite "
                "function again with the composite formed at the call site and not kept by the caller (what the "
                "class-level registry still holds of it after a garbage collection is what counts); all sequences of 2 calls "
                "(quick: gamma=2, eps=1/2; thorough: full grids); thorough adds sampled sequences of 3 calls. "
                "distinct = distinct (step, option, function(s), argument shapes, parameters) calls validated; "
                "non-trivial = every call is (a call of a step always creates leaves and records samples). "
                "Real side: every single-call trace on leaf functions x members (quadratics 1-D/2-D, m|x|, interval/box) "
                "x values of the initial points x error/accuracy grids, evaluated in exact rationals by TLC")
    res.assumptions = [
        "dyadic step sizes and accuracies only: PEPit's float arithmetic is exact on them, normal forms are compared exactly",
        "Function.oracle / value / add_point (leaf functions and sums of two leaves) are modelled as implemented in "
        "PEPit/function.py; a change of their allocation policy shows up here as a C08 'samples' mismatch",
        "the fresh leaves of a call are matched up to permutation only (not up to an arbitrary invertible linear "
        "substitution); PD_gapII is documented through its error leaf e = x - x0 + gamma g",
        "real side: leaf functions only, members with closed-form steps (diagonal quadratics, m|x|, boxes), dimension "
        "1 and 2; class interpolation conditions at the recorded samples are C03's subject, not evaluated here"]
    res.trusted = ["TLC 1.8 / CommunityModules Json", "harness/drv_c08.py sparse projection (reads decomposition_dict only)",
                   "spec/LinForm.tla, spec/Rat.tla", "closed forms of the member steps in spec/StepsReal.tla"]


def run_traces(res, items, wd, tier):
    traces = pool_map("drv_c08", "run", [dict(h=h, variant=v) for h, v in items])
    vs = validate(res, "StepsTrace", _cfg(0, 0, "TInit", "TStep", ("Report",)), traces, wd, "traces")
    judge(res, vs, "structure")
    rtraces = [t for t in traces if is_real(t) and (tier == "thorough" or t["variant"] == 0)]
    if rtraces:
        rs = validate(res, "StepsReal", _cfg(0, 0 if tier == "thorough" else 1, "RInit", "RStep", ("RReport",)),
                      rtraces, wd, "rtraces")
        judge(res, rs, "real side")
    return traces, rtraces


def run(tier):
    res = Result(PID, tier)
    wd = workdir(PID)
    items = programs(res, tier, wd)
    traces, rtraces = run_traces(res, items, wd, tier)
    finish_meta(res, traces, rtraces)
    rmwork(PID)
    return finish(res)


def replay(path):
    rp = json.load(open(path))["replay"]
    res = Result(PID, "quick")
    wd = workdir(PID + "-replay")
    traces, rtraces = run_traces(res, [(rp["h"], rp.get("variant", 0))], wd, "quick")
    finish_meta(res, traces, rtraces)
    res.samples = [rp]
    rmwork(PID + "-replay")
    return finish(res)
