"""C04 - Class constraints are complete and independent of declaration order."""
import json, os
from core import *
from core import verdicts as core_verdicts
import classes_common as cc

PID = "C04"


def hist_cfg(depth, npar, allperms, classes=None):
    classes = classes or cc.ALL
    return ("CONSTANTS\n Depth = %d\n ClsSet = {%s}\n NPar = %d\n AllPerms = %s\n K = 0\nINIT Init\nNEXT Next\n"
            "INVARIANT OrderIndep\nINVARIANT DimsOK\nINVARIANT Emit\nCHECK_DEADLOCK FALSE\n"
            % (depth, ", ".join('"%s"' % c for c in classes), npar, "TRUE" if allperms else "FALSE"))


def perm_cfg(k):
    return ("CONSTANTS\n Depth = 0\n ClsSet = {}\n NPar = 2\n AllPerms = FALSE\n K = %d\nINIT PInit\nNEXT PNext\n"
            "INVARIANT PEmit\nCHECK_DEADLOCK FALSE\n" % k)


TRACE_CFG = ("CONSTANTS\n Depth = 0\n ClsSet = {}\n NPar = 2\n AllPerms = FALSE\n K = 0\nINIT TInit\nNEXT TNext\n"
             "INVARIANT Report\nCHECK_DEADLOCK FALSE\n")


def histories(res, wd, depth, npar, allperms, label, module="ClassHist", classes=None):
    """all declaration histories up to `depth` of every class, with the parameter points of the specification"""
    r = tlc(module, hist_cfg(depth, npar, allperms, classes), wd, coverage=True)
    if r["violated"]:
        raise Machinery("ClassHist.tla violates its own invariant %s:\n%s" % (
            r["violated"], "\n".join(r["out"].splitlines()[-30:])))
    res.add_tlc(label, r)
    out = []
    for rec in split_prints(r["out"]):
        if isinstance(rec, str):
            out.append(json.loads(rec))
    if len(out) != r["distinct"]:
        raise Machinery("ClassHist: %d histories printed for %d states" % (len(out), r["distinct"]))
    # vacuity: every kind of declaration occurs (TLC attributes DoO/DoS/DoX to their common sub-action Go)
    ev = {}
    for rec in out:
        for e in rec["h"]:
            ev[e["e"]] = ev.get(e["e"], 0) + 1
    res.extra.setdefault("declarations_by_kind", {})[label] = ev
    if depth >= 2 and (classes is None) and set(ev) != {"O", "S", "X", "Q", "R", "T", "U"}:
        raise Machinery("ClassHist: declaration kinds %s never enumerated" % sorted({"O", "S", "X", "Q", "R", "T", "U"} - set(ev)))
    return out


def permutations(res, wd, k):
    r = tlc("ClassHist", perm_cfg(k), wd)
    res.add_tlc("ClassHist(permutations of %d declarations)" % k, r)
    out = [json.loads(rec)["perm"] for rec in split_prints(r["out"]) if isinstance(rec, str)]
    fact = 1
    for i in range(2, k + 1):
        fact *= i
    if len(out) != fact:
        raise Machinery("expected %d permutations, TLC printed %d" % (fact, len(out)))
    return out


def validate(res, traces, wd, module="ClassesTrace", cfg=TRACE_CFG, name="traces", batch=1500):
    """TLC trace validation; returns list of (trace, clauses)"""
    out = []
    for s in range(0, len(traces), batch):
        chunk = traces[s:s + batch]
        path = os.path.join(wd, "%s_%d.ndjson" % (name, s))
        write_ndjson(path, chunk)
        r = tlc(module, cfg, wd, env=dict(TRACE_FILE=path), coverage=(s == 0))
        res.add_tlc(module, r)
        try:
            verdicts = core_verdicts(r["out"], len(chunk))
        except Machinery as e:
            raise Machinery("%s: %s\n%s" % (module, e, "\n".join(r["out"].splitlines()[-25:])))
        for i, t in enumerate(chunk):
            out.append((t, verdicts[i + 1]))
        os.remove(path)
    return out


def pstr(P):
    return "(" + ", ".join("inf" if d == 0 else ("%d" % n if d == 1 else "%d/%d" % (n, d)) for n, d in P) + ")"


def decls_for(cls, k):
    """the declaration list of the end-to-end model of a class: oracle at P0, P1(, P2), a stationary / fixed point,
    a second subgradient at P0 for the classes that allow several, the adjoint for LinearOperator"""
    import drv_c04
    lin = drv_c04.METRIC[cls] == "lin"
    base = ["A0", "A1", "X" if lin else "S"]
    if cls == "LinearOperator":      # without a sample of the adjoint the class sends an empty LMI (cvxpy rejects it)
        base = ["A0", "A1", "T1"]
    if k >= 4:
        if cls == "LinearOperator":
            base.append("X")
        elif cls in NONDIFF:
            base.append("A0")            # a further subgradient at P0
        else:
            base.append("A2")
    return base


NONDIFF = {"ConvexFunction", "StronglyConvexFunction", "ConvexLipschitzFunction", "ConvexQGFunction",
           "RsiEbFunction", "ConvexIndicatorFunction", "ConvexSupportFunction", "MonotoneOperator",
           "StronglyMonotoneOperator"}


def judge(res, verdicts):
    nontriv = set()
    for t, clauses in verdicts:
        if t["kind"] == "perm":
            for c in clauses:
                sig = "C04|%s|end-to-end|%s:%s" % (t["cls"], c[0], c[1])
                res.violation(sig, "%s%s: the model with declarations %s gives values %s depending on the order of "
                              "the declarations" % (t["cls"], pstr(t["P"]), t["decls"],
                                                    sorted({(s, v) for s, v in zip(t["st"], t["val"])})),
                              dict(kind="perm", cls=t["cls"], P=t["P"], decls=t["decls"]))
            continue
        if len(t["samples"]) + len(t["tsamples"]) >= 2 and not t["exc"]:
            nontriv.add((t["cls"], t["hs"]))
        for c in clauses:
            clause, cond, kind, count = c
            if clause == "drift":
                res.drift.append("%s%s history %s: recorded %s differ from the recorder model" % (
                    t["cls"], pstr(t["P"]), t["hs"] or "-", cond))
                continue
            name = clause if kind in ("-", "pair") else "%s-%s" % (clause, kind)
            if clause == "raises":
                name, cond = "raises:" + cond, "-"
            sig = "C04|%s|%s|%s" % (t["cls"], cond, name)
            res.violation(sig, "%s%s after the declarations %s (%d samples): %s %s %s x%d" % (
                t["cls"], pstr(t["P"]), t["hs"] or "(none)", len(t["samples"]), clause, cond,
                "" if kind == "-" else kind, count),
                dict(kind="cons", cls=t["cls"], P=t["P"], h=t["h"]))
    return nontriv


def perm_traces(res, wd, tier, only=None):
    import itertools
    out = []
    ks = [3] if tier == "quick" else [3, 4]
    items = []
    for k in ks:
        perms = permutations(res, wd, k)
        for cls in cc.ALL:
            if only and cls not in only:
                continue
            decls = decls_for(cls, k)
            pts = PTS[cls][:1] if tier == "quick" else PTS[cls][:2]
            for P in pts:
                seen = set()
                orders = []
                for p in perms:
                    key = tuple(decls[i - 1] for i in p)
                    if key not in seen:
                        seen.add(key)
                        orders.append(p)
                for p in orders:
                    items.append(dict(cls=cls, P=P, decls=decls, order=p))
    vals = pool_map("drv_c04", "run_perm", items)
    groups = {}
    for it, v in zip(items, vals):
        groups.setdefault((it["cls"], json.dumps(it["P"]), tuple(it["decls"])), []).append((it, v))
    for (cls, P, decls), lst in groups.items():
        out.append(dict(kind="perm", cls=cls, P=json.loads(P), decls=list(decls), orders=[it["order"] for it, _ in lst],
                        st=[v["st"] for _, v in lst], val=[v["val"] for _, v in lst], exc=""))
        res.inconclusive += sum(1 for _, v in lst if v["st"].startswith("fail"))
    res.evaluations += len(items)
    return out


PTS = {}


def run(tier):
    res = Result(PID, tier)
    wd = workdir(PID)
    depth, npar = (3, 2) if tier == "quick" else (4, 3)
    res.rule = ("cases = (class, declaration history, parameter point): every history of spec/ClassHist.tla with at most "
                "%d declarations (O oracle at a fresh point, S stationary_point, X fixed_point, R further subgradient at a "
                "recorded point for the 9 non-differentiable classes, T/U adjoint oracle for LinearOperator) of each of the "
                "24 classes x %d parameter points, enumerated exhaustively by TLC; non-trivial = at least two recorded "
                "samples (at least one pair); plus, end to end, every order of the declarations of one small model per "
                "class solved with the real library" % (depth, npar))
    if tier == "quick":
        H = histories(res, wd, depth, npar, False, "ClassHist(depth 3, generators)")
    else:
        histories(res, wd, 3, npar, True, "ClassHist(depth 3, all permutations)")
        H = histories(res, wd, depth, npar, False, "ClassHist(depth 4, generators)")
    res.exhaustive = True
    for rec in H:
        PTS.setdefault(rec["cls"], rec["P"])
    items = [dict(cls=rec["cls"], P=rec["P"][pi], h=rec["h"], pi=pi) for rec in H for pi in range(npar)]
    # NonexpansiveOperator's third point repeats the second
    seen, uniq = set(), []
    for it in items:
        key = (it["cls"], json.dumps(it["P"]), json.dumps(it["h"]))
        if key not in seen:
            seen.add(key)
            uniq.append(it)
    # every single-declaration history (and every third longer one) once more with the constraints generated by a real
    # pep.solve() instead of a direct call of set_class_constraints()
    uniq += [dict(it, via_pep=1) for i, it in enumerate(uniq) if len(it["h"]) == 1 or i % 3 == 0]
    traces = pool_map("drv_c04", "run", uniq)
    traces += perm_traces(res, wd, tier)
    res.traces = len(traces)
    res.evaluations += len(uniq)
    verdicts = validate(res, traces, wd)
    nontriv = judge(res, verdicts)
    res.distinct_nontrivial = len(nontriv)
    cons_traces = [t for t in traces if t["kind"] == "cons"]
    res.extra["scalar_constraints_compared"] = sum(len(t["cons"]) for t in cons_traces)
    res.extra["lmis_compared"] = sum(len(t["lmis"]) for t in cons_traces)
    res.extra["end_to_end_models"] = len(traces) - len(cons_traces)
    res.extra["classes"] = len({t["cls"] for t in cons_traces})
    if res.extra["classes"] != 24 or not res.extra["scalar_constraints_compared"] or not res.extra["lmis_compared"]:
        raise Machinery("vacuous run: %s" % res.extra)
    res.samples = [dict(cls=t["cls"], P=pstr(t["P"]), history=t.get("hs", str(t.get("decls"))),
                        samples=len(t.get("samples", [])), constraints=len(t.get("cons", [])),
                        lmis=len(t.get("lmis", [])), values=t.get("val"))
                   for t in traces[:: max(1, len(traces) // 5)][:6]]
    res.assumptions = ["'documented conditions' = the transcription in spec/Classes.tla of the class docstrings and of the "
                       "literature results they cite; equality of normalised condition sets is sufficient for equal "
                       "feasible sets (a refactoring emitting an equivalent but differently combined set would be flagged)",
                       "coefficients are read as the nearest fraction with denominator <= 4096 (must be within 1e-12)",
                       "tightness (a finite primal value is attained by a member) follows from the cited interpolation "
                       "theorems once the condition sets agree; it is not re-proved here",
                       "end-to-end values: CLARABEL, tolerance 1e-4; solver failures are inconclusive"]
    res.trusted = ["TLC 1.8", "harness/proj.py projection (reads decomposition_dict only)",
                   "spec/Classes.tla transcription of the documentation", "CLARABEL via cvxpy (end-to-end clause only)"]
    rmwork(PID)
    return finish(res)


def replay(path):
    rp = json.load(open(path))["replay"]
    res = Result(PID, "quick")
    wd = workdir(PID + "-replay")
    if rp["kind"] == "perm":
        perms = permutations(res, wd, len(rp["decls"]))
        items = [dict(cls=rp["cls"], P=rp["P"], decls=rp["decls"], order=p) for p in perms]
        vals = pool_map("drv_c04", "run_perm", items)
        traces = [dict(kind="perm", cls=rp["cls"], P=rp["P"], decls=rp["decls"], orders=perms,
                       st=[v["st"] for v in vals], val=[v["val"] for v in vals], exc="")]
    else:
        traces = pool_map("drv_c04", "run", [dict(cls=rp["cls"], P=rp["P"], h=rp["h"])], procs=1)
    res.traces = len(traces)
    judge(res, validate(res, traces, wd))
    res.samples = [rp]
    rmwork(PID + "-replay")
    return finish(res)
