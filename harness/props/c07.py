"""C07 - Oracle bookkeeping is coherent for leaf and composite functions."""
import json, os
from core import *
from core import verdicts as core_verdicts

PID = "C07"
MAXV = 20


ALLOPS = '{"oracle", "value", "prox", "gradient", "call"}'
CORE = '{"oracle", "value", "prox"}'


def _cfg(calls, zero, devf9=False, devf12=False, emit=True, invs=True, sim=False, ops=CORE, qset="{1, 3, 4, 5, 6}"):
    s = ("CONSTANTS\n MaxP = %d\n MaxE = %d\n MaxCalls = %d\n DevF9 = %s\n DevF12 = %s\n WithZeroFun = %s\n Sim = %s\n"
         " OpSet = %s\n QSet = %s\nINIT Init\nNEXT Next\nCHECK_DEADLOCK FALSE\n" % (
             MAXV, MAXV, calls, str(devf9).upper(), str(devf12).upper(), str(zero).upper(), str(sim).upper(), ops, qset))
    if invs:
        s += "INVARIANT InvI1\nINVARIANT InvI2\nINVARIANT InvI3\nINVARIANT InvI4\n"
    if emit:
        s += "INVARIANT Emit\n"
    return s


TRACE_CFG = ("CONSTANTS\n MaxP = %d\n MaxE = %d\n MaxCalls = 0\n DevF9 = FALSE\n DevF12 = FALSE\n WithZeroFun = FALSE\n Sim = FALSE\n OpSet = {}\n QSet = {}\n"
             "INIT TInit\nNEXT Step\nINVARIANT Report\nCHECK_DEADLOCK FALSE\n" % (MAXV, MAXV))


def programs(res, tier, wd):
    progs = []
    # (1) the model as the code is now: invariants must hold; every behaviour is exported
    depth = 2
    r = tlc("Oracle", _cfg(depth, False), wd, coverage=True)
    if r["violated"]:
        raise Machinery("Oracle.tla (code as it is now) violates %s" % r["violated"])
    res.add_tlc("Oracle(depth %d, exhaustive, 8 functions)" % depth, r)
    for rec in split_prints(r["out"]):
        if isinstance(rec, str):
            progs.append(dict(h=json.loads(rec)["h"], zero=False))
    # (2) with the all-zero combination (finding F15 lives there): export behaviours only
    r = tlc("Oracle", _cfg(1 if tier == "quick" else 2, True, invs=False), wd)
    res.add_tlc("Oracle(with f1 - f1)", r)
    for rec in split_prints(r["out"]):
        if isinstance(rec, str):
            h = json.loads(rec)["h"]
            if any(c["f"] == 9 for c in h):
                progs.append(dict(h=h, zero=True))
    # (3) the two repaired deviations must be violations in the model when switched back on (vacuity control)
    for name, kw in (("DevF9", dict(devf9=True)), ("DevF12", dict(devf12=True))):
        r = tlc("Oracle", _cfg(2, False, emit=False, **kw), wd)
        res.extra.setdefault("dev_switch_counterexamples", {})[name] = r["violated"]
        if not r["violated"]:
            raise Machinery("Oracle.tla with %s does not violate any invariant: the invariants are vacuous" % name)
    # (4) sampled longer behaviours
    # every entry point on every function at every query point, one call (exhaustive), then sampled sequences of 4
    r = tlc("Oracle", _cfg(1, False, ops=ALLOPS, qset="{1, 2, 3, 4, 5, 6}"), wd)
    res.add_tlc("Oracle(depth 1, all entry points)", r)
    for rec in split_prints(r["out"]):
        if isinstance(rec, str):
            progs.append(dict(h=json.loads(rec)["h"], zero=False))
    n = 8000 if tier == "quick" else 60000
    r = tlc("Oracle", _cfg(4, False, invs=True, sim=True, ops=ALLOPS, qset="{1, 2, 3, 4, 5, 6}"), wd, workers=1, simulate="num=%d" % n,
            extra=["-depth", "5", "-seed", str(seed() + 7)])
    if r["violated"]:
        raise Machinery("Oracle.tla (simulation) violates %s" % r["violated"])
    res.add_tlc("Oracle(depth 4, simulate)", r)
    seen = set()
    for rec in split_prints(r["out"]):
        if isinstance(rec, str) and rec not in seen:
            seen.add(rec)
            progs.append(dict(h=json.loads(rec)["h"], zero=False))
    if tier == "thorough":
        r = tlc("Oracle", _cfg(3, False, emit=False), wd, timeout=3000)
        if r["violated"]:
            raise Machinery("Oracle.tla depth 3 violates %s" % r["violated"])
        res.add_tlc("Oracle(depth 3, exhaustive, invariants only)", r)
    return progs


ALG_TRACE_CFG = ("CONSTANTS\n MaxP = %d\n MaxE = %d\n MaxCalls = 0\n DevF9 = FALSE\n DevF12 = FALSE\n WithZeroFun = FALSE\n Sim = FALSE\n"
                 " OpSet = {}\n QSet = {}\n MaxBuild = 0\nINIT TInit\nNEXT Step\nINVARIANT Report\nCHECK_DEADLOCK FALSE\n" % (MAXV, MAXV))

CLASSES = {   # every shipped class with valid parameters (for the reuse_gradient sweep)
    "ConvexFunction": {}, "StronglyConvexFunction": dict(mu=.5), "SmoothFunction": dict(L=1.), "SmoothConvexFunction": dict(L=1.),
    "SmoothStronglyConvexFunction": dict(mu=.25, L=1.), "ConvexLipschitzFunction": dict(M=1.),
    "SmoothConvexLipschitzFunction": dict(L=1., M=1.), "ConvexQGFunction": dict(L=1.), "RsiEbFunction": dict(mu=.5, L=1.),
    "ConvexIndicatorFunction": dict(D=1.), "ConvexSupportFunction": dict(M=1.),
    "BlockSmoothConvexFunction": {}, "CocoerciveOperator": dict(beta=1.),
    "CocoerciveStronglyMonotoneOperator": dict(mu=.5, beta=1.), "LipschitzOperator": dict(L=1.),
    "LipschitzStronglyMonotoneOperator": dict(mu=.5, L=1.), "MonotoneOperator": {}, "NegativelyComonotoneOperator": dict(rho=1.),
    "NonexpansiveOperator": {}, "StronglyMonotoneOperator": dict(mu=.5)}
# (SmoothStronglyConvexQuadraticFunction and the three linear-operator classes fix reuse_gradient themselves)


def alg_cfg(calls, build, sim=False, ops=CORE, qset="{1, 3, 4}", emit=True):
    s = ("CONSTANTS\n MaxP = %d\n MaxE = %d\n MaxCalls = %d\n DevF9 = FALSE\n DevF12 = FALSE\n WithZeroFun = FALSE\n Sim = %s\n"
         " OpSet = %s\n QSet = %s\n MaxBuild = %d\nINIT AInit\nNEXT ANext\nINVARIANT AInvI1\nINVARIANT AInvI2\nINVARIANT AInvI4\n"
         "INVARIANT AInvI6\nCHECK_DEADLOCK FALSE\n" % (MAXV, MAXV, calls, str(sim).upper(), ops, qset, build))
    return s + ("INVARIANT AEmit\n" if emit else "")


def algebra_machine(res, tier, wd):
    """second machine (spec/OracleAlg.tla): the functions are built by the behaviour with the DSL operators"""
    items = []
    r = tlc("OracleAlg", alg_cfg(2, 1), wd, coverage=True)
    if r["violated"]:
        raise Machinery("OracleAlg.tla violates %s" % r["violated"])
    res.add_tlc("OracleAlg(1 built function + 1 call, exhaustive)", r)
    for rec in split_prints(r["out"]):
        if isinstance(rec, str):
            h = json.loads(rec)["h"]
            items += [dict(h=h, variant=v) for v in (0, 1)]
    n = 3000 if tier == "quick" else 40000
    r = tlc("OracleAlg", alg_cfg(4, 2, sim=True, ops=ALLOPS, qset="{1, 2, 3, 4, 5, 6}"), wd, workers=1, simulate="num=%d" % n,
            extra=["-depth", "5", "-seed", str(seed() + 9)])
    if r["violated"]:
        raise Machinery("OracleAlg.tla (simulation) violates %s" % r["violated"])
    res.add_tlc("OracleAlg(<= 2 built functions, 4 steps, simulate)", r)
    seen = set()
    for rec in split_prints(r["out"]):
        if isinstance(rec, str) and rec not in seen:
            seen.add(rec)
            items.append(dict(h=json.loads(rec)["h"], variant=len(seen) % 2))
    # every shipped class declared with an explicit reuse_gradient value, queried twice at one point
    for cls, kw in sorted(CLASSES.items()):
        for flag in (0, 1):
            items.append(dict(cls=cls, kw=kw, flag=flag, variant=0,
                              h=[dict(op="oracle", f=1, g=0, s=0, q=1), dict(op="oracle", f=1, g=0, s=0, q=1),
                                 dict(op="value", f=1, g=0, s=0, q=1)]))
        # ... and asked twice for a stationary point (two minimisers / zeros are two samples), then queried
        items.append(dict(cls=cls, kw=kw, flag=0, variant=0,
                          h=[dict(op="stat", f=1, g=0, s=0, q=1), dict(op="stat", f=1, g=0, s=0, q=1),
                             dict(op="oracle", f=1, g=0, s=0, q=1)]))
    traces = pool_map("drv_c07b", "run", items)
    out = []
    B = 6000
    for s0 in range(0, len(traces), B):
        chunk = traces[s0:s0 + B]
        path = os.path.join(wd, "alg_%d.ndjson" % s0)
        write_ndjson(path, chunk)
        r = tlc("OracleAlgTrace", ALG_TRACE_CFG, wd, env=dict(TRACE_FILE=path))
        res.add_tlc("OracleAlgTrace", r)
        v = core_verdicts(r["out"], len(chunk))
        out += [(t, v[i + 1]) for i, t in enumerate(chunk)]
        os.remove(path)
    nontriv = set()
    for t, clauses in out:
        key = ("%s(reuse_gradient=%s): " % (t["cls"], bool(t["funs0"][0]["diff"])) if t["cls"] else "") + " ; ".join(
            ("%s(f%d%s)" % (c["op"], c["f"], (",f%d" % c["g"]) if c["g"] else (",s%d" % c["s"]) if c["s"] else "")) if c["op"].startswith("f") and c["op"] != "fixed"
            else "f%d.%s(%s)" % (c["f"], c["op"], QN[c["q"]]) for c in t["h"])
        nontriv.add(key)
        first = {}
        for c in sorted(clauses):
            step, clause, fid = c
            if clause == "drift":
                res.drift.append(dict(program=key, step=step))
                continue
            first.setdefault(clause, (step, fid))
        for clause, (step, fid) in first.items():
            op = t["h"][step - 1]["op"] if step >= 1 else "init"
            sig = "C07|%s|%s|%s" % (clause, t["cls"] or "built-function", op)
            res.violation(sig, "program [%s]: after step %d function %d violates %s" % (key, step, fid, clause),
                          dict(kind="alg", h=t["h"], variant=t["variant"], cls=t["cls"],
                               kw=CLASSES.get(t["cls"], {}), flag=t["funs0"][0]["diff"] if t["cls"] else 0))
    return len(traces), len(nontriv)


def validate(res, traces, wd):
    out = []
    B = 8000
    for s in range(0, len(traces), B):
        chunk = traces[s:s + B]
        path = os.path.join(wd, "traces_%d.ndjson" % s)
        write_ndjson(path, chunk)
        r = tlc("OracleTrace", TRACE_CFG, wd, env=dict(TRACE_FILE=path))
        res.add_tlc("OracleTrace", r)
        verdicts = core_verdicts(r["out"], len(chunk))
        out += [(t, verdicts[i + 1]) for i, t in enumerate(chunk)]
        os.remove(path)
    return out


FN = {1: "f1(nondiff)", 2: "f2(diff)", 3: "f1+f2/2", 4: "f1-f1+f2", 5: "2*f2", 6: "f6(nondiff)", 7: "f1-f6",
      8: "f6/2+2*f2+0*f1", 9: "f1-f1"}
QN = {0: "", 1: "x1", 2: "x2", 3: "x1-x2", 4: "0*x2", 5: "x1-x1", 6: "(1+2^-20)*x1"}


def cstr(c):
    return "%s.%s(%s)" % (FN[c["f"]], c["op"], QN[c["q"]])


def judge(res, verdicts):
    nontriv = set()
    for t, clauses in verdicts:
        key = " ; ".join(cstr(c) for c in t["h"])
        nontriv.add(key)
        first = {}
        for c in sorted(clauses):
            step, clause, fid = c
            if clause == "drift":
                res.drift.append(dict(program=key, step=step))
                continue
            first.setdefault(clause, (step, fid))
        for clause, (step, fid) in first.items():
            zero = fid == 9
            call = t["h"][step - 1] if step >= 1 else dict(op="init", f=fid, q=0)
            sig = "C07|%s|%s|%s" % (clause, "all-zero-combination" if zero else FN.get(fid, "?"), call["op"])
            res.violation(sig, "call sequence [%s]: after call %d the tables of %s violate %s" % (
                key, step, FN.get(fid, "?"), clause), dict(kind="program", h=t["h"], zero=bool(t.get("zero"))))
    res.distinct_nontrivial = len(nontriv)


def run(tier):
    res = Result(PID, tier)
    wd = workdir(PID)
    res.rule = ("call sequences = behaviours of spec/Oracle.tla over 8 (9) functions (3 leaves, sums with zero / "
                "cancelling / fractional weights) x {oracle, value, prox} x 5 query points (incl. equal decompositions "
                "built as new objects and an explicit zero coefficient) + stationary_point / fixed_point: all sequences "
                "of length 2, sampled sequences of length 4; distinct = distinct call sequences; every one is non-trivial "
                "(at least one call on a real Function); second machine spec/OracleAlg.tla: functions BUILT by the behaviour with +, -, unary -, scalar *, / (all programs with one built function and one call, sampled longer ones) and every shipped class declared with an explicit reuse_gradient value")
    progs = programs(res, tier, wd)
    traces = pool_map("drv_c07", "run", progs)
    for t, p in zip(traces, progs):
        t["zero"] = p["zero"]
    res.traces = res.evaluations = len(traces)
    judge(res, validate(res, traces, wd))
    n2, k2 = algebra_machine(res, tier, wd)
    res.traces += n2
    res.evaluations += n2
    res.distinct_nontrivial += k2
    res.samples = [dict(calls=[cstr(c) for c in t["h"]], leaf_points_after=t["steps"][-1]["np"] if t["steps"] else 2)
                   for t in traces[:: max(1, len(traces) // 5)][:5]]
    res.assumptions = ["function values of the modelled functions are linear in leaf expressions",
                       "weights are dyadic so PEPit's float arithmetic on them is exact"]
    res.trusted = ["TLC 1.8", "harness/drv_c07.py projection of list_of_points / list_of_stationary_points / decomposition_dict"]
    rmwork(PID)
    return finish(res)


def replay(path):
    rp = json.load(open(path))["replay"]
    res = Result(PID, "quick")
    wd = workdir(PID + "-replay")
    if rp.get("kind") == "alg":
        it = dict(h=rp["h"], variant=rp.get("variant", 0))
        if rp.get("cls"):
            it.update(cls=rp["cls"], kw=rp.get("kw", {}), flag=rp.get("flag", 0))
        traces = pool_map("drv_c07b", "run", [it], procs=1)
        res.traces = 1
        r = tlc("OracleAlg", alg_cfg(1, 1, emit=False), wd)
        res.add_tlc("OracleAlg", r)
        p_ = os.path.join(wd, "r.ndjson")
        write_ndjson(p_, traces)
        r = tlc("OracleAlgTrace", ALG_TRACE_CFG, wd, env=dict(TRACE_FILE=p_))
        for c in core_verdicts(r["out"], 1)[1]:
            if c[1] != "drift":
                res.violation("C07|%s|%s|replay" % (c[1], rp.get("cls") or "built-function"), "replayed: %s" % (c,), rp)
        res.samples = [rp]
        rmwork(PID + "-replay")
        return finish(res)
    traces = pool_map("drv_c07", "run", [dict(h=rp["h"], zero=rp.get("zero", False))], procs=1)
    traces[0]["zero"] = rp.get("zero", False)
    res.traces = 1
    r = tlc("Oracle", _cfg(1, False, emit=False), wd)
    res.add_tlc("Oracle(depth 1)", r)
    judge(res, validate(res, traces, wd))
    res.samples = [rp]
    rmwork(PID + "-replay")
    return finish(res)
