"""C05 - The problem handed to the solver is exactly the declared model."""
import solvecheck as sc

PID = "C05"
RULE = ("models = behaviours of spec/Pep.tla built with the real DSL; at every solve TLC (SolveTrace.tla) compares the bag "
        "of items sent to the wrapper with the declared sources (metrics, problem constraints and LMIs, class constraints "
        "and class LMIs of leaf functions, function-level constraints of leaf and composite functions, partitions), and "
        "checks row by row that the natively probed cvxpy constraint list ([G>>0], one row per scalar with its sense, "
        "1 PSD + n*n entry equalities per LMI, the heuristic's extra row) denotes the same affine functions as the "
        "symbolic expressions, and that the objective is tau, maximised; non-trivial = native problem probed")


def select(t, c):
    step, prop, name, detail = c
    if prop == "ALL":
        return None
    if prop != "C05":
        return None
    o = t["solves"][step - 1]
    sig = "C05|%s|%s" % (name, o["opts"]["wrapper"])
    return sig, "solve %d %s: %s (detail %s)" % (step, sc.solvestr(o), name, detail)


def run(tier):
    return sc.run_family(PID, tier, RULE, select, cap=dict(quick=600, thorough=5000))


def replay(path):
    return sc.replay_family(PID, path, select)
