"""C05 - The problem handed to the solver is exactly the declared model."""
import solvecheck as sc

PID = "C05"
RULE = ("models = behaviours of spec/Pep.tla built with the real DSL; at every solve TLC (SolveTrace.tla) compares the bag "
        "of items sent to the wrapper with the declared sources (metrics, problem constraints and LMIs, class constraints "
        "and class LMIs of leaf functions, function-level constraints of leaf and composite functions, partitions), and "
        "checks row by row that the natively probed cvxpy constraint list ([G>>0], one row per scalar with its sense, "
        "1 PSD + n*n entry equalities per LMI, the heuristic's extra row) denotes the same affine functions as the "
        "symbolic expressions, and that the objective is tau, maximised; non-trivial = native problem probed")


def select(t, c):
    step, prop, name, detail = c
    if prop == "ALL":
        return None
    if prop == "C11" and name.startswith("task-"):      # the sparse (MOSEK) encoding of the same items, on the stand-in
        o = t["solves"][step - 1]
        return "C05|mosek:%s" % name.split(":")[0], "solve %d %s: %s (detail %s)" % (step, sc.solvestr(o), name, detail)
    if prop != "C05":
        return None
    o = t["solves"][step - 1]
    sig = "C05|%s|%s" % (name, o["opts"]["wrapper"])
    return sig, "solve %d %s: %s (detail %s)" % (step, sc.solvestr(o), name, detail)


def sparse_twin(p):
    """every third single-solve program is also formulated through the real MosekWrapper on the stand-in mosek module:
    its recorded Task rows must denote the same items (sparse lower-triangular encoding)"""
    sparse_twin.n = getattr(sparse_twin, "n", 0) + 1
    if len(p["solves"]) == 1 and p["solves"][0]["edit"] == "none" and sparse_twin.n % 3 == 0:
        o = dict(p["solves"][0])
        return dict(prog=p["prog"], solves=[dict(o, wrapper="cvxpy"), dict(o, wrapper="mosek", edit="twin")])
    return p


def run(tier):
    import os
    from core import VERIF
    return sc.run_family(PID, tier, RULE, select, cap=dict(quick=600, thorough=2500), transform=sparse_twin,
                         extra_paths=[os.path.join(VERIF, "harness", "fake")])


def replay(path):
    import os
    from core import VERIF
    return sc.replay_family(PID, path, select, extra_paths=[os.path.join(VERIF, "harness", "fake")])
