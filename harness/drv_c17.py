"""C17 driver.
run(item)        replay a declaration history under a naming variant, set_class_constraints(), project the tables
                 (structure only, no solve).
run_solved(item) build the small model of the class (drv_c04.build) under a naming variant, solve it with the real
                 library, project tables_of_constraints, the class constraints with their multipliers, and what
                 get_class_constraints_duals() returns.
"""
import warnings
import classes_common as cc
import drv_c04


def run(item):
    warnings.simplefilter("ignore")
    import io, contextlib
    cls, P, h, names = item["cls"], item["P"], item["h"], item["names"]
    with contextlib.redirect_stdout(io.StringIO()):      # the classes print advice for edge parameters (mu = 0, ...)
        pep, f, part, exc = cc.replay(cls, P, h, names=names)
        if not exc:
            try:
                f.set_class_constraints()
            except Exception as e:      # observation
                exc = "%s@set_class_constraints" % type(e).__name__
    out = cc.project(cls, P, h, f, part, exc, names=names)
    out["kind"] = "tables"
    return out


def run_solved(item):
    warnings.simplefilter("ignore")
    cls, P, names = item["cls"], item["P"], item["names"]
    import io, contextlib
    with contextlib.redirect_stdout(io.StringIO()):
        pep, f, part = drv_c04.build(cls, P, item["decls"], item["order"], names=names)
    st, val = drv_c04.solve(pep)
    if item.get("resolve") and st == "ok":
        try:
            f.get_class_constraints_duals()          # the user reads the tables after the first solve
        except Exception:
            pass
        pep.list_of_performance_metrics[0] = 2 * pep.list_of_performance_metrics[0]      # edit without any new sample
        st, val = drv_c04.solve(pep)
    h = [dict(e=tok, k=0) for tok in (item["decls"][i - 1] for i in item["order"])]
    if st != "ok":
        return dict(kind="tables", cls=cls, P=P, h=h, hs="", names=names, solved=1, status=st, skip=1)
    out = cc.project(cls, P, h, f, part, "", solved=True, names=names)
    out["kind"] = "tables"
    out["status"] = st
    out["value"] = val
    out["skip"] = 0
    out["resolve"] = 1 if item.get("resolve") else 0
    return out
