"""Shared by the C04 and C17 drivers: replay a declaration history of spec/ClassHist.tla on a real class and project
what the class generated (samples, class constraints, class LMIs, tables) to integers and strings.

Runs in driver worker processes (PEPit imported from the working tree).  Parameters are the DECLARED ones (input of
the program, taken from ClassHist!ParamPoints); nothing here looks at the bodies of add_class_constraints.
"""
from fractions import Fraction
import math
import proj

FUNCTIONS = ["ConvexFunction", "StronglyConvexFunction", "SmoothFunction", "SmoothConvexFunction",
             "SmoothStronglyConvexFunction", "ConvexLipschitzFunction", "SmoothConvexLipschitzFunction",
             "ConvexQGFunction", "RsiEbFunction", "ConvexIndicatorFunction", "ConvexSupportFunction",
             "SmoothStronglyConvexQuadraticFunction", "BlockSmoothConvexFunction"]
OPERATORS = ["CocoerciveOperator", "CocoerciveStronglyMonotoneOperator", "LinearOperator", "LipschitzOperator",
             "LipschitzStronglyMonotoneOperator", "MonotoneOperator", "NegativelyComonotoneOperator",
             "NonexpansiveOperator", "SkewSymmetricLinearOperator", "StronglyMonotoneOperator",
             "SymmetricLinearOperator"]
ALL = FUNCTIONS + OPERATORS

# declared parameter names, in the order of ClassHist!ParamPoints
PARAMS = {
    "ConvexFunction": [], "MonotoneOperator": [], "NonexpansiveOperator": [],
    "StronglyConvexFunction": ["mu"], "StronglyMonotoneOperator": ["mu"],
    "SmoothFunction": ["L"], "SmoothConvexFunction": ["L"], "ConvexQGFunction": ["L"], "LinearOperator": ["L"],
    "LipschitzOperator": ["L"], "SkewSymmetricLinearOperator": ["L"], "ConvexLipschitzFunction": ["M"],
    "SmoothStronglyConvexFunction": ["mu", "L"], "RsiEbFunction": ["mu", "L"],
    "SmoothStronglyConvexQuadraticFunction": ["mu", "L"], "LipschitzStronglyMonotoneOperator": ["mu", "L"],
    "SymmetricLinearOperator": ["mu", "L"], "SmoothConvexLipschitzFunction": ["L", "M"],
    "ConvexIndicatorFunction": ["D"], "ConvexSupportFunction": ["M"],
    "CocoerciveOperator": ["beta"], "NegativelyComonotoneOperator": ["rho"],
    "CocoerciveStronglyMonotoneOperator": ["mu", "beta"],
}


def fl(p):
    n, d = p
    if d == 0:
        return math.inf
    return n / d if d != 1 else float(n)


def get_class(name):
    import PEPit.functions, PEPit.operators
    return getattr(PEPit.functions, name, None) or getattr(PEPit.operators, name)


def declare(pep, cls, P, fname=None):
    """declare the function of class `cls` with the declared parameters P (list of [n, d]); returns (f, partition)"""
    from PEPit import Point
    kw = {}
    part = None
    if cls == "BlockSmoothConvexFunction":
        part = pep.declare_block_partition(d=len(P))
        kw = dict(partition=part, L=[fl(p) for p in P])
    elif cls == "NonexpansiveOperator":
        kw = {}
    else:
        kw = {k: fl(p) for k, p in zip(PARAMS[cls], P)}
    if fname:
        kw["name"] = fname
    f = pep.declare_function(get_class(cls), **kw)
    if cls == "NonexpansiveOperator" and P and P[0][0] != 0:
        f.v = Point()
    return f, part


def pname(names, k):
    """name of the k-th created point of the program under the naming variant (None = unnamed)"""
    if names == "all":
        return "p%d" % k
    if names == "mixed":
        return "q" if k % 2 == 0 else None          # the same name for several points (the running iterate "x")
    return None


def late_name(f, names, n):
    """partly named programs: every other one names its function AFTER declaring it (set_name), the others keep
    the default identifier Function_<counter>"""
    if names == "mixed" and n % 2 == 1:
        f.set_name("late")


def replay(cls, P, h, names="none"):
    """-> (pep, f, partition, exc).  names: "none" | "all" | "mixed" (mixed also declares another function first, so
    that the default function id is not Function_0).  An exception raised by a PEPit call is an observation."""
    from PEPit import PEP, Point
    from PEPit.functions import ConvexFunction
    pep = PEP()
    if names == "mixed":
        pep.declare_function(ConvexFunction)
    f, part = declare(pep, cls, P, fname="fn" if names == "all" else None)
    late_name(f, names, len(h))
    exc = ""
    k = 0
    try:
        for ev in h:
            e = ev["e"]
            nm = pname(names, k)
            k += 1
            if e == "O":
                x = Point()
                if nm:
                    x.set_name(nm)
                f.oracle(x)
            elif e == "S":
                f.stationary_point(name=nm)
            elif e == "Q":
                (f / 2).stationary_point(name=nm)
            elif e == "X":
                f.fixed_point(name=nm)
            elif e == "R":
                f.oracle(f.list_of_points[ev["k"] - 1][0])
            elif e == "T":
                u = Point()
                if nm:
                    u.set_name(nm)
                f.T.oracle(u)
            elif e == "U":
                f.T.oracle(f.list_of_points[-1][1])
            else:
                raise KeyError(e)
    except KeyError:
        raise
    except Exception as ex:       # the outcome of a PEPit call IS the observation
        exc = "%s@%s" % (type(ex).__name__, e)
    return pep, f, part, exc


def split_name(name):
    """'IC_f_cond(a, b)' -> (head 'IC_f_cond', [a, b]); no interpretation of the head here"""
    if not isinstance(name, str):
        return "", []
    i = name.find("(")
    if i < 0 or not name.endswith(")"):
        return name, []
    return name[:i], name[i + 1:-1].split(", ")


def project(cls, P, h, f, part, exc, solved=False, names="none"):
    """everything TLC needs; ints and strings only"""
    from PEPit import Point, Expression, Constraint
    import pandas as pd
    import numpy as np
    # block projections are part of a sample of a block class (recorded through the partition's own accessor)
    blocks = []
    if part is not None:
        for (x, g, v) in f.list_of_points:
            blocks.append([part.get_block(g, k) for k in range(part.get_nb_blocks())])
    NP, NE = Point.counter, Expression.counter
    ex = False

    def smp(tr, i, lst):
        x, g, v = tr
        return dict(x=proj.jpt(x, NP, ex), g=proj.jpt(g, NP, ex), f=proj.jex(v, NP, NE, ex),
                    stat=1 if any(t is tr for t in lst) else 0,
                    gb=[proj.jpt(b, NP, ex) for b in blocks[i]] if blocks else [],
                    name=x.get_name() or "")

    out = dict(cls=cls, P=P, h=h, hs=hstr(h), np=NP, ne=NE, exc=exc, names=names, solved=1 if solved else 0)
    out["fname"] = f.get_name() or ""
    out["fcounter"] = f.counter if isinstance(f.counter, int) else -1
    out["samples"] = [smp(tr, i, f.list_of_stationary_points) for i, tr in enumerate(f.list_of_points)]
    T = getattr(f, "T", None)
    blocks = []
    out["tsamples"] = [smp(tr, i, T.list_of_stationary_points) for i, tr in enumerate(T.list_of_points)] if T is not None else []
    v = getattr(f, "v", None)
    out["v"] = proj.jpt(v, NP, ex) if isinstance(v, Point) else proj.jv([Fraction(0)] * NP)
    cons = list(f.list_of_class_constraints)
    xcons = []                      # constraint objects sitting in a table but not in list_of_class_constraints

    def where(c):
        for key, tab in f.tables_of_constraints.items():
            rows = tab.values.tolist() if isinstance(tab, pd.DataFrame) else (tab if isinstance(tab, list) else [])
            seen = []
            for r in rows:
                if any(r is s for s in seen):
                    continue
                seen.append(r)
                if isinstance(r, list) and any(el is c for el in r):
                    return str(key)
        return ""

    def jc(c):
        head, args = split_name(c.get_name())
        d = dict(e=proj.jex(c.expression, NP, NE, ex), sense=proj.sense(c), head=head, args=args,
                 named=1 if isinstance(c.get_name(), str) else 0, tab=where(c), dual=0, hasdual=0)
        if solved:
            try:
                d["dual"] = proj.fix(c.eval_dual())
                d["hasdual"] = 1
            except Exception as e2:
                d["hasdual"] = 0
        return d

    out["cons"] = [jc(c) for c in cons]
    out["lmis"] = [dict(n=int(m.shape[0]), e=[[proj.jex(m[i, j], NP, NE, ex) for j in range(m.shape[1])]
                                               for i in range(m.shape[0])]) for m in f.list_of_class_psd]

    def entry(el):
        if isinstance(el, Constraint):
            for k, c in enumerate(cons):
                if c is el:
                    return k + 1
            for k, c in enumerate(xcons):
                if c is el:
                    return -(k + 1)
            xcons.append(el)
            return -len(xcons)
        if isinstance(el, (int, float, np.integer, np.floating)) and not isinstance(el, bool) and el == 0:
            return 0
        return -1000            # something that is neither a constraint nor 0

    tables = []
    for key, tab in f.tables_of_constraints.items():
        if isinstance(tab, pd.DataFrame):
            rows = tab.values.tolist()
            t = dict(name=str(key), type="DataFrame", rowlab=[str(s) for s in tab.index],
                     collab=[str(s) for s in tab.columns], colname=str(tab.columns.name), alias=0)
        elif isinstance(tab, list):
            rows = [r if isinstance(r, list) else [r] for r in tab]
            t = dict(name=str(key), type="list", rowlab=[], collab=[], colname="",
                     alias=1 if any(tab[i] is tab[j] for i in range(len(tab)) for j in range(i)) else 0)
        else:
            rows = []
            t = dict(name=str(key), type=type(tab).__name__, rowlab=[], collab=[], colname="", alias=0)
        t["nrows"] = len(rows)
        t["rowlen"] = [len(r) for r in rows]
        t["ent"] = [[entry(el) for el in r] for r in rows]
        tables.append(t)
    out["tables"] = tables
    out["xcons"] = [jc(c) for c in xcons]
    # the dual tables as returned by the public accessor
    duals, dexc = [], ""
    if solved:
        try:
            dt = f.get_class_constraints_duals()
            for key, tab in dt.items():
                if isinstance(tab, pd.DataFrame):
                    duals.append(dict(name=str(key), type="DataFrame", rowlab=[str(s) for s in tab.index],
                                      collab=[str(s) for s in tab.columns], colname=str(tab.columns.name),
                                      val=[[proj.fix(x) for x in r] for r in tab.values.tolist()]))
                else:
                    duals.append(dict(name=str(key), type=type(tab).__name__, rowlab=[], collab=[], colname="", val=[]))
        except proj.Inexact:
            raise
        except Exception as e3:
            dexc = type(e3).__name__
    out["duals"] = duals
    out["dexc"] = dexc
    return out


def hstr(h):
    return "".join(ev["e"] + (str(ev["k"]) if ev["e"] == "R" else "") for ev in h)
