"""C12 driver: run a history of model fragments, then model B, in ONE process; the reference is B alone in a fresh
interpreter (pool with maxtasksperchild=1).  Observed: registry snapshot right after PEP(), bit-exact hash of the
conic data handed to the solver, hash of the symbolic rows sent, returned value."""
import io, contextlib, hashlib, warnings, json
import numpy as np
import pepsolve

KEEP = []     # objects of earlier models that stay referenced (fragment 8)
RELEASE = []  # earlier models whose last reference is dropped / that are garbage collected WHILE model B is being built


def snapshot():
    """every non-callable, non-dunder class attribute of the seven classes (found by reflection, so a newly introduced
    global is seen too) + the state of the module-level null objects"""
    import PEPit
    from PEPit.point import Point, null_point
    from PEPit.expression import Expression, null_expression
    from PEPit.function import Function
    from PEPit.constraint import Constraint
    from PEPit.psd_matrix import PSDMatrix
    from PEPit.block_partition import BlockPartition
    from PEPit.pep import PEP
    out = []
    for cls in (Point, Expression, Function, Constraint, PSDMatrix, BlockPartition, PEP):
        for name in sorted(vars(cls)):
            if name.startswith("__") or name.startswith("_verif"):       # (_verif*: markers of this harness' own wrappers)
                continue
            v = vars(cls)[name]
            if callable(v) or isinstance(v, (staticmethod, classmethod, property)):
                continue
            if isinstance(v, (list, tuple, dict, set)):
                val = "%s:len=%d" % (type(v).__name__, len(v))
            else:
                val = repr(v)
            out.append(["%s.%s" % (cls.__name__, name), val])
    out.append(["null_point", "value=%r;keys=%d" % (null_point._value, len(null_point.decomposition_dict))])
    out.append(["null_expression", "value=%r;keys=%d" % (null_expression._value, len(null_expression.decomposition_dict))])
    return out


MODELS = {
    1: dict(cls=1, steps="gg", comp=1, ucons=["pi"], lmis=[], metrics=1, part=0),
    2: dict(cls=4, steps="g", comp=0, ucons=[], lmis=["S2"], metrics=1, part=0),
    3: dict(cls=9, steps="g", comp=0, ucons=["pe"], lmis=[], metrics=2, part=0),
    4: dict(cls=8, steps="g", comp=0, ucons=[], lmis=[], metrics=1, part=0),
    5: dict(cls=2, steps="g", comp=0, ucons=[], lmis=[], metrics=1, part=1),
    6: dict(cls=5, steps="gg", comp=0, ucons=["fi"], lmis=["D2", "L1"], metrics=1, part=0),
    7: dict(cls=1, steps="gg", comp=0, ucons=[], lmis=[], metrics=1, part=0, _heur="trace"),
    8: dict(cls=2, steps="g", comp=0, ucons=["pi"], lmis=["S2"], metrics=2, part=0, _heur="logdet1"),
    9: dict(_three=1),       # three leaf functions of different classes in one model
    10: dict(_c16="unbounded1"),     # a model without finite value
    11: dict(_c16="infeasible1"),    # an infeasible model
    12: dict(cls=1, steps="gg", comp=0, ucons=[], lmis=["S2"], metrics=1, part=0, _heur="logdet2"),   # two heuristic iterations
}


def fragment(k):
    from PEPit import PEP, Point, Expression, PSDMatrix
    buf = io.StringIO()
    with contextlib.redirect_stdout(buf):
        if k == 1:
            b = pepsolve.build(dict(cls=2, steps="g", part=1)); b.pep.solve(verbose=0, solver="CLARABEL")
        elif k == 2:
            b = pepsolve.build(dict(cls=4, steps="gg", lmis=["S2"])); b.pep.solve(verbose=0, solver="CLARABEL")
        elif k == 3:
            b = pepsolve.build(dict(cls=1, steps="g", comp=1, ucons=["ci"])); b.pep.solve(verbose=0, solver="CLARABEL")
        elif k == 4:
            b = pepsolve.build(dict(cls=8, steps="g", lmis=["N2"])); b.pep.solve(verbose=0, solver="CLARABEL")
        elif k == 5:      # a model that raises during construction
            p = PEP(); x = Point(); e = Expression()
            try:
                x + 1
            except Exception:
                pass
            try:
                p.add_constraint(e)
            except Exception:
                pass
        elif k == 6:      # built, abandoned
            pepsolve.build(dict(cls=3, steps="gg", comp=1, lmis=["S3"], metrics=2))
        elif k == 7:      # unbounded: solve returns None
            import drv_c16
            p, held = drv_c16.build("unbounded1"); p.solve(verbose=0, solver="CLARABEL")
        elif k == 8:      # solved, objects stay referenced and get evaluated
            b = pepsolve.build(dict(cls=1, steps="g")); b.pep.solve(verbose=0, solver="CLARABEL")
            b.held["d"].eval(); KEEP.append(b)
        elif k == 9:      # verbose solve
            b = pepsolve.build(dict(cls=2, steps="g", metrics=2)); b.pep.solve(verbose=1, solver="CLARABEL")
        elif k == 10:     # heuristic
            b = pepsolve.build(dict(cls=1, steps="g", lmis=["S2"])); b.pep.solve(verbose=0, solver="CLARABEL", dimension_reduction_heuristic="trace")
        elif k == 11:     # an LMI object created and not added, names
            b = pepsolve.build(dict(cls=10, steps="g", lmis=["L1"], unsent_lmi=1))
            b.held["x"].set_name("x"); b.pep.solve(verbose=0, solver="CLARABEL")
        elif k == 12:     # infeasible solve after a good one
            b = pepsolve.build(dict(cls=2, steps="g")); b.pep.solve(verbose=0, solver="CLARABEL")
            b.pep.add_constraint((b.held["x"] - b.held["x0"]) ** 2 <= -1); b.pep.solve(verbose=0, solver="CLARABEL")
        elif k == 14:     # a solve with its own solver options, then every held object and the stationary triplet evaluated
            from PEPit.functions import SmoothStronglyConvexFunction
            b = pepsolve.build(dict(cls=1, steps="gg", metrics=2))
            b.pep.solve(verbose=0, solver="CLARABEL", max_iter=60)
            for o in b.held.values():
                try:
                    o.eval()
                except Exception:
                    pass
            for (x, g, v) in b.f.list_of_points:
                x.eval(); g.eval(); v.eval()
            b.pep.solve(verbose=0, solver="CLARABEL", max_iter=2)      # an earlier user stops the solver after 2 iterations
        elif k == 13:     # DSL objects built WITHOUT any PEP (bare classes), e.g. a helper module building functions first
            from PEPit.functions import SmoothConvexFunction
            x = Point(); y = Point(); e = Expression()
            f = SmoothConvexFunction(L=1.)
            f.oracle(x); g = f.gradient(y)
            c = ((x - y) ** 2 <= e)
            PSDMatrix([[e, 1], [1, e]])
        elif k == 15:     # solved; the user's last reference to it is dropped later, while the next model is being built
            b = pepsolve.build(dict(cls=1, steps="g", ucons=["pi"])); b.pep.solve(verbose=0, solver="CLARABEL")
            RELEASE.append(b)
        elif k == 16:     # abandoned inside a reference cycle: only the cycle collector frees it, at some later moment
            b = pepsolve.build(dict(cls=2, steps="gg", lmis=["S2"]))
            b.pep._verif_cycle = b; b.me = b.pep
        else:
            raise KeyError(k)


def c16_model(scn, on_pep):
    import drv_c16
    b = pepsolve.Built()
    b.pep, b.held = drv_c16.build(scn)
    on_pep()                  # (registries after the construction: the same moment in the history run and in the reference)
    return b


def run_b(bid, verbose):
    snap = []
    prog = dict(MODELS[bid])
    heur = prog.pop("_heur", None)
    kw = dict(dimension_reduction_heuristic=heur, eig_regularization=1e-1) if heur else {}
    prog["_on_pep"] = lambda: snap.extend(snapshot())
    buf = io.StringIO()
    out = "num"
    with contextlib.redirect_stdout(buf):
        if prog.get("_three"):
            b = three_functions(prog["_on_pep"])
        elif prog.get("_c16"):
            b = c16_model(prog["_c16"], prog["_on_pep"])
        else:
            b = pepsolve.build(prog)
        # earlier models die now: the last reference is dropped, the cycle collector runs (model B is built, not yet solved)
        import gc
        del RELEASE[:]
        gc.collect()
        import os, sys
        saved = None
        if verbose >= 2:                  # the solver's own (native) output goes to file descriptor 1 directly
            sys.stdout.flush(); sys.stderr.flush()
            saved = (os.dup(1), os.dup(2))
            devnull = os.open(os.devnull, os.O_WRONLY)
            os.dup2(devnull, 1); os.dup2(devnull, 2)
            os.close(devnull)
        try:
            ret = b.pep.solve(verbose=verbose, solver="CLARABEL", **kw)
            if ret is None:
                out = "none"
        except Exception as e:
            ret, out = None, "raises:" + type(e).__name__
        finally:
            if saved is not None:
                sys.stdout.flush(); sys.stderr.flush()
                os.dup2(saved[0], 1); os.dup2(saved[1], 2)
                os.close(saved[0]); os.close(saved[1])
    h = hashlib.sha256()
    rows = hashlib.sha256()
    if out != "num" and b.pep.wrapper is None:
        return dict(snap=snap, hash="-", rows="-", val="-", out=out, inst="-")
    w = b.pep.wrapper
    try:
        import cvxpy as cp
        prob = cp.Problem(cp.Maximize(w.objective), list(w._list_of_solver_constraints))
        data, _, _ = prob.get_problem_data("CLARABEL")
        for key in sorted(data):
            v = data[key]
            if hasattr(v, "tocsc"):
                v = v.tocsc(); v.sort_indices()
                for arr in (v.data, v.indices, v.indptr):
                    h.update(np.ascontiguousarray(arr).tobytes())
                h.update(repr(v.shape).encode())
            elif isinstance(v, np.ndarray):
                h.update(np.ascontiguousarray(v).tobytes())
            elif key in ("dims",):
                h.update(repr(v).encode())
    except Exception as e:
        h.update(("ERR:" + type(e).__name__).encode())
    from PEPit.point import Point
    from PEPit.expression import Expression
    NP, NE = Point.counter, Expression.counter
    for o in w._list_of_constraints_sent_to_solver:
        if hasattr(o, "expression"):
            rows.update(json.dumps([o.equality_or_inequality, sorted_dict(o.expression)]).encode())
        else:
            n = o.shape[0]
            rows.update(json.dumps(["psd", [sorted_dict(o[i, j]) for i in range(n) for j in range(n)]]).encode())
    # the primal instance kept by the problem object (after a heuristic: the one of the last internal solve)
    inst = hashlib.sha256()
    for name in ("G_value", "F_value"):
        v = getattr(b.pep, name, None)
        inst.update(b"-" if v is None else np.ascontiguousarray(np.asarray(v, dtype=float)).tobytes())
    return dict(snap=snap, hash=h.hexdigest()[:24], rows=rows.hexdigest()[:24], val=repr(ret), out=out,
                inst=inst.hexdigest()[:24])


def three_functions(on_pep):
    """F = f1 + f2 + f3 with three leaf functions of different classes; two proximal-gradient steps"""
    from PEPit import PEP
    from PEPit.functions import SmoothStronglyConvexFunction, ConvexFunction, ConvexLipschitzFunction
    from PEPit.primitive_steps import proximal_step
    b = pepsolve.Built()
    pep = PEP()
    on_pep()
    f1 = pep.declare_function(SmoothStronglyConvexFunction, mu=.25, L=1.)
    f2 = pep.declare_function(ConvexFunction)
    f3 = pep.declare_function(ConvexLipschitzFunction, M=1.)
    F = f1 + f2 + f3
    xs = F.stationary_point()
    x0 = pep.set_initial_point()
    pep.set_initial_condition((x0 - xs) ** 2 <= 1)
    x = x0
    for _ in range(2):
        x = x - 0.5 * f1.gradient(x) - 0.5 * f3.gradient(x)
        x, _, _ = proximal_step(x, f2, 0.5)
    pep.set_performance_metric((x - xs) ** 2)
    b.pep, b.held, b.f = pep, dict(x=x, x0=x0, xs=xs), f1
    return b


def sorted_dict(e):
    """exact float bits of every coefficient, keys by leaf counters, in the stored order"""
    from PEPit.expression import Expression
    out = []
    for k, v in e.decomposition_dict.items():
        if isinstance(k, Expression):
            key = "e%d" % k.counter
        elif isinstance(k, tuple):
            key = "p%d,%d" % (k[0].counter, k[1].counter)
        else:
            key = "1"
        out.append([key, float(v).hex()])
    return out


def run(item):
    warnings.simplefilter("ignore")
    for k in item["hist"]:
        try:
            fragment(k)
        except Exception:
            pass          # a fragment that fails (solver error, exception) is just another history
    o = run_b(item["b"], item.get("verbose", 0))
    o.update(hist=item["hist"], b=item["b"], verbose=item.get("verbose", 0))
    return o
