"""C10 driver: run a shipped worked example (and its "uselessly complexified" variants) on the real code at one grid
point printed by spec/Rates.tla and record (pepit_tau, theoretical_tau) as fixed point (units 1e-6).

cvxpy back-end only (MOSEK is not installed here), solver CLARABEL.  When CLARABEL does not return 'optimal' the value
is recorded as inconclusive, never judged (an SCS fallback was tried and dropped: SCS reported 'optimal' with 0.345 for
douglas_rachford_splitting_contraction(mu=1/2, L=1, alpha=3, n=2) where CLARABEL and the closed form give 0.3164).
The example's own theoretical_tau is recorded whenever the example returns.
"""
import importlib, math, warnings
from fractions import Fraction
import proj

INT_PARAMS = ("n", "d")
INT_T = {"stochastic/randomized_coordinate_descent_smooth_convex"}
SLACK = {"CLARABEL": 20}          # solver tolerance in 1e-6 units (2e-5)

GROUP = {"adaptive": "adaptive_methods", "composite": "composite_convex_minimization",
         "continuous_time": "continuous_time_models", "fixed_point": "fixed_point_problems",
         "inexact_proximal": "inexact_proximal_methods", "low_dimensional": "low_dimensional_worst_cases_scenarios",
         "monotone": "monotone_inclusions_variational_inequalities", "nonconvex": "nonconvex_optimization",
         "potential": "potential_functions", "stochastic": "stochastic_and_randomized_convex_minimization",
         "tutorials": "tutorials", "unconstrained": "unconstrained_convex_minimization"}
FUNC = {"unconstrained/information_theoretic_exact_method": "wc_information_theoretic"}
NO_SOLVER_ARG = {"unconstrained/gradient_descent_quadratics"}


def _plain(p, int_t=False):
    out = {}
    for k, v in p.items():
        if k.startswith("_"):
            continue
        out[k] = int(v) if (k in INT_PARAMS or (int_t and k == "t")) else float(v)
    return out


def _app(p):
    n = int(p["n"])
    return dict(A0=float(p["A0"]), gammas=[float(p["gamma0"]) * (1 + t % 2) for t in range(n)], n=n)


def _flow(p):
    return dict(mu=float(p["mu"]), psd=bool(int(p["psd"])))


ADAPT = {"unconstrained/accelerated_proximal_point": _app,
         "continuous_time/accelerated_gradient_flow_strongly_convex": _flow}

T = "tests.additional_complexified_examples_tests."
# plain example -> [(label, module, function, kwargs(p))]
VARIANTS = {
    "composite/proximal_gradient": [
        ("split-functions", T + "proximal_gradient", "wc_proximal_gradient_complexified",
         lambda p: dict(L=p["L"], mu=p["mu"], gamma=p["gamma"], n=p["n"])),
        ("useless-partition", T + "proximal_gradient_useless_partition", "wc_proximal_gradient_complexified2",
         lambda p: dict(L=p["L"], mu=p["mu"], gamma=p["gamma"], n=p["n"]))],
    "unconstrained/proximal_point": [
        ("split-functions", T + "proximal_point", "wc_proximal_point_complexified", lambda p: dict(gamma=p["gamma"], n=p["n"])),
        ("useless-partition", T + "proximal_point_useless_partition", "wc_proximal_point_complexified2",
         lambda p: dict(gamma=p["gamma"], n=p["n"])),
        ("redundant-LMI", T + "proximal_point_LMI", "wc_proximal_point_complexified3", lambda p: dict(gamma=p["gamma"], n=p["n"]))],
    "unconstrained/gradient_exact_line_search": [
        ("split-functions+LMI", T + "gradient_exact_line_search", "wc_gradient_exact_line_search_complexified",
         lambda p: dict(L=p["L"], mu=p["mu"], n=p["n"]))],
    "unconstrained/inexact_gradient_exact_line_search": [
        ("LMI-1", T + "inexact_gradient_exact_line_search", "wc_inexact_gradient_exact_line_search_complexified",
         lambda p: dict(L=p["L"], mu=p["mu"], epsilon=p["epsilon"], n=p["n"])),
        ("LMI-2", T + "inexact_gradient_exact_line_search2", "wc_inexact_gradient_exact_line_search_complexified2",
         lambda p: dict(L=p["L"], mu=p["mu"], epsilon=p["epsilon"], n=p["n"])),
        ("LMI-3", T + "inexact_gradient_exact_line_search3", "wc_inexact_gradient_exact_line_search_complexified3",
         lambda p: dict(L=p["L"], mu=p["mu"], epsilon=p["epsilon"], n=p["n"]))],
    "stochastic/randomized_coordinate_descent_smooth_strongly_convex": [
        ("explicit-blocks", T + "randomized_coordinate_descent_smooth_strongly_convex",
         "wc_randomized_coordinate_descent_smooth_strongly_convex_complexified",
         lambda p: dict(L=p["L"], mu=p["mu"], gamma=p["gamma"], d=p["d"]))],
    "stochastic/randomized_coordinate_descent_smooth_convex": [
        ("explicit-blocks", T + "randomized_coordinate_descent_smooth_convex",
         "wc_randomized_coordinate_descent_smooth_convex_complexified",
         lambda p: dict(L=p["L"], gamma=p["gamma"], d=p["d"], n=p["t"]))],
    "unconstrained/gradient_descent": [
        ("useless-blocks", T + "gradient_descent_useless_blocks", "wc_gradient_descent_useless_blocks",
         lambda p: dict(L=p["L"], gamma=p["gamma"], n=p["n"])),
        ("one-block(gamma=1/L)", T + "gradient_descent_blocks", "wc_gradient_descent_blocks",
         lambda p: dict(L=[p["L"]], n=p["n"]) if abs(p["gamma"] * p["L"] - 1) < 1e-12 else None)],
}


def call(modname, fname, kwargs, solver, pass_solver):
    """returns (pair or None, cvxpy status or None, exception name, solved?)"""
    from PEPit import PEP
    mod = importlib.import_module(modname)
    cap, entered = [], []

    class RecPEP(PEP):
        def __init__(self, *a, **k):
            super().__init__(*a, **k)
            cap.append(self)

        def solve(self, *a, **k):
            entered.append(1)
            if not pass_solver:
                k.setdefault("wrapper", "cvxpy")
                k["solver"] = solver
            return super().solve(*a, **k)

    # the module's own global name for the class (`from PEPit import PEP`), or its alias of the package
    # (`import PEPit as PEPit; PEPit.PEP()`): only the example module's namespace is touched
    if hasattr(mod, "PEP"):
        attr, old, new = "PEP", mod.PEP, RecPEP
    else:
        import types
        real = mod.PEPit
        shim = types.SimpleNamespace(**{k: getattr(real, k) for k in dir(real) if not k.startswith("__")})
        shim.PEP = RecPEP
        attr, old, new = "PEPit", real, shim
    setattr(mod, attr, new)
    try:
        kw = dict(kwargs)
        kw["verbose"] = -1
        if pass_solver:
            kw.update(wrapper="cvxpy", solver=solver)
        try:
            out, exc = getattr(mod, fname)(**kw), ""
        except Exception as e:
            out, exc = None, type(e).__name__ + ": " + str(e)[:80]
    finally:
        setattr(mod, attr, old)
    st = None
    if cap and getattr(cap[-1], "wrapper", None) is not None:
        st = getattr(getattr(cap[-1].wrapper, "prob", None), "status", None)
    return out, st, exc, bool(entered)


def solve_once(modname, fname, kwargs, pass_solver):
    """-> dict(status, why, pepit, theo, hastheo, slack, solver)"""
    solver = "CLARABEL"
    out, st, exc, entered = call(modname, fname, kwargs, solver, pass_solver)
    r = dict(status="ok", why="", pepit=0, theo=0, hastheo=0, slack=SLACK[solver], solver=solver)
    if exc and not entered:
        # the example failed by itself, before any model was solved
        r.update(status="error", why=exc)
        return r
    try:
        if out is not None and out[1] is not None:
            r["theo"], r["hastheo"] = proj.fix(out[1]), 1
        if not exc and st in ("unbounded", "infeasible"):
            # a certificate, not a solver failure: the model has no finite worst case at a point where the
            # docstring states one
            r.update(status="unbounded", why="solver status " + st)
            return r
        if exc or out is None or out[0] is None or st != "optimal":
            r.update(status="inconclusive", why=exc or ("solver status " + str(st)))
            return r
        r["pepit"] = proj.fix(out[0])
    except proj.Inexact as e:
        r.update(status="out-of-range", why=str(e), hastheo=0, theo=0)
    return r


def kwstr(p):
    return ",".join("%s=%s" % (k, (str(v.numerator) if v.denominator == 1 else "%d/%d" % (v.numerator, v.denominator)))
                    for k, v in p.items() if not k.startswith("_"))


def run(item):
    """item: one grid record printed by Rates!EmitGrid (ex, flag, form, region, p=[{k,n,d}], theory)"""
    warnings.simplefilter("ignore")
    ex = item["ex"]
    p = {q["k"]: Fraction(q["n"], q["d"]) for q in item["p"]}
    grp, name = ex.split("/")
    modname = "PEPit.examples.%s.%s" % (GROUP[grp], name)
    fname = FUNC.get(ex, "wc_" + name)
    kwargs = ADAPT[ex](p) if ex in ADAPT else _plain(p, ex in INT_T)
    tr = dict(ex=ex, flag=item["flag"], form=item["form"], region=item["region"], p=item["p"], kws=kwstr(p), variants=[])
    tr.update(solve_once(modname, fname, kwargs, ex not in NO_SOLVER_ARG))
    if tr["status"] == "ok" and not item.get("novariants"):
        fl = _plain(p, ex in INT_T)
        for label, vmod, vfn, mk in VARIANTS.get(ex, []):
            kw = mk(fl)
            if kw is None:
                continue
            r = solve_once(vmod, vfn, kw, False)
            tr["variants"].append(dict(name=label, val=r["pepit"], status=r["status"], why=r["why"]))
    return tr
