"""C15 driver: replay get_block call sequences of spec/Partition.tla on a real BlockPartition."""
import proj
from fractions import Fraction

MAXP = 8


def sparse(v):
    return [[i + 1, x.numerator, x.denominator] for i, x in enumerate(v) if x != 0]


def run(item):
    from PEPit import PEP, Point
    pep = PEP()
    x1, x2 = Point(), Point()
    base = [x1, x2, x1 - x2 / 2, 2 * x2 + x1]
    part = pep.declare_block_partition(d=item["d"])
    ret, out, oid = [], [], []
    ids = {}
    for c in item["h"]:
        if c["p"] == 0:         # an intermediate solve-time generation of the partition constraints
            part.add_partition_constraints()
            out.append("ok"); ret.append([]); oid.append(0)
            continue
        try:
            b = part.get_block(base[c["p"] - 1], c["k"] - 1)
            out.append("ok")
            ret.append(sparse(proj.pvec(b, MAXP)))
            oid.append(ids.setdefault(id(b), len(ids) + 1))
        except Exception as e:
            out.append("raises:" + type(e).__name__)
            ret.append([])
            oid.append(0)
    part.add_partition_constraints()
    if Point.counter > MAXP:
        raise RuntimeError("leaf budget")
    blocks = []
    for p in base:
        bl = None
        for key, val in part.blocks_dict.items():
            if key is p:
                bl = val
        blocks.append([sparse(proj.pvec(b, MAXP)) for b in bl] if bl is not None else [])
    cons = []
    idx = proj.pair_index(MAXP)
    for c in part.list_of_constraints:
        F, G, cc = proj.evec(c.expression, MAXP, 0)
        cons.append(dict(sense=proj.sense(c), e=dict(G=sparse(G), c=[cc.numerator, cc.denominator])))
    return dict(d=item["d"], h=item["h"], out=out, ret=ret, oid=oid, blocks=blocks, cons=cons,
                base=[sparse(proj.pvec(p, MAXP)) for p in base], np=Point.counter)
