"""C15 driver: replay get_block call sequences of spec/Partition.tla on a real BlockPartition."""
import proj
from fractions import Fraction

MAXP = 10


def sparse(v):
    return [[i + 1, x.numerator, x.denominator] for i, x in enumerate(v) if x != 0]


def run(item):
    from PEPit import PEP, Point
    import io, contextlib
    pep = PEP()
    x1, x2 = pep.set_initial_point(), pep.set_initial_point()
    base = [x1, x2, x1 - x2 / 2, 2 * x2 + x1]
    pep.add_constraint(x1 ** 2 <= 1)
    pep.add_constraint(x2 ** 2 <= 1)
    pep.set_performance_metric((x1 - x2) ** 2)
    if item.get("ctor", 1) == 2:
        from PEPit.block_partition import BlockPartition
        part = BlockPartition(d=item["d"])
    else:
        part = pep.declare_block_partition(d=item["d"])

    def solve():
        """the orthogonality relations are imposed AT SOLVE TIME: a real solve of a small bounded model"""
        with contextlib.redirect_stdout(io.StringIO()):
            return pep.solve(verbose=0, solver="CLARABEL")
    ret, out, oid = [], [], []
    ids = {}
    for c in item["h"]:
        if c["p"] == 0:         # an intermediate solve-time generation of the partition constraints
            solve()
            out.append("ok"); ret.append([]); oid.append(0)
            continue
        try:
            b = part.get_block(base[c["p"] - 1], c["k"] - 1)
            if len(base) == 4:
                base.append(b)          # base object 5: the block returned by the first call (it can be decomposed again)
            out.append("ok")
            ret.append(sparse(proj.pvec(b, MAXP)))
            oid.append(ids.setdefault(id(b), len(ids) + 1))
        except Exception as e:
            if len(base) == 4:
                base.append(None)
            out.append("raises:" + type(e).__name__)
            ret.append([])
            oid.append(0)
    # a SECOND partition with the same number of blocks decomposes another point: two partitions are independent, the
    # blocks of one are not constrained against the blocks of the other
    while len(base) < 5:
        base.append(None)
    part2 = pep.declare_block_partition(d=item["d"])
    z = 2 * x1 - x2
    part2.get_block(z, 0)
    val = solve()
    if Point.counter > MAXP:
        # the model keeps every behaviour within MAXP leaves (2 + (d - 1) per decomposed point + (d - 1) for the second
        # partition): more leaves than that is an observation, judged by PartitionTrace (clause c10), not a harness error
        return dict(d=item["d"], ctor=item.get("ctor", 1), solved=0, h=item["h"], out=out, ret=[[] for _ in ret], oid=oid,
                    blocks=[[] for _ in range(5)], cons=[], base=[[] for _ in range(5)], np=Point.counter, over=1)
    blocks = []
    for p in base:
        bl = None
        for key, stored in part.blocks_dict.items():
            if key is p and p is not None:
                bl = stored
        blocks.append([sparse(proj.pvec(b, MAXP)) for b in bl] if bl is not None else [])
    cons = []
    idx = proj.pair_index(MAXP)
    # what REACHED the solver for the partition: the sent constraints that are the partition's own
    sent_part = [c for c in pep._list_of_constraints_sent_to_wrapper if any(c is pc for pc in part.list_of_constraints)]
    from PEPit.expression import Expression
    for c in sent_part:
        F, G, cc = proj.evec(c.expression, MAXP, Expression.counter)
        cons.append(dict(sense=proj.sense(c), e=dict(G=sparse(G), c=[cc.numerator, cc.denominator])))
    return dict(d=item["d"], ctor=item.get("ctor", 1), solved=0 if val is None else 1, h=item["h"], out=out, ret=ret, oid=oid, blocks=blocks, cons=cons,
                base=[sparse(proj.pvec(p, MAXP)) if p is not None else [] for p in base], np=Point.counter, over=0)
