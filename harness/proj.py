"""Projection of real PEPit objects to the normal forms of spec/LinForm.tla (integers and strings only).

Runs inside driver worker processes (PEPit imported from the working tree of /repo).  Nothing here calls
PEPit's own translation code (expression_to_matrices etc.): normal forms are read from decomposition_dict only.
"""
from fractions import Fraction
import math

LIMIT = 1 << 20


class Inexact(Exception):
    pass


def rat(x, exact=True):
    """float/int -> Fraction.  exact=True: the binary value itself (dyadic drivers).  exact=False: nearest fraction
    with denominator <= 4096, which must be within 1e-12 (else the harness refuses to guess)."""
    if isinstance(x, bool):
        raise Inexact("bool coefficient")
    if isinstance(x, int):
        return Fraction(x)
    x = float(x)
    if math.isnan(x) or math.isinf(x):
        raise Inexact("non-finite coefficient %r" % x)
    f = Fraction(x)
    if exact:
        if f.denominator > LIMIT or abs(f.numerator) > (1 << 30):
            raise Inexact("non-dyadic coefficient %r" % x)
        return f
    if f.denominator <= LIMIT and abs(f.numerator) <= (1 << 30):
        return f                      # an exact dyadic number with a short mantissa (e.g. 1 + 2^-20)
    g = f.limit_denominator(4096)
    if abs(float(g) - x) > 1e-12 * max(1.0, abs(x)):
        raise Inexact("coefficient %r is not a small rational" % x)
    return g


def pairs(np_):
    return [(i, j) for i in range(np_) for j in range(i, np_)]


def pair_index(np_):
    return {p: k for k, p in enumerate(pairs(np_))}


def pvec(p, NP, exact=True):
    from PEPit.point import Point
    v = [Fraction(0)] * NP
    d = p.decomposition_dict
    for k, w in d.items():
        if not isinstance(k, Point) or not k.get_is_leaf():
            raise Inexact("point key is not a leaf point")
        v[k.counter] += rat(w, exact)
    return v


def evec(e, NP, NE, exact=True):
    from PEPit.point import Point
    from PEPit.expression import Expression
    idx = pair_index(NP)
    F = [Fraction(0)] * NE
    G = [Fraction(0)] * len(idx)
    c = Fraction(0)
    d = e.decomposition_dict
    for k, w in d.items():
        w = rat(w, exact)
        if isinstance(k, Expression):
            if not k.get_is_leaf():
                raise Inexact("expression key is not a leaf")
            F[k.counter] += w
        elif isinstance(k, tuple):
            a, b = k
            i, j = sorted((a.counter, b.counter))
            G[idx[(i, j)]] += w
        elif k == 1:
            c += w
        else:
            raise Inexact("unknown key %r" % (k,))
    return F, G, c


def jv(v):
    return dict(n=[x.numerator for x in v], d=[x.denominator for x in v])


def jpt(p, NP, exact=True):
    return jv(pvec(p, NP, exact))


def jex(e, NP, NE, exact=True):
    F, G, c = evec(e, NP, NE, exact)
    return dict(Fn=[x.numerator for x in F], Fd=[x.denominator for x in F], Gn=[x.numerator for x in G],
                Gd=[x.denominator for x in G], c=[c.numerator, c.denominator])


def jrat(x, exact=True):
    f = rat(x, exact)
    return [f.numerator, f.denominator]


def raw_keys_pt(p):
    """sorted leaf counters that are keys of the stored dictionary (explicit zeros included)"""
    return sorted(k.counter for k in p.decomposition_dict)


U = 10 ** 6


def fix(x):
    """float -> fixed point in units of 1e-6 (observed solver output only)"""
    x = float(x)
    if math.isnan(x) or math.isinf(x) or abs(x) > 2000:
        raise Inexact("fixed-point range: %r" % x)
    return int(round(x * U))


def sense(c):
    return "ineq" if c.equality_or_inequality == "inequality" else "eq"
