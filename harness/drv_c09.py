"""C09 driver: run a shipped worked example on the real code, capture its PEP object and project the object graph
(leaf functions with their samples (x, g, f), initial conditions / constraints, performance metrics, returned tau)
to the normal forms of spec/LinForm.tla.  The program executed by spec/RunsTrace.tla is this projection, i.e. it is
extracted from the real example - nothing of the method is re-typed in the harness.

The PEP instance is captured by substituting, in the example module's own namespace, a subclass of PEP that
remembers its instance (no repository source is touched).
"""
import importlib, math, warnings
from fractions import Fraction
import proj

EX = "PEPit.examples."
INT_PARAMS = ("n", "d", "t")


def _val(name, n, d):
    if name in INT_PARAMS:
        return int(n // d)
    return n / d


# example id -> (module, function, adapter(params dict of Fraction) -> kwargs)
def _plain(p):
    return {k: _val(k, v.numerator, v.denominator) for k, v in p.items()}


def _app(p):
    # accelerated proximal point: gammas_t = gamma0 * 2^t  (keeps A_t * gamma_t = A0 * gamma0, rational alphas)
    n = int(p["n"])
    return dict(A0=float(p["A0"]), gammas=[float(p["gamma0"]) * 2 ** t for t in range(n)], n=n)


U = "unconstrained_convex_minimization."
C = "composite_convex_minimization."
F = "fixed_point_problems."
M = "monotone_inclusions_variational_inequalities."
EXAMPLES = {
    "gradient_descent": (U + "gradient_descent", "wc_gradient_descent", _plain),
    "gradient_descent_qg_convex": (U + "gradient_descent_qg_convex", "wc_gradient_descent_qg_convex", _plain),
    "gradient_descent_qg_convex_decreasing": (U + "gradient_descent_qg_convex_decreasing",
                                              "wc_gradient_descent_qg_convex_decreasing", _plain),
    "proximal_point": (U + "proximal_point", "wc_proximal_point", _plain),
    "subgradient_method": (U + "subgradient_method", "wc_subgradient_method", _plain),
    "subgradient_method_rsi_eb": (U + "subgradient_method_rsi_eb", "wc_subgradient_method_rsi_eb", _plain),
    "accelerated_gradient_convex": (U + "accelerated_gradient_convex", "wc_accelerated_gradient_convex", _plain),
    "accelerated_gradient_strongly_convex": (U + "accelerated_gradient_strongly_convex",
                                             "wc_accelerated_gradient_strongly_convex", _plain),
    "accelerated_proximal_point": (U + "accelerated_proximal_point", "wc_accelerated_proximal_point", _app),
    "heavy_ball_momentum": (U + "heavy_ball_momentum", "wc_heavy_ball_momentum", _plain),
    "heavy_ball_momentum_qg_convex": (U + "heavy_ball_momentum_qg_convex", "wc_heavy_ball_momentum_qg_convex", _plain),
    "triple_momentum": (U + "triple_momentum", "wc_triple_momentum", _plain),
    "robust_momentum": (U + "robust_momentum", "wc_robust_momentum", _plain),
    "optimized_gradient": (U + "optimized_gradient", "wc_optimized_gradient", _plain),
    "optimized_gradient_for_gradient": (U + "optimized_gradient_for_gradient", "wc_optimized_gradient_for_gradient",
                                        _plain),
    "information_theoretic_exact_method": (U + "information_theoretic_exact_method", "wc_information_theoretic",
                                           _plain),
    "gradient_descent_silver_stepsize_convex": (U + "gradient_descent_silver_stepsize_convex",
                                                "wc_gradient_descent_silver_stepsize_convex", _plain),
    "gradient_descent_silver_stepsize_strongly_convex": (U + "gradient_descent_silver_stepsize_strongly_convex",
                                                         "wc_gradient_descent_silver_stepsize_strongly_convex", _plain),
    "proximal_gradient": (C + "proximal_gradient", "wc_proximal_gradient", _plain),
    "accelerated_proximal_gradient": (C + "accelerated_proximal_gradient", "wc_accelerated_proximal_gradient", _plain),
    "douglas_rachford_splitting": (C + "douglas_rachford_splitting", "wc_douglas_rachford_splitting", _plain),
    "douglas_rachford_splitting_contraction": (C + "douglas_rachford_splitting_contraction",
                                               "wc_douglas_rachford_splitting_contraction", _plain),
    "accelerated_douglas_rachford_splitting": (C + "accelerated_douglas_rachford_splitting",
                                               "wc_accelerated_douglas_rachford_splitting", _plain),
    "three_operator_splitting": (C + "three_operator_splitting", "wc_three_operator_splitting", _plain),
    "frank_wolfe": (C + "frank_wolfe", "wc_frank_wolfe", _plain),
    "halpern_iteration": (F + "halpern_iteration", "wc_halpern_iteration", _plain),
    "krasnoselskii_mann_constant_step_sizes": (F + "krasnoselskii_mann_constant_step_sizes",
                                               "wc_krasnoselskii_mann_constant_step_sizes", _plain),
    "krasnoselskii_mann_increasing_step_sizes": (F + "krasnoselskii_mann_increasing_step_sizes",
                                                 "wc_krasnoselskii_mann_increasing_step_sizes", _plain),
    "optimal_contractive_halpern_iteration": (F + "optimal_contractive_halpern_iteration",
                                              "wc_optimal_contractive_halpern_iteration", _plain),
    "mi_proximal_point": (M + "proximal_point", "wc_proximal_point", _plain),
    "mi_accelerated_proximal_point": (M + "accelerated_proximal_point", "wc_accelerated_proximal_point", _plain),
    "mi_optimal_strongly_monotone_proximal_point": (M + "optimal_strongly_monotone_proximal_point",
                                                    "wc_optimal_strongly_monotone_proximal_point", _plain),
    "mi_douglas_rachford_splitting": (M + "douglas_rachford_splitting", "wc_douglas_rachford_splitting", _plain),
    "mi_three_operator_splitting": (M + "three_operator_splitting", "wc_three_operator_splitting", _plain),
    "mi_optimistic_gradient": (M + "optimistic_gradient", "wc_optimistic_gradient", _plain),
    "mi_past_extragradient": (M + "past_extragradient", "wc_past_extragradient", _plain),
    "nonconvex_gradient_descent": ("nonconvex_optimization.gradient_descent", "wc_gradient_descent", _plain),
    "gradient_descent_contraction": ("tutorials.gradient_descent_contraction", "wc_gradient_descent_contraction",
                                     _plain),
    "gradient_descent_lyapunov_1": ("potential_functions.gradient_descent_lyapunov_1",
                                    "wc_gradient_descent_lyapunov_1", _plain),
    "gradient_descent_lyapunov_2": ("potential_functions.gradient_descent_lyapunov_2",
                                    "wc_gradient_descent_lyapunov_2", _plain),
    "potential_accelerated_gradient_method": ("potential_functions.accelerated_gradient_method",
                                              "wc_accelerated_gradient_method", _plain),
    "polyak_steps_in_distance_to_optimum": ("adaptive_methods.polyak_steps_in_distance_to_optimum",
                                            "wc_polyak_steps_in_distance_to_optimum", _plain),
    "polyak_steps_in_function_value": ("adaptive_methods.polyak_steps_in_function_value",
                                       "wc_polyak_steps_in_function_value", _plain),
}

PARAM_NAMES = ("L", "mu", "M", "D", "beta", "rho")
NONE = [0, 0]          # "absent / infinite" (denominator 0 is never a rational of spec/Rat.tla)


def _jparam(f, name):
    v = getattr(f, name, None)
    if v is None or isinstance(v, (list, tuple)):
        return NONE
    v = float(v)
    if math.isinf(v) or math.isnan(v):
        return NONE
    return proj.jrat(v, exact=False)


def _jpt(p, NP):
    j = proj.jpt(p, NP, exact=False)
    j["s"] = [i + 1 for i, n in enumerate(j["n"]) if n != 0]      # support (checked by Runs!ProgOK)
    return j


def _gsupp(j, NP):
    prs = proj.pairs(NP)
    out = set()
    for k, n in enumerate(j["Gn"]):
        if n != 0:
            out.update((prs[k][0] + 1, prs[k][1] + 1))
    return out


def kwstr(p):
    return ",".join("%s=%s" % (k, (str(v.numerator) if v.denominator == 1 else "%d/%d" % (v.numerator, v.denominator)))
                    for k, v in sorted(p.items()))


def capture(modname, fname, kwargs, solver="CLARABEL", pass_solver=True):
    """Run the example; return (pep instance or None, returned pair or None, exception name or '')."""
    import PEPit
    from PEPit import PEP
    mod = importlib.import_module(EX + modname)
    cap = []

    class RecPEP(PEP):
        def __init__(self, *a, **k):
            super().__init__(*a, **k)
            cap.append(self)

        def solve(self, *a, **k):
            if not pass_solver:           # examples without wrapper/solver arguments: force the solver here
                k.setdefault("wrapper", "cvxpy")
                k["solver"] = solver
            return super().solve(*a, **k)

    old = mod.PEP
    mod.PEP = RecPEP                      # the example module's own global name; no repository file is touched
    try:
        kw = dict(kwargs)
        kw["verbose"] = -1
        if pass_solver:
            kw.update(wrapper="cvxpy", solver=solver)
        try:
            out = getattr(mod, fname)(**kw)
            exc = ""
        except Exception as e:            # outcome of the library call = observation
            out, exc = None, type(e).__name__
    finally:
        mod.PEP = old
    return (cap[-1] if cap else None), out, exc


def run(item):
    """item: dict(ex=<example id>, p={param: [n, d]})  ->  trace dict (ints and strings only)"""
    warnings.simplefilter("ignore")
    from PEPit import Point, Expression
    from PEPit.function import Function
    from PEPit.block_partition import BlockPartition
    ex = item["ex"]
    modname, fname, adapter = EXAMPLES[ex]
    p = {k: Fraction(v[0], v[1]) for k, v in item["p"].items()}
    tr = dict(ex=ex, kws=kwstr(p), p=item["p"], status="ok", why="", np=0, ne=0, funcs=[], samples=[], init=[],
              metrics=[], tau=0, theo=0, hastheo=0, used=[])
    try:
        kwargs = adapter(p)
    except Exception as e:
        tr.update(status="bad-params", why=type(e).__name__)
        return tr
    pep, out, exc = capture(modname, fname, kwargs)
    if exc or pep is None or out is None:
        tr.update(status="solver-error", why=exc or "no PEP captured")
        return tr
    tau, theo = out
    st = getattr(getattr(pep.wrapper, "prob", None), "status", None)
    if tau is None or st != "optimal":
        tr.update(status="solver-inconclusive", why=str(st))
        return tr
    try:
        tr["tau"] = proj.fix(tau)
        if theo is not None:
            tr["theo"], tr["hastheo"] = proj.fix(theo), 1
    except proj.Inexact as e:
        tr.update(status="out-of-range", why=str(e))
        return tr
    NP, NE = Point.counter, Expression.counter
    tr["np"], tr["ne"] = NP, NE
    if NP > 16:
        tr.update(status="unsupported", why="more than 16 leaf points")
        return tr
    funcs = list(Function.list_of_functions)
    for f in funcs:
        if f.list_of_constraints or f.list_of_psd:
            tr.update(status="unsupported", why="function-level constraints (adversarial / implicit step)")
            return tr
    if pep.list_of_psd or BlockPartition.list_of_partitions:
        tr.update(status="unsupported", why="LMI constraints or block partitions in the model")
        return tr
    leaves = [f for f in funcs if f.get_is_leaf()]
    try:
        for f in leaves:
            if getattr(f, "v", None) is not None:
                tr.update(status="unsupported", why="operator with displacement vector")
                return tr
            tr["funcs"].append(dict(cls=type(f).__name__, par=[_jparam(f, nm) for nm in PARAM_NAMES],
                                    reuse=1 if f.reuse_gradient else 0))
        for i, f in enumerate(leaves):
            for (x, g, v) in f.list_of_points:
                tr["samples"].append(dict(fn=i + 1, x=_jpt(x, NP), g=_jpt(g, NP), f=proj.jex(v, NP, NE, exact=False)))
        for c in pep.list_of_constraints:
            tr["init"].append(dict(e=proj.jex(c.expression, NP, NE, exact=False), sense=proj.sense(c)))
        for m in pep.list_of_performance_metrics:
            tr["metrics"].append(proj.jex(m, NP, NE, exact=False))
    except proj.Inexact as e:
        tr.update(status="irrational", why=str(e)[:80], funcs=[], samples=[], init=[], metrics=[])
        return tr
    used = set()
    for s in tr["samples"]:
        used.update(s["x"]["s"]); used.update(s["g"]["s"])
    for c in tr["init"]:
        used |= _gsupp(c["e"], NP)
    for m in tr["metrics"]:
        used |= _gsupp(m, NP)
    tr["used"] = sorted(used)
    return tr
