"""C07 driver: replay a call sequence of spec/Oracle.tla on real PEPit Function objects and log the tables."""
import proj
from fractions import Fraction

MAXP = MAXE = 20
WITH_ZERO = False


def sparse(v):
    return [[i + 1, x.numerator, x.denominator] for i, x in enumerate(v) if x != 0]


def fvec(e, NE):
    """function values must be linear in the leaf expressions (no Gram part, no constant)"""
    from PEPit.expression import Expression
    v = [Fraction(0)] * NE
    for k, w in e.decomposition_dict.items():
        if not isinstance(k, Expression) or not k.get_is_leaf():
            raise proj.Inexact("function value with a non-leaf-expression key")
        v[k.counter] += proj.rat(w, exact=False)
    return v


def table(f, fid_of, NP, NE):
    pts = []
    for (x, g, v) in f.list_of_points:
        pts.append(dict(x=sparse(proj.pvec(x, NP, exact=False)), g=sparse(proj.pvec(g, NP, exact=False)), f=sparse(fvec(v, NE))))
    stat = []
    for t in f.list_of_stationary_points:
        idx = [i + 1 for i, u in enumerate(f.list_of_points) if u is t]
        stat.append(idx[0] if idx else 0)
    w = []
    for k, c in f.decomposition_dict.items():
        r = proj.rat(c, exact=False)
        w.append([fid_of[id(k)], r.numerator, r.denominator])
    return dict(leaf=1 if f.get_is_leaf() else 0, diff=1 if f.reuse_gradient else 0, w=w, pts=pts, stat=stat)


def run(item):
    from PEPit import PEP, Point, Expression
    from PEPit.functions import ConvexFunction, SmoothConvexFunction
    from PEPit.primitive_steps import proximal_step
    pep = PEP()
    x1, x2 = Point(), Point()
    f1 = pep.declare_function(ConvexFunction)
    f2 = pep.declare_function(SmoothConvexFunction, L=1.)
    f3 = f1 + f2 / 2
    f4 = f1 - f1 + f2
    f5 = 2 * f2
    f6 = pep.declare_function(ConvexFunction)
    f7 = f1 - f6
    f8 = f6 / 2 + 2 * f2 + 0 * f1
    funs = [f1, f2, f3, f4, f5, f6, f7, f8]
    if item.get("zero"):
        funs.append(f1 - f1)
    fid_of = {id(f1): 1, id(f2): 2, id(f6): 6}

    nq = [len(item["h"])]

    def query(q):
        # the two leaf points are queried alternately as the leaf object itself and as a derived point with the same
        # decomposition (1 * x): "two points with the same decomposition are the same point", in both orders
        nq[0] += 1
        if q == 1: return x1 if nq[0] % 2 == 1 else 1 * x1
        if q == 2: return x2 if nq[0] % 2 == 1 else 1 * x2
        if q == 3: return x1 - x2
        if q == 4: return 0 * x2
        if q == 5: return x1 - x1
        if q == 6: return (1 + 2.0 ** -20) * x1
        raise KeyError(q)

    def snap():
        return [table(f, fid_of, MAXP, MAXE) for f in funs]

    if Point.counter != 2 or Expression.counter != 0:
        raise RuntimeError("unexpected initial counters")
    cur = snap()
    out = dict(h=item["h"], np0=Point.counter, ne0=Expression.counter, funs0=cur, steps=[])
    for c in item["h"]:
        f = funs[c["f"] - 1]
        ret = dict(x=None, g=None, f=None)
        exc = ""
        try:
            if c["op"] == "oracle":
                g, v = f.oracle(query(c["q"]))
                ret = dict(x=None, g=g, f=v)
            elif c["op"] == "value":
                ret = dict(x=None, g=None, f=f.value(query(c["q"])))
            elif c["op"] == "call":
                ret = dict(x=None, g=None, f=f(query(c["q"])))
            elif c["op"] == "gradient":
                q_ = query(c["q"])
                ret = dict(x=None, g=(f.gradient(q_) if c["f"] % 2 else f.subgradient(q_)), f=None)
            elif c["op"] == "stat":
                x, g, v = f.stationary_point(return_gradient_and_function_value=True)
                ret = dict(x=x, g=g, f=v)
            elif c["op"] == "fixed":
                x, g, v = f.fixed_point()
                ret = dict(x=x, g=g, f=v)
            elif c["op"] == "prox":
                x, g, v = proximal_step(query(c["q"]), f, 0.5)
                ret = dict(x=x, g=g, f=v)
            else:
                raise KeyError(c["op"])
        except (AssertionError, TypeError, ValueError, ZeroDivisionError, AttributeError, KeyError, IndexError) as e:
            if isinstance(e, KeyError) and e.args and e.args[0] == c["op"]:
                raise
            exc = type(e).__name__
        if Point.counter > MAXP or Expression.counter > MAXE:
            raise RuntimeError("leaf budget exceeded")
        if not exc:
            ret = dict(x=sparse(proj.pvec(ret["x"], MAXP)) if ret["x"] is not None else [],
                       g=sparse(proj.pvec(ret["g"], MAXP)) if ret["g"] is not None else [],
                       f=sparse(fvec(ret["f"], MAXE)) if ret["f"] is not None else [])
        else:
            ret = dict(x=[], g=[], f=[])
        now = snap()
        chg = [dict(fid=i + 1, fn=now[i]) for i in range(len(funs)) if now[i] != cur[i]]
        cur = now
        out["steps"].append(dict(np=Point.counter, ne=Expression.counter, chg=chg, ret=ret, exc=exc))
    return out
