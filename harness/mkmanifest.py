"""Generate /verif/MANIFEST.json from the table below (run: /venv/bin/python harness/mkmanifest.py)."""
import json, os, subprocess

VERIF = os.path.dirname(os.path.dirname(os.path.abspath(__file__)))
BASE = json.load(open("/root/.vp/BASELINE.json"))["cmd"].replace(" --junitxml=<file>", "")

# id -> (technique, level text, level note, design ref, engines)
CLAIMED = {
    "C06": ("TLC model checking of spec/Algebra.tla (normal-form calculus vs denotational semantics, no-mutation action "
            "property) + replay of every TLC behaviour on the real classes + TLC trace validation (AlgebraTrace.tla)",
            "All operator programs of bounded depth are enumerated by TLC, executed on the real Point/Expression/"
            "Constraint classes and every observed step is re-derived by the specification; equality of normal forms is "
            "equality of meaning under every assignment, so a mismatch is exactly a violation.",
            "TLC 1.8; harness/proj.py (reads decomposition_dict only); dyadic scalars so PEPit's float arithmetic is exact.",
            "6.6"),
    "C07": ("TLC model checking of spec/Oracle.tla (code-path transcription of PEPit/function.py oracle bookkeeping; "
            "invariants I1-I4; deviation switches reproduce the repaired defects as counterexamples) + replay of every "
            "TLC behaviour on real Function objects + TLC trace validation of the observed tables (OracleTrace.tla)",
            "All call sequences of bounded length over leaf and composite functions (zero, cancelling and fractional "
            "weights, equal decompositions as distinct objects) are enumerated by TLC, executed on the real classes, and "
            "the invariants are evaluated by TLC on the observed sample tables after every call; the observed step is "
            "also compared with the implementation model (drift).",
            "TLC 1.8; harness/drv_c07.py projection of list_of_points / stationary list / stored weights; dyadic weights.",
            "6.7"),
}

NOT_YET = {}


def main():
    props = [json.loads(l) for l in open(os.path.join(VERIF, "properties.jsonl"))]
    checks, na = [], []
    for p in props:
        pid = p["id"]
        if pid in CLAIMED:
            tech, text, note, ref = CLAIMED[pid]
            checks.append(dict(
                property_id=pid,
                quick_cmd="./check %s --tier quick" % pid,
                thorough_cmd="./check %s --tier thorough" % pid,
                evidence_file="/verif/evidence/%s.json" % pid,
                replay_cmd_template="./check %s --replay {path}" % pid,
                engine="tlc+driver",
                level_claimed=dict(category="model_checking", text=text, design_ref="DESIGN.md section " + ref),
                level_note=note,
                technique=tech))
        else:
            na.append(dict(property_id=pid, reason=NOT_YET.get(
                pid, "check not built yet in this round (planned, see DESIGN.md section 10); not claimed until it is sound")))
    man = dict(
        version=1,
        setup_cmd="./check setup",
        hooks=dict(guard="PEPIT_VERIF", enable="no source hooks are needed: the public objects expose the abstract state; "
                   "the harness imports PEPit from /repo's working tree (PYTHONPATH) and substitutes recording wrappers "
                   "through PEPit.wrappers.WRAPPERS at run time", baseline_off_cmd=BASE, source_commits=[], add_only=True),
        engines=[dict(name="tlc+driver", path="/verif/check",
                      serves_properties=sorted(CLAIMED),
                      kind_free_text="TLC 1.8 model checking of /verif/spec/*.tla, Python drivers replaying TLC behaviours "
                                     "on the real PEPit from /repo, TLC trace validation of the recorded traces")],
        checks=checks,
        notes="See DESIGN.md. Exit codes: 0 held, 1 violation (VIOLATION line), 2 machinery failure (never a verdict).",
        not_applicable=na)
    with open(os.path.join(VERIF, "MANIFEST.json"), "w") as f:
        json.dump(man, f, indent=1)
    try:
        import jsonschema
        jsonschema.validate(man, json.load(open("/root/.vp/MANIFEST.schema.json")))
        print("MANIFEST.json valid;", len(checks), "claimed,", len(na), "not claimed")
    except ImportError:
        print("jsonschema not available; MANIFEST.json written")


if __name__ == "__main__":
    main()
