"""Generate /verif/MANIFEST.json from the table below (run: /venv/bin/python harness/mkmanifest.py)."""
import json, os, subprocess

VERIF = os.path.dirname(os.path.dirname(os.path.abspath(__file__)))
BASE = json.load(open("/root/.vp/BASELINE.json"))["cmd"].replace(" --junitxml=<file>", "")

# id -> (technique, level text, level note, design ref, engines)
CLAIMED = {
    "C06": ("TLC model checking of spec/Algebra.tla (normal-form calculus vs denotational semantics, no-mutation action "
            "property) + replay of every TLC behaviour on the real classes + TLC trace validation (AlgebraTrace.tla)",
            "All operator programs of bounded depth are enumerated by TLC, executed on the real Point/Expression/"
            "Constraint classes and every observed step is re-derived by the specification; equality of normal forms is "
            "equality of meaning under every assignment, so a mismatch is exactly a violation.",
            "TLC 1.8; harness/proj.py (reads decomposition_dict only); dyadic scalars so PEPit's float arithmetic is exact.",
            "6.6"),
    "C07": ("TLC model checking of spec/Oracle.tla (code-path transcription of PEPit/function.py oracle bookkeeping; "
            "invariants I1-I4, I6; deviation switches reproduce the repaired defects as counterexamples) and of "
            "spec/OracleAlg.tla (functions built by the behaviour with the DSL operators) + replay of every TLC behaviour on "
            "real Function objects + TLC trace validation of the observed tables (OracleTrace.tla, OracleAlgTrace.tla)",
            "All call sequences of bounded length over leaf and composite functions (zero, cancelling and fractional "
            "weights, equal decompositions as distinct objects) are enumerated by TLC, executed on the real classes, and "
            "the invariants are evaluated by TLC on the observed sample tables after every call; the observed step is "
            "also compared with the implementation model (drift).",
            "TLC 1.8; harness/drv_c07.py projection of list_of_points / stationary list / stored weights; dyadic weights.",
            "6.7"),
    "C01": ("TLC model checking of spec/Pep.tla (dual index walk over all send sequences, deviation switches) + real solves "
            "of the exported programs + TLC trace validation of the certificate identity in fixed point (SolveTrace.tla)",
            "TLC enumerates model shapes and solve options, each is built and solved with the real library, and TLC "
            "recomputes 'objective - tau = sum(multiplier x constraint) - <residual, Gram> - sum <LMI multiplier, matrix>' "
            "monomial by monomial from the multipliers the objects expose, with signs, PSD sensors and the returned constant.",
            "TLC 1.8; cvxpy+CLARABEL tolerance 3e-5 abs+rel plus exact quantisation bound; numpy eigvalsh as sensor.",
            "6.1"),
    "C02": ("real solves of the programs exported by spec/Pep.tla + TLC trace validation of the primal instance in fixed "
            "point (SolveTrace.tla: Gram reproduction, derived values, feasibility of every sent row, min-metric, gap)",
            "Every value the user can obtain after a solve is recomputed by TLC from the leaf values with the object's exact "
            "normal form; every sent row is evaluated by TLC at the instance.",
            "TLC 1.8; cvxpy+CLARABEL tolerance; numpy PSD projection and eigvalsh as sensors.",
            "6.2"),
    "C03": ("TLC model checking of spec/Members.tla (586 rational member functions / operators validated against the class "
            "definitions, near-miss non-members rejected) + replay of TLC-enumerated declaration histories on the 24 real "
            "classes + TLC exact evaluation of every generated constraint and class LMI at every member (MembersTrace.tla)",
            "The oracle is the definition of each class, not the library's formula: TLC proves membership on a grid, then "
            "evaluates in exact rationals every class constraint / LMI the library generated at every member, grid "
            "assignment and enumerated subgradient (stationary points, fixed points, repeated evaluations, block steps).",
            "TLC 1.8; rational members of dimension <= 2 on a small grid; role assignment from the public API; RsiEb read as "
            "'w.r.t. every stationary point stationary_point() can return'.",
            "6.3"),
    "C04": ("TLC model checking of spec/ClassHist.tla (all declaration histories, order-independence of the documented set) "
            "+ replay on the 24 real classes + TLC trace validation against spec/Classes.tla (documented conditions)",
            "TLC enumerates every declaration history (<=3 quick, <=4 thorough) of each of the 24 classes at 2-3 parameter "
            "points; each is replayed on the real class and the generated constraints and LMIs are compared by TLC, as "
            "normalised exact rational forms, with the transcription of the documentation; an end-to-end clause solves one "
            "model per class in every declaration order.",
            "TLC 1.8; transcription of the class documentation in Classes.tla (cross-checked by C03 against real members).",
            "6.4"),
    "C05": ("TLC model checking of spec/Pep.tla (sent list and native layout) + real solves + TLC trace validation that the "
            "bag sent equals the declared sources and that every natively probed cvxpy row denotes its symbolic expression",
            "The native cvxpy problem is probed independently of PEPit's translation code (variables set to zero / basis "
            "elements) and compared row by row, sense by sense, by TLC with the normal forms read from the DSL objects; what "
            "the user declared is recorded at declaration time (class-level wrappers of the public API) and must be sent as "
            "often as declared with the entries as written; the orthogonality of every pair of different blocks handed out by "
            "a partition must be among the sent equalities; every recorded solve is validated call by call against the "
            "protocol machine spec/Solve.tla (plan order, everything sent before the problem is generated); every third "
            "program is also formulated through the real MosekWrapper on the stand-in (sparse encoding).",
            "TLC 1.8; cvxpy expression evaluation used for probing; MOSEK-side encoding is covered by C11 on a stand-in.",
            "6.5"),
    "C08": ("TLC model checking of spec/Steps.tla (documented post-conditions of the 8 primitive steps, all options) + replay "
            "on the real steps + TLC trace validation of returned tuples, samples, owners and side constraints up to a "
            "permutation of fresh leaves (StepsTrace.tla) + exact rational instantiation with the real operation (StepsReal.tla)",
            "TLC enumerates all 1- and 2-call programs (sampled 3-call in thorough) over the 8 steps, options, leaf/composite "
            "functions and argument shapes; each is replayed on the real code and TLC decides that nothing is missing and "
            "nothing extra; single-call recordings are instantiated with the real operation on quadratic, |x| and box members.",
            "TLC 1.8; fresh leaves matched up to permutation only; members of dimension <= 2; dyadic parameters.",
            "6.8"),
    "C09": ("TLC model checking of spec/Runs.tla (members validated against the class definitions; exact rational execution of "
            "the method) on programs extracted from the real examples' object graphs + TLC judgement metric(run) <= tau",
            "Real members of every class are run exactly, in rationals, through the program extracted from each real worked "
            "example (41 of 81 examples, n <= 3) for every member tuple and grid start; a run is judged only if all its "
            "samples are genuine (point, subgradient, value) triples; a run beating the returned bound is a violation.",
            "TLC 1.8; cvxpy+CLARABEL value with tolerance 2e-5 + 1e-5|tau|; rational 1-D/2-D member families.",
            "6.9"),
    "C11": ("the real MosekWrapper executed against a recording stand-in mosek module + TLC folding of the recorded Task call "
            "sequence with spec/MosekTask.tla (call pre-conditions, row denotation, objective, dual read-out) + cross-check "
            "with the cvxpy back-end on the same TLC-generated programs (SolveTrace.tla)",
            "Every Task call of the wrapper is recorded and replayed by TLC through a state-machine model of the MOSEK task; "
            "each row must denote the sent item, each multiplier must be read from that item's row / matrix variable with "
            "the documented sign, values and constraint lists must agree with the cvxpy path, and the wrapper's own "
            "accessor of the multipliers must agree with the objects' multipliers.",
            "MOSEK is not installed: a stand-in module (harness/fake/mosek) implements the documented conventions and solves "
            "the recorded SDP with cvxpy+CLARABEL; real MOSEK behaviour is an assumption.",
            "6.11"),
    "C12": ("TLC model checking of spec/Registry.tla (every class-level registry, NewPEP reset, 'forgotten registry' switches) "
            "+ TLC-enumerated histories of model fragments run in one process before model B + TLC trace validation against B "
            "in a fresh interpreter (RegistryTrace.tla)",
            "Histories of up to 2-3 fragments out of 16 (solved, failed, abandoned, verbose, heuristic, referenced models, "
            "earlier models released or garbage collected while the next one is built) followed by each of 11 models (two "
            "without finite value) are enumerated by TLC and run; the registry snapshot right after PEP() (reflection "
            "over all class attributes), the SHA-256 of the conic data and of the symbolic rows, and the value must equal "
            "those of the same model in a fresh interpreter, bit for bit, and outcome and solver input must not depend on the "
            "verbosity. The integrated machine spec/PEPit.tla (every public call with its effect on the registries) is model "
            "checked and its behaviours are replayed with every registry compared after every call (reported as drift).",
            "TLC 1.8; cvxpy get_problem_data as solver input; PYTHONHASHSEED=0.",
            "6.12"),
    "C13": ("TLC model checking of spec/Pep.tla (epochs, caches, accumulation switches) + real solve/edit/evaluate sequences "
            "+ TLC trace validation across consecutive solves (SolveTrace.tla)",
            "Sequences of solves interleaved with edits (initial condition, metric, LMI, one more step, more blocks, adjoint "
            "sample, first function constraint, infeasible / feasible again) and evaluations are enumerated by TLC, run on the "
            "real library, and TLC compares what is sent at consecutive solves, recomputes every held value (and objects "
            "built after each solve) from the latest leaf values, re-checks the certificate of every solve, and compares the "
            "last solve with a newly built equivalent model.",
            "TLC 1.8; cvxpy+CLARABEL tolerance.",
            "6.13"),
    "C14": ("TLC model checking of the solve protocol spec/Solve.tla (multipliers of the first solve, instance of the last; "
            "deviation switches) + real heuristic solves of programs exported by spec/Pep.tla under recording wrappers + TLC "
            "trace validation of every recorded wrapper call against Solve.tla (SolveProtoTrace.tla) and of the phase events and "
            "certificate/primal clauses after the heuristic (SolveTrace.tla)",
            "Recording subclasses of the real wrappers (installed through PEPit's own registry) log every wrapper call and every "
            "internal solve; each recorded solve must be a behaviour of Solve.tla (corrupted copies must be rejected); "
            "TLC checks that multipliers are those of the first problem, the bound is its certificate constant, the primal "
            "value stays within tol, the final instance satisfies every row, and the trace does not increase.",
            "TLC 1.8; cvxpy+CLARABEL tolerance; logdet runs use regularisation 1e-1 (CLARABEL fails at 1e-3: inconclusive).",
            "6.14"),
    "C15": ("TLC model checking of spec/Partition.tla (get_block state machine; real coordinate partitions of Z^3 validate the "
            "spec) + replay of every call sequence on the real BlockPartition + TLC trace validation (PartitionTrace.tla)",
            "All get_block call sequences (d <= 3, 4 held points and the block returned by the first call, repeated block numbers, an intermediate solve, "
            "both ways of creating a partition, a second partition of the same size) are replayed around REAL solves; TLC "
            "checks on the observed blocks and on the partition constraints that reached the solver: blocks sum to the point, repetition returns the same object, "
            "d = 1 is the identity, the constraint set is exactly the cross-block orthogonality relations, and every "
            "coordinate partition of Z^3 on a grid satisfies the generated constraints when fresh leaves are the projections.",
            "TLC 1.8; harness/drv_c15.py projection.",
            "6.15"),
    "C16": ("TLC model checking of spec/Access.tla (scenario x object kind x accessor; invalid option values) + replay on the "
            "real library + TLC trace validation of every outcome (AccessTrace.tla)",
            "Every access sequence of bounded length in every scenario (fresh, four unbounded and four infeasible models - among "
            "them a model without metric and a condition that prunes to a constant -, objects of a new model after another "
            "was solved; points, expressions, constraints, LMIs, zero-weight objects and the function's tables of "
            "multipliers) must raise the documented ValueError, solve must return None "
            "on models without finite optimum, invalid option values must end in an error; all enumerated by TLC and run.",
            "TLC 1.8; CLARABEL's infeasibility / unboundedness detection.",
            "6.16"),
    "C17": ("TLC model checking of spec/ClassHist.tla + replay and real solves + TLC trace validation of tables, names and "
            "multipliers against spec/Classes.tla (TablesTrace.tla)",
            "For every class, history and naming variant the tables of constraints and of duals are projected and TLC "
            "checks shape, labels, that entry (i,j) holds the documented condition of samples (i,j), that its dual is that "
            "object's multiplier, zeros elsewhere, and that names identify function, condition and pair.",
            "TLC 1.8; pandas DataFrame projection in harness/classes_common.py.",
            "6.17"),
}

EXPLORATION = {
    "C10": ("TLC as exact rational oracle for the docstring closed forms (spec/Rates.tla) and enumerator of parameter grids "
            "inside the documented ranges + the real examples run at every grid point + TLC clause-by-clause comparison",
            "The property compares floating-point numbers over continuous ranges: the model checker contributes the oracle "
            "(closed forms and validity ranges transcribed from the docstrings) and the grid; the real examples and the "
            "complexified variants are run with cvxpy+CLARABEL and compared by TLC (computed value against the docstring's "
            "closed form AND against the example's own returned value). A finite grid and one back-end: "
            "exploration, not a decision.",
            "TLC 1.8; hand transcription of 72 docstring rates; MOSEK absent (cvxpy back-end only).",
            "6.10"),
}

NOT_YET = {}


def main():
    props = [json.loads(l) for l in open(os.path.join(VERIF, "properties.jsonl"))]
    checks, na = [], []
    for p in props:
        pid = p["id"]
        if pid in CLAIMED or pid in EXPLORATION:
            tech, text, note, ref = (CLAIMED.get(pid) or EXPLORATION[pid])
            checks.append(dict(
                property_id=pid,
                quick_cmd="./check %s --tier quick" % pid,
                thorough_cmd="./check %s --tier thorough" % pid,
                evidence_file="/verif/evidence/%s.json" % pid,
                replay_cmd_template="./check %s --replay {path}" % pid,
                engine="tlc+driver",
                level_claimed=dict(category="model_checking" if pid in CLAIMED else "exploration", text=text,
                                   design_ref="DESIGN.md section " + ref),
                level_note=note,
                technique=tech))
        else:
            na.append(dict(property_id=pid, reason=NOT_YET.get(
                pid, "check not built yet in this round (planned, see DESIGN.md section 10); not claimed until it is sound")))
    man = dict(
        version=1,
        setup_cmd="./check setup",
        hooks=dict(guard="PEPIT_VERIF", enable="no source hooks are needed: the public objects expose the abstract state; "
                   "the harness imports PEPit from /repo's working tree (PYTHONPATH) and substitutes recording wrappers "
                   "through PEPit.wrappers.WRAPPERS at run time", baseline_off_cmd=BASE, source_commits=[], add_only=True),
        engines=[dict(name="tlc+driver", path="/verif/check",
                      serves_properties=sorted(list(CLAIMED) + list(EXPLORATION)),
                      kind_free_text="TLC 1.8 model checking of /verif/spec/*.tla, Python drivers replaying TLC behaviours "
                                     "on the real PEPit from /repo, TLC trace validation of the recorded traces")],
        checks=checks,
        notes="See DESIGN.md. Exit codes: 0 held, 1 violation (VIOLATION line), 2 machinery failure (never a verdict).",
        not_applicable=na)
    with open(os.path.join(VERIF, "MANIFEST.json"), "w") as f:
        json.dump(man, f, indent=1)
    try:
        import jsonschema
        jsonschema.validate(man, json.load(open("/root/.vp/MANIFEST.schema.json")))
        print("MANIFEST.json valid;", len(checks), "claimed,", len(na), "not claimed")
    except ImportError:
        print("jsonschema not available; MANIFEST.json written")


if __name__ == "__main__":
    main()
