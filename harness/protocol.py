"""The solve protocol machine (spec/Solve.tla): design check with vacuity control, and validation of the recorded
wrapper-call traces of real solves (spec/SolveProtoTrace.tla).  Called from the checks of the solve family."""
import os
from core import *
from core import verdicts as core_verdicts


def _cfg(maxfun, maxiter, dev=(), trace=False):
    c = ("CONSTANTS\n MaxFun = %d\n MaxIter = %d\n DevDualsLate = %s\n DevKeepFirstPrimal = %s\n" % (
        maxfun, maxiter, "TRUE" if "duals" in dev else "FALSE", "TRUE" if "primal" in dev else "FALSE"))
    if trace:
        return c + "INIT TInit\nNEXT TNext\nINVARIANT Report\nCHECK_DEADLOCK FALSE\n"
    return c + "INIT Init\nNEXT Next\n" + "".join("INVARIANT %s\n" % i for i in (
        "AllSent", "DualsFirst", "PrimalLast", "HeurPrepared", "SolveCount", "NoValueClean", "Returns")) + "CHECK_DEADLOCK FALSE\n"


def design(res, wd, tier):
    r = tlc("Solve", _cfg(2, 2 if tier == "quick" else 3), wd, coverage=True)
    if r["violated"]:
        raise Machinery("Solve.tla violates %s" % r["violated"])
    res.add_tlc("Solve(protocol, exhaustive)", r)
    for dev, inv in (("duals", "DualsFirst"), ("primal", "PrimalLast")):
        rr = tlc("Solve", _cfg(1, 1, dev=(dev,)), wd)
        res.extra.setdefault("protocol_dev_switch_counterexamples", {})[dev] = rr["violated"]
        if inv not in rr["violated"]:
            raise Machinery("Solve.tla with Dev(%s) does not violate %s: invariant vacuous" % (dev, inv))


def take(traces):
    """remove the protocol traces from the solve observations (SolveTrace.tla does not read them)"""
    out = []
    for ti, t in enumerate(traces):
        for si, o in enumerate(t.get("solves", [])):
            p = o.pop("proto", None)
            if p is not None:
                out.append(dict(model=p["model"], ev=p["ev"], _t=ti, _s=si))
    return out


def corrupted(protos):
    """binding control: traces that must be REJECTED (one logged call dropped, multipliers taken after the heuristic,
    the problem generated before the last constraint was sent)"""
    out = []
    heur = [p for p in protos if any(e["ev"] == "heuristic" for e in p["ev"]) and p["ev"][-1]["ret"] == "num"]
    plain = [p for p in protos if p["ev"] and p["ev"][-1]["ret"] == "num"]
    if plain:
        ev = list(plain[0]["ev"])
        k = max(i for i, e in enumerate(ev) if e["ev"] == "send")
        out.append((dict(model=plain[0]["model"], ev=ev[:k] + ev[k + 1:]), "generate"))
        g = [i for i, e in enumerate(ev) if e["ev"] == "generate"][0]
        ev2 = ev[:k] + [ev[g], ev[k]] + ev[g + 1:]
        out.append((dict(model=plain[0]["model"], ev=ev2), "generate"))
    if heur:
        ev = list(heur[0]["ev"])
        a = [i for i, e in enumerate(ev) if e["ev"] == "assign_duals"][0]
        z = [i for i, e in enumerate(ev) if e["ev"] == "eval"][0]
        ev2 = ev[:a] + ev[a + 1:z] + [ev[a]] + ev[z:]
        out.append((dict(model=heur[0]["model"], ev=ev2), "get_primal"))
    return out


def validate(res, protos, wd):
    """-> [(proto, [position, event or 'accepted', control state])]"""
    out = []
    bad = corrupted(protos)
    if bad:
        path = os.path.join(wd, "proto_bad.ndjson")
        write_ndjson(path, [b for b, _ in bad])
        r = tlc("SolveProtoTrace", _cfg(0, 0, trace=True), wd, env=dict(TRACE_FILE=path))
        v = core_verdicts(r["out"], len(bad))
        for i, (b, at) in enumerate(bad):
            if v[i + 1][0][1] != at:
                raise Machinery("SolveProtoTrace: a corrupted trace is not rejected at '%s' but gives %s" % (at, v[i + 1][0]))
        res.extra["protocol_binding_control"] = "%d corrupted traces rejected at the expected event" % len(bad)
        os.remove(path)
    B = 4000
    for s in range(0, len(protos), B):
        chunk = protos[s:s + B]
        path = os.path.join(wd, "proto_%d.ndjson" % s)
        write_ndjson(path, [dict(model=p["model"], ev=p["ev"]) for p in chunk])
        r = tlc("SolveProtoTrace", _cfg(0, 0, trace=True), wd, env=dict(TRACE_FILE=path))
        res.add_tlc("SolveProtoTrace", r)
        v = core_verdicts(r["out"], len(chunk))
        for i, p in enumerate(chunk):
            out.append((p, v[i + 1][0]))
        os.remove(path)
    return out


def run(res, pid, traces, wd, tier):
    """design check + validation of every recorded solve of this run; returns the number of accepted traces"""
    protos = take(traces)
    if pid not in ("C14", "C05") or not protos:
        return 0
    design(res, wd, tier)
    ok = 0
    rej = {}
    for p, v in validate(res, protos, wd):
        if v[1] == "accepted":
            ok += 1
            continue
        t = traces[p["_t"]]
        where = "solve %d of %s" % (p["_s"] + 1, t.get("item", {}).get("prog"))
        what = "event %d '%s' is not a step of spec/Solve.tla in control state '%s'" % (v[0], v[1], v[2])
        if pid == "C14" and v[1] == "assign_duals":
            res.violation("C14|protocol|multipliers-assigned-out-of-order", "%s: %s" % (where, what), t["item"])
        else:
            rej[(v[1], v[2])] = rej.get((v[1], v[2]), 0) + 1
            if len(res.drift) < 40:
                res.drift.append("solve protocol: %s: %s" % (where, what))
    res.extra["protocol_traces"] = dict(validated=len(protos), accepted=ok,
                                        rejected={"%s@%s" % k: n for k, n in rej.items()})
    return ok
