"""Stand-in for the subset of the MOSEK Python API used by PEPit.wrappers.mosek_wrapper (prototype).
Records every Task call; optimize() solves the denoted SDP with cvxpy/CLARABEL and answers in MOSEK's
documented conventions for maximisation/minimisation problems."""
import enum, numpy as np

CALLS = []          # global call log (list of (name, args))

class Error(Exception):
    pass

class _E(enum.Enum):
    pass
class boundkey(enum.Enum):
    lo = 0; up = 1; fx = 2; fr = 3; ra = 4
class soltype(enum.Enum):
    bas = 0; itr = 1; itg = 2
class objsense(enum.Enum):
    minimize = 0; maximize = 1
class streamtype(enum.Enum):
    log = 0; msg = 1; err = 2; wrn = 3
class feature(enum.Enum):
    pts = 0; pton = 1
class prosta(enum.Enum):
    unknown = 0; prim_and_dual_feas = 1; prim_infeas = 2; dual_infeas = 3

def _log(name, *args):
    def conv(a):
        if isinstance(a, np.ndarray): return a.tolist()
        if isinstance(a, (np.integer,)): return int(a)
        if isinstance(a, (np.floating,)): return float(a)
        if isinstance(a, enum.Enum): return a.name
        if isinstance(a, (list, tuple)): return [conv(x) for x in a]
        return a
    CALLS.append((name, [conv(a) for a in args]))

class Env:
    def __init__(self): pass
    def Task(self, *a): return Task()
    def checkoutlicense(self, feat): pass
    def expirylicenses(self): return 1000

class Task:
    def __init__(self):
        self.bardim = []; self.nvar = 0; self.ncon = 0
        self.vb = []; self.cb = []
        self.symmats = []            # (dim, i, j, v)
        self.bara = {}               # (row, barvar) -> [(matidx, w)]
        self.a = {}                  # (row, var) -> val
        self.c = {}; self.barc = {}
        self.sense = objsense.minimize
        self.sol = None
        _log('Task')
    def set_Stream(self, *a): pass
    def solutionsummary(self, *a): pass
    def appendbarvars(self, dims):
        _log('appendbarvars', dims)
        for d in dims: self.bardim.append(int(d))
    def appendvars(self, n):
        _log('appendvars', n)
        for _ in range(int(n)): self.vb.append((boundkey.fx, 0.0, 0.0))
        self.nvar += int(n)
    def putvarbound(self, j, bk, lo, hi):
        _log('putvarbound', j, bk, lo, hi)
        if not 0 <= j < self.nvar: raise Error('putvarbound: index out of range')
        self.vb[j] = (bk, lo, hi)
    def getnumcon(self): return self.ncon
    def getmaxnumvar(self): return self.nvar
    def appendcons(self, n):
        _log('appendcons', n)
        for _ in range(int(n)): self.cb.append((boundkey.fr, 0.0, 0.0))
        self.ncon += int(n)
    def appendsparsesymmat(self, dim, subi, subj, val):
        subi = [int(x) for x in np.asarray(subi).ravel()]; subj = [int(x) for x in np.asarray(subj).ravel()]
        val = [float(x) for x in np.asarray(val).ravel()]
        _log('appendsparsesymmat', dim, subi, subj, val)
        if not (len(subi) == len(subj) == len(val)): raise Error('appendsparsesymmat: length mismatch')
        for i, j in zip(subi, subj):
            if not (0 <= j <= i < dim): raise Error('appendsparsesymmat: only lower triangular entries, got (%d,%d) dim %d' % (i, j, dim))
        if len(set(zip(subi, subj))) != len(subi): raise Error('appendsparsesymmat: duplicate entries')
        self.symmats.append((int(dim), subi, subj, val))
        return len(self.symmats) - 1
    def putbaraij(self, i, j, sub, weights):
        _log('putbaraij', i, j, sub, weights)
        if not 0 <= i < self.ncon: raise Error('putbaraij: constraint index %d out of range' % i)
        if not 0 <= j < len(self.bardim): raise Error('putbaraij: barvar index %d out of range (have %d)' % (j, len(self.bardim)))
        for m in sub:
            if self.symmats[m][0] != self.bardim[j]: raise Error('putbaraij: matrix dim %d != barvar dim %d' % (self.symmats[m][0], self.bardim[j]))
        self.bara[(int(i), int(j))] = list(zip([int(s) for s in sub], [float(w) for w in weights]))
    def putaijlist(self, subi, subj, val):
        subi = np.asarray(subi).ravel(); subj = np.asarray(subj).ravel(); val = np.asarray(val).ravel()
        _log('putaijlist', subi, subj, val)
        for i, j, v in zip(subi, subj, val):
            if not 0 <= int(i) < self.ncon or not 0 <= int(j) < self.nvar: raise Error('putaijlist: index out of range')
            self.a[(int(i), int(j))] = float(v)
    def putconbound(self, i, bk, lo, hi):
        _log('putconbound', i, bk, lo, hi)
        self.cb[int(i)] = (bk, float(lo), float(hi))
    def putclist(self, subj, val):
        subj = np.asarray(subj).ravel(); val = np.asarray(val).ravel()
        _log('putclist', subj, val)
        for j, v in zip(subj, val):
            if not 0 <= int(j) < self.nvar: raise Error('putclist: index out of range')
            self.c[int(j)] = float(v)
    def putbarcj(self, j, sub, weights):
        _log('putbarcj', j, sub, weights)
        self.barc[int(j)] = list(zip([int(s) for s in sub], [float(w) for w in weights]))
    def putobjsense(self, s):
        _log('putobjsense', s); self.sense = s
    def _mat(self, idx):
        dim, I, J, V = self.symmats[idx]
        M = np.zeros((dim, dim))
        for i, j, v in zip(I, J, V):
            M[i, j] = v; M[j, i] = v
        return M
    def optimize(self, **kw):
        import cvxpy as cp
        _log('optimize')
        x = cp.Variable(self.nvar) if self.nvar else None
        X = [cp.Variable((d, d), symmetric=True) for d in self.bardim]
        cons = []; psd = []
        for Xj in X:
            k = (Xj >> 0); cons.append(k); psd.append(k)
        vcons = {}
        for j, (bk, lo, hi) in enumerate(self.vb):
            if bk == boundkey.fx: vcons[j] = (x[j] == lo); cons.append(vcons[j])
            elif bk == boundkey.lo: cons.append(x[j] >= lo)
            elif bk == boundkey.up: cons.append(x[j] <= hi)
            elif bk == boundkey.ra: cons += [x[j] >= lo, x[j] <= hi]
        rows = []
        for i in range(self.ncon):
            e = 0
            for (r, j), v in self.a.items():
                if r == i: e = e + v * x[j]
            for (r, j), lst in self.bara.items():
                if r == i:
                    for m, w in lst: e = e + w * cp.sum(cp.multiply(self._mat(m), X[j]))
            rows.append(e)
        rowcons = []
        for i, (bk, lo, hi) in enumerate(self.cb):
            e = rows[i]
            if isinstance(e, (int, float)): e = cp.Constant(e) + 0 * (x[0] if x is not None else 0)
            if bk == boundkey.up: k = [(None, e <= hi)]
            elif bk == boundkey.lo: k = [(e >= lo, None)]
            elif bk == boundkey.fx: k = [('eq', e == lo)]
            elif bk == boundkey.ra: k = [(e >= lo, e <= hi)]
            else: k = []
            rowcons.append(k)
            for pair in k:
                for c_ in pair:
                    if c_ is not None and not isinstance(c_, str): cons.append(c_)
        obj = 0
        for j, v in self.c.items(): obj = obj + v * x[j]
        for j, lst in self.barc.items():
            for m, w in lst: obj = obj + w * cp.sum(cp.multiply(self._mat(m), X[j]))
        if isinstance(obj, (int, float)): obj = cp.Constant(obj)
        mx = self.sense == objsense.maximize
        prob = cp.Problem(cp.Maximize(obj) if mx else cp.Minimize(obj), cons)
        try:
            prob.solve(solver='CLARABEL')
            self.status = prob.status
        except cp.error.SolverError:
            # CLARABEL gives up on some infeasible problems: a second solver may still certify infeasibility /
            # unboundedness; any other outcome of the retry is reported as inaccurate (the driver then does not judge)
            try:
                prob.solve(solver='SCS', eps=1e-8, max_iters=20000)
                self.status = prob.status if prob.status in ('infeasible', 'unbounded') else 'optimal_inaccurate'
            except cp.error.SolverError:
                raise
        if prob.status not in ('optimal', 'optimal_inaccurate'):
            self.sol = None; return
        sgn = 1.0 if mx else -1.0       # y defined through  c - A^T y (+..) = 0 in both senses
        y = np.zeros(self.ncon)
        for i, k in enumerate(rowcons):
            for pair in k:
                if pair[0] == 'eq': y[i] = sgn * float(pair[1].dual_value)
                else:
                    lo_c, up_c = pair
                    if up_c is not None: y[i] += sgn * float(up_c.dual_value)
                    if lo_c is not None: y[i] -= sgn * float(lo_c.dual_value)
        self.sol = dict(xx=np.array(x.value, dtype=float), barx=[np.array(Xj.value) for Xj in X], y=y,
                        bars=[-sgn * np.array(k.dual_value) for k in psd])
    @staticmethod
    def _pack(M):
        n = M.shape[0]; out = []
        for j in range(n):
            for i in range(j, n): out.append(M[i, j])
        return np.array(out)
    def _need(self):
        if self.sol is None: raise Error('solution undefined')
    def getxx(self, st): self._need(); _log('getxx', self.sol['xx']); return self.sol['xx'].copy()
    def getbarxj(self, st, j):
        self._need()
        if not 0 <= j < len(self.bardim): _log('getbarxj', j, []); raise Error('getbarxj: barvar index out of range')
        _log('getbarxj', j, self._pack(self.sol['barx'][j])); return self._pack(self.sol['barx'][j])
    def gety(self, st): self._need(); _log('gety', self.sol['y']); return self.sol['y'].copy()
    def getbarsj(self, st, j):
        self._need()
        if not 0 <= j < len(self.bardim): _log('getbarsj', j, []); raise Error('getbarsj: barvar index out of range')
        _log('getbarsj', j, self._pack(self.sol['bars'][j])); return self._pack(self.sol['bars'][j])
    def getprosta(self, st): return prosta.prim_and_dual_feas if self.sol is not None else prosta.unknown
