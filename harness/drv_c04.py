"""C04 driver.
run(item):      replay one declaration history (spec/ClassHist.tla) on one real class with one parameter point, call
                set_class_constraints(), project samples / class constraints / class LMIs / tables.
run_perm(item): build one small solvable model whose declarations are made in the given order, solve it with the real
                library and return the value (fixed point) -- the end-to-end order-independence clause.
"""
import warnings
import classes_common as cc
import proj


def run(item):
    import io, contextlib
    warnings.simplefilter("ignore")
    cls, P, h = item["cls"], item["P"], item["h"]
    with contextlib.redirect_stdout(io.StringIO()):      # the classes print advice for edge parameters (mu = 0, ...)
        pep, f, part, exc = cc.replay(cls, P, h, names=item.get("names", "none"))
        if not exc and item.get("via_pep") and f.list_of_points:
            # the class constraints as a SOLVE generates them (pep.py decides for which functions, in which order with
            # the partitions): any metric will do, the outcome of the solve itself is not looked at
            try:
                pep.set_performance_metric(f.list_of_points[0][0] ** 2)
                pep.solve(verbose=0, solver="CLARABEL")
            except Exception:
                pass
        elif not exc:
            try:
                f.set_class_constraints()
            except Exception as e:      # observation
                exc = "%s@set_class_constraints" % type(e).__name__
    out = cc.project(cls, P, h, f, part, exc, names=item.get("names", "none"))
    out["kind"] = "cons"
    out["via_pep"] = 1 if item.get("via_pep") else 0
    out["pi"] = item.get("pi", 0)
    return out


# ---------------------------------------------------------------------------------- end-to-end models
# metric per class: "f" = f(x1) - f(xs); "g" = |A x1|^2; "ip" = -<A x1, x1 - xs>; "lin" = |A x1|^2 (no stationary point)
METRIC = {
    "ConvexFunction": "f", "StronglyConvexFunction": "f", "SmoothFunction": "f", "SmoothConvexFunction": "f",
    "SmoothStronglyConvexFunction": "f", "ConvexLipschitzFunction": "f", "SmoothConvexLipschitzFunction": "f",
    "ConvexQGFunction": "f", "RsiEbFunction": "g", "ConvexIndicatorFunction": "ipx", "ConvexSupportFunction": "f",
    "SmoothStronglyConvexQuadraticFunction": "f", "BlockSmoothConvexFunction": "f",
    "CocoerciveOperator": "g", "CocoerciveStronglyMonotoneOperator": "g", "LinearOperator": "lin",
    "LipschitzOperator": "g", "LipschitzStronglyMonotoneOperator": "g", "MonotoneOperator": "ip",
    "NegativelyComonotoneOperator": "ip", "NonexpansiveOperator": "g", "SkewSymmetricLinearOperator": "lin",
    "StronglyMonotoneOperator": "ip", "SymmetricLinearOperator": "lin",
}
# classes whose (sub)gradients need an explicit bound for the model to be bounded
GBOUND = {"ConvexFunction", "StronglyConvexFunction", "ConvexQGFunction", "ConvexIndicatorFunction",
          "ConvexSupportFunction", "MonotoneOperator", "NegativelyComonotoneOperator", "StronglyMonotoneOperator"}


def build(cls, P, decls, order, names="none"):
    """Declarations (tokens) are executed in the given order; everything else is order-free:
       'A0','A1','A2' oracle at the pre-created base point P0/P1/P2; 'S' stationary_point(); 'X' fixed_point();
       'T1' adjoint oracle at A(P1) (LinearOperator; A1 is evaluated first if it was not yet).
    Afterwards: |Pk - xs|^2 <= 1 (|Pk|^2 <= 1 without stationary point), optional gradient bounds, metric."""
    from PEPit import PEP, Point
    from PEPit.functions import ConvexFunction
    pep = PEP()
    if names == "mixed":
        pep.declare_function(ConvexFunction)
    f, part = cc.declare(pep, cls, P, fname="fn" if names == "all" else None)
    cc.late_name(f, names, len(decls))
    base = [Point() for _ in range(3)]
    if names != "none":
        for k, b in enumerate(base):
            nm = cc.pname(names, k)
            if nm:
                b.set_name(nm)
    res = {}
    xs = fs = None
    grads = []
    for i in order:
        tok = decls[i - 1]
        if tok[0] == "A":
            k = int(tok[1])
            g, v = f.oracle(base[k])
            res[k] = (g, v)
            grads.append(g)
        elif tok == "S":
            xs, _, fs = f.stationary_point(return_gradient_and_function_value=True)
            if names == "all" and cls != "SmoothStronglyConvexQuadraticFunction":
                xs.set_name("ps")
            if names == "mixed" and cls != "SmoothStronglyConvexQuadraticFunction":
                xs.set_name("q")                   # the same name as the base point P0: labels are not identifiers
        elif tok == "X":
            xf, _, _ = f.fixed_point()
            if names == "mixed":
                xf.set_name("q")
            pep.set_initial_condition(xf ** 2 <= 1)
        elif tok == "T1":
            y = f.gradient(base[1])
            vv = f.T.gradient(y)
            pep.set_initial_condition(vv ** 2 <= 4)
    used = sorted(res)
    for k in used:
        ref = base[k] - xs if xs is not None else base[k]
        pep.set_initial_condition(ref ** 2 <= 1)
    if xs is not None:
        pep.set_initial_condition(xs ** 2 <= 1)
    if cls in GBOUND:
        for g in grads:
            pep.set_initial_condition(g ** 2 <= 1)
    g1, f1 = res[1]
    m = METRIC[cls]
    if m == "f":
        pep.set_performance_metric(f1 - fs)
    elif m in ("g", "lin"):
        pep.set_performance_metric(g1 ** 2)
    elif m == "ip":
        pep.set_performance_metric(-(g1 * (base[1] - xs)))
    elif m == "ipx":
        g0, _ = res[0]
        pep.set_performance_metric(g0 * (base[1] - base[0]) + 1)
    return pep, f, part


def solve(pep):
    """-> (status, value fixed point).  status: ok | none | fail:<why> (inconclusive)"""
    import io, contextlib
    try:
        with contextlib.redirect_stdout(io.StringIO()):
            val = pep.solve(wrapper="cvxpy", solver="CLARABEL", verbose=0)
    except AssertionError as e:      # check_feasibility asserts on inaccurate solutions
        return "fail:AssertionError", 0
    except Exception as e:
        return "fail:" + type(e).__name__, 0
    st = getattr(pep.wrapper, "prob", None)
    status = st.status if st is not None else "?"
    if val is None:
        if status in ("unbounded", "infeasible", "infeasible_or_unbounded"):
            return "none", 0
        return "fail:" + str(status), 0
    if status != "optimal":
        return "fail:" + str(status), 0
    try:
        return "ok", proj.fix(val)
    except proj.Inexact:
        return "fail:range", 0


def run_perm(item):
    import io, contextlib
    warnings.simplefilter("ignore")
    with contextlib.redirect_stdout(io.StringIO()):
        pep, f, part = build(item["cls"], item["P"], item["decls"], item["order"])
    st, val = solve(pep)
    return dict(st=st, val=val, ncons=len(f.list_of_class_constraints))
