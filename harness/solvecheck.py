"""Shared pipeline of the solve-based checks (C01, C02, C05, C13, C14):
   Pep.tla (model checking + program export) -> drv_solve (real solves) -> SolveTrace.tla (verdict per clause)."""
import json, os, hashlib
from core import *
from core import verdicts as core_verdicts

CLASSNAME = {1: "SmoothStronglyConvexFunction", 2: "SmoothConvexFunction", 3: "ConvexFunction",
             4: "SmoothStronglyConvexQuadraticFunction", 5: "StronglyMonotoneOperator", 6: "SymmetricLinearOperator",
             7: "SkewSymmetricLinearOperator", 8: "LinearOperator", 9: "ConvexQGFunction",
             10: "LipschitzStronglyMonotoneOperator", 11: "ConvexLipschitzFunction", 12: "SmoothFunction"}


ALLF = ("steps", "comp", "cons", "lmi", "metrics", "part", "lmimetric", "unsent")


def pep_cfg(maxf, maxs, classes, wrappers=("cvxpy",), dev=(), emit=True, invs=True, plain=False, allowed=ALLF):
    d = lambda n: "TRUE" if n in dev else "FALSE"
    s = ("CONSTANTS\n MaxFeatures = %d\n MaxSolves = %d\n Classes = {%s}\n DevF3 = %s\n DevF4 = %s\n DevF5 = %s\n"
         " DevSkip = %s\n Wrappers = {%s}\n Plain = %s\n Allowed = {%s}\nINIT Init\nNEXT Next\nCHECK_DEADLOCK FALSE\n" % (
             maxf, maxs, ", ".join(str(c) for c in classes), d("F3"), d("F4"), d("F5"), d("Skip"),
             ", ".join('"%s"' % w for w in wrappers), "TRUE" if plain else "FALSE", ", ".join('"%s"' % a for a in allowed)))
    if invs:
        s += "INVARIANT DualMap\nINVARIANT SentOnce\nINVARIANT Fresh\nINVARIANT NativeShape\n"
    if emit:
        s += "INVARIANT Emit\n"
    return s


TRACE_CFG = "CONSTANTS\n TolAbs = 30\n TolRelPpm = 30\nINIT TInit\nNEXT Step\nINVARIANT Report\nCHECK_DEADLOCK FALSE\n"


def _progs_from(out):
    seen, res = set(), []
    for rec in split_prints(out):
        if isinstance(rec, str) and rec not in seen:
            seen.add(rec)
            res.append(json.loads(rec))
    return res


def _maximal(progs):
    """drop programs whose solve sequence is a proper prefix of another program with the same model"""
    keyed = {}
    for p in progs:
        keyed.setdefault(json.dumps(p["prog"], sort_keys=True), []).append(p)
    out = []
    for k, lst in keyed.items():
        seqs = [json.dumps(p["solves"], sort_keys=True)[:-1] for p in lst]
        for p, s in zip(lst, seqs):
            if not any(o != s and o.startswith(s) for o in seqs):
                out.append(p)
    return out


def generate(res, tier, wd, want, wrappers=("cvxpy",)):
    """Model-check Pep.tla (design invariants, deviation switches) and export programs.
    want(prog_record) -> bool selects the programs this property needs."""
    classes_all = list(range(1, 13))
    # (1) exhaustive on the design: invariants hold for the ideal design
    r = tlc("Pep", pep_cfg(2 if tier == "quick" else 3, 2, [4] if tier == "quick" else [1, 4, 9],
                           wrappers, emit=False), wd, coverage=True)
    if r["violated"]:
        raise Machinery("Pep.tla (ideal design) violates %s" % r["violated"])
    res.add_tlc("Pep(design, exhaustive)", r)
    # (2) the named deviations of the implementation must break the invariants of the design (vacuity control)
    for dev, inv in (("F3", "SentOnce"), ("F4", "SentOnce"), ("F5", "Fresh"), ("Skip", "DualMap")):
        rr = tlc("Pep", pep_cfg(2, 3, [4], wrappers, dev=(dev,), emit=False), wd)
        res.extra.setdefault("dev_switch_counterexamples", {})[dev] = rr["violated"]
        if inv not in rr["violated"]:
            raise Machinery("Pep.tla with Dev%s does not violate %s: invariant vacuous" % (dev, inv))
    # (3) programs: exhaustive one-feature programs for every class with one plain solve + sampled richer behaviours
    r = tlc("Pep", pep_cfg(1, 1, classes_all, wrappers, invs=False), wd)
    res.add_tlc("Pep(export: <=1 feature, 1 solve, all classes)", r)
    progs = _progs_from(r["out"])
    # every single feature is exercised at least on one function class and one operator class, whatever the cap
    progs = [dict(p, _must=1) if p["prog"]["cls"] in (1, 5) and p["solves"][0]["heur"] == "none" and p["solves"][0]["mode"] == "dual"
             and p["solves"][0]["verbose"] == 0 else p for p in progs]
    # (3b) every edit between two plain solves, for every class, without and with a partition (exhaustive)
    r = tlc("Pep", pep_cfg(1, 2, classes_all, wrappers, invs=False, plain=True, allowed=("part",)), wd)
    res.add_tlc("Pep(export: every edit between two plain solves, all classes, +/- partition)", r)
    progs += [dict(p, _must=1) for p in _progs_from(r["out"]) if len(p["solves"]) == 2]
    # (3c) the LMI-as-metric shapes (the off-diagonal variable(s) of the first LMI are the metric(s)), exhaustive
    r = tlc("Pep", pep_cfg(3, 1, [1, 2, 5], wrappers, invs=False, plain=True, allowed=("lmi", "lmimetric", "metrics")), wd)
    res.add_tlc("Pep(export: LMI shapes x LMI-as-metric x one/two metrics)", r)
    progs += [dict(p, _must=1) for p in _progs_from(r["out"]) if p["prog"]["lmimetric"] == 1 and len(p["prog"]["lmis"]) == 1]
    # (3d) every pair of LMI shapes on one model (two function-level LMIs, re-used buffers, ...), exhaustive
    r = tlc("Pep", pep_cfg(2, 1, [1], wrappers, invs=False, plain=True, allowed=("lmi",)), wd)
    res.add_tlc("Pep(export: pairs of LMI shapes)", r)
    progs += [dict(p, _must=1) for p in _progs_from(r["out"]) if len(p["prog"]["lmis"]) == 2]
    n = 1500 if tier == "quick" else 6000
    r = tlc("Pep", pep_cfg(3, 3, classes_all, wrappers, invs=False), wd, workers=1, simulate="num=%d" % n,
            extra=["-depth", "7", "-seed", str(seed() + 3)])
    res.add_tlc("Pep(export: simulate)", r)
    progs += _progs_from(r["out"])
    progs = [p for p in _maximal(progs) if want(p)]
    return progs


def fix_opts(p):
    """abstract solve options -> concrete driver options"""
    out = []
    for o in p["solves"]:
        q = dict(o)
        q["solver"] = "CLARABEL"
        if q["heur"] != "none":
            # the stated tolerance varies with the program: the default 1e-4, a smaller one, and exactly 0 (trace only)
            hsh = int(hashlib.sha1(json.dumps(p["prog"], sort_keys=True).encode()).hexdigest(), 16)
            q["tol"] = (1e-4, 2.0 ** -17, 0.0 if q["heur"] == "trace" else 2.0 ** -17)[hsh % 3]
            q["reg"] = 1e-1 if q["heur"].startswith("logdet") else 1e-3
        out.append(q)
    return dict(prog=p["prog"], solves=out)


def drive(items, extra_paths=None):
    return pool_map("drv_solve", "run", items, extra_paths=extra_paths)


def validate(res, traces, wd):
    """returns list of (trace, [clauses]) for conclusive traces; counts inconclusive ones"""
    good = [t for t in traces if t["solves"]]
    res.inconclusive += sum(1 for t in traces if t["note"].startswith("inconclusive"))
    out = []
    for t in traces:
        if t["note"].startswith("raises:") and not t["solves"]:
            # solve() raised and nothing could be observed afterwards: one pseudo-trace with the crash clause
            t["solves"] = []
            out.append((t, [[0, "ALL", "solve-raises: " + t["note"][7:], 0]]))
    good = [t for t in good if not (t["note"].startswith("raises:") and not t["solves"])]
    B = 400
    for s in range(0, len(good), B):
        chunk = good[s:s + B]
        path = os.path.join(wd, "solve_%d.ndjson" % s)
        write_ndjson(path, chunk)
        r = tlc("SolveTrace", TRACE_CFG, wd, env=dict(TRACE_FILE=path))
        res.add_tlc("SolveTrace", r)
        v = core_verdicts(r["out"], len(chunk))
        out += [(t, v[i + 1]) for i, t in enumerate(chunk)]
        os.remove(path)
    if traces and res.inconclusive * 5 > len(traces):
        raise Machinery("more than 20%% of the solves were inconclusive (%d of %d)" % (res.inconclusive, len(traces)))
    return out


def progstr(t):
    p = t["prog"]
    s = "%s steps=%s" % (CLASSNAME.get(p["cls"], p["cls"]), p["steps"])
    for k in ("comp", "part", "lmimetric", "unsent_lmi"):
        if p.get(k):
            s += " " + k
    if p.get("ucons"):
        s += " cons=" + ",".join(p["ucons"])
    if p.get("lmis"):
        s += " lmis=" + ",".join(p["lmis"])
    if p.get("metrics", 1) > 1:
        s += " metrics=2"
    return s


def solvestr(o):
    o = o["opts"] if "opts" in o else o
    s = "solve(%s,%s" % (o.get("wrapper", "cvxpy"), o.get("mode", "dual"))
    if o.get("heur", "none") != "none":
        s += "," + o["heur"]
    return s + ")"


def replay_item(t):
    return dict(kind="pep-program", prog=t["prog"], solves=[dict(o["opts"], edit=o["edit"]) for o in t["solves"]])


def run_family(pid, tier, rule, select, want=lambda p: True, cap=None, wrappers=("cvxpy",), extra_paths=None,
               assumptions=(), design="6", always=(), transform=None):
    """select(trace, clause) -> None | (signature, text): maps a SolveTrace clause [step, prop, name, detail] to a
    violation of property `pid` (or ignores it)."""
    res = Result(pid, tier)
    wd = workdir(pid)
    res.rule = rule
    progs = generate(res, tier, wd, want, wrappers)
    if cap and len(progs) > cap[tier]:
        # stratified, seeded sample: plain single solves / heuristic solves / several solves each get their share
        import random
        rnd = random.Random(seed() + 1)
        strata = {"plain": [], "heur": [], "multi": []}
        must = [p for p in progs if p.get("_must")]
        for p in [q for q in progs if not q.get("_must")]:
            if len(p["solves"]) > 1:
                strata["multi"].append(p)
            elif p["solves"][0]["heur"] != "none":
                strata["heur"].append(p)
            else:
                strata["plain"].append(p)
        for v in strata.values():
            rnd.shuffle(v)
        share = dict(plain=0.5, heur=0.25, multi=0.25)
        live = [k for k in strata if strata[k]]
        tot = sum(share[k] for k in live)
        out, left = [], []
        room = max(0, cap[tier] - len(must))
        for k in live:
            n = int(room * share[k] / tot)
            out += strata[k][:n]
            left += strata[k][n:]
        rnd.shuffle(left)
        progs = must + (out + left)[:max(0, cap[tier] - len(must))]
        res.extra["program_strata"] = {k: len(v) for k, v in strata.items()}
    if transform:
        progs = [transform(p) for p in progs]
    progs = list(always) + progs
    items = [fix_opts(p) for p in progs]
    traces = drive(items, extra_paths)
    import protocol
    n_proto = protocol.run(res, pid, traces, wd, tier)       # spec/Solve.tla: every recorded solve, call by call
    res.traces = res.evaluations = len([t for t in traces if t["solves"]])
    res.evaluations += n_proto
    maxerr = 0
    nontriv = set()
    for t, clauses in validate(res, traces, wd):
        key = progstr(t) + " ; " + " ; ".join(solvestr(o) + ("" if o["edit"] == "none" else "[edit:%s]" % o["edit"]) for o in t["solves"])
        if any(o["ret"] == "num" for o in t["solves"]):
            nontriv.add(key)
        t["_clauses"] = clauses
        for c in clauses:
            if c[1] == "INFO":
                maxerr = max(maxerr, c[3])
                continue
            m = select(t, c)
            if m:
                res.violation(m[0], "%s: %s [model: %s]" % (m[0], m[1], key), t["item"])
    res.distinct_nontrivial = len(nontriv)
    res.extra["max_certificate_identity_error_micro_units"] = maxerr
    good = [t for t in traces if t["solves"]]
    res.samples = [dict(model=progstr(t), solves=[solvestr(o) for o in t["solves"]],
                        returned=[o["retv"] / 1e6 if o["ret"] == "num" else None for o in t["solves"]],
                        leaf_points=t["solves"][-1]["np"], items_sent=len(t["solves"][-1]["sent"]))
                   for t in good[:: max(1, len(good) // 5)][:5]]
    res.assumptions = ["solver output is judged with tolerance 3e-5 absolute + 3e-5 relative + exact quantisation bound",
                       "SolverError / *_inaccurate statuses are inconclusive, never violations",
                       "smallest eigenvalues and the PSD projection of the Gram matrix are numpy sensors"] + list(assumptions)
    res.trusted = ["TLC 1.8", "cvxpy + CLARABEL (solver actually run)", "numpy.linalg.eigvalsh (sensor)",
                   "harness/pepsolve.py projection and native probing"]
    rmwork(pid)
    return finish(res)


def replay_family(pid, path, select, extra_paths=None):
    rp = json.load(open(path))["replay"]
    res = Result(pid, "quick")
    wd = workdir(pid + "-replay")
    traces = drive([rp], extra_paths)
    import protocol
    protocol.run(res, pid, traces, wd, "quick")
    res.traces = len([t for t in traces if t["solves"]])
    r = tlc("Pep", pep_cfg(1, 1, [1], emit=False), wd)
    res.add_tlc("Pep(design, small)", r)
    for t, clauses in validate(res, traces, wd):
        t["_clauses"] = clauses
        for c in clauses:
            if c[1] == "INFO":
                continue
            m = select(t, c)
            if m:
                res.violation(m[0], m[1], t["item"])
    res.samples = [rp]
    res.distinct_nontrivial = 1
    rmwork(pid + "-replay")
    return finish(res)


def crash(t, c, pid, only_wrapper=None):
    """A solve of a valid model raised an exception (clause family ALL): a violation for the properties that
    promise a result.  Returns (signature, text) or None."""
    step, prop, name, detail = c
    if prop != "ALL":
        return None
    k = step - 1 if step >= 1 else len(t["solves"])
    opts = t["item"]["solves"][min(k, len(t["item"]["solves"]) - 1)]
    w = opts.get("wrapper", "cvxpy")
    if only_wrapper and w != only_wrapper:
        return None
    return "%s|%s|%s" % (pid, name, w), "solve() of a valid model raised instead of returning: %s %s" % (name, t.get("raise_msg", ""))
