"""Building PEP models from abstract programs, solving them with the real library under recording wrappers, and
projecting everything a solve exposes (declared items, what was sent, the native solver problem, multipliers,
primal values) to integers/strings for TLC.  Runs inside driver worker processes (PEPit imported from /repo)."""
import math, os, sys
from fractions import Fraction
import numpy as np
import proj

U = proj.U
CLAMP = 2000 * U


def fx(x):
    x = float(x)
    if math.isnan(x):
        return CLAMP + 1
    v = x * U
    if v > CLAMP:
        return CLAMP
    if v < -CLAMP:
        return -CLAMP
    return int(round(v))


def fxm(M):
    M = np.asarray(M, dtype=float)
    return [[fx(v) for v in row] for row in M]


# ------------------------------------------------------------------------------------------------ recording wrappers

LOG = []          # per-process event log of the wrappers (cleared by the driver before each solve)
PROTO = []        # per-process protocol trace of one solve: every wrapper method call, in order (spec/Solve.tla)
PROTO_HEAD = [None]
CURRENT_PEP = [None]
_DEPTH = [0]


def _ev(ev, **kw):
    """one protocol event per OUTERMOST wrapper / PEP method call (nested calls are the callee's business)"""
    if _DEPTH[0] == 0:
        d = dict(ev=ev, heur="", mode="", srcs=[], fin=0, ret="", n=0)
        d.update(kw)
        PROTO.append(d)


class _nested(object):
    def __enter__(self):
        _DEPTH[0] += 1

    def __exit__(self, *a):
        _DEPTH[0] -= 1


def _memberships(o, lmi):
    """every declared source the sent object belongs to (identity), as tokens of spec/Solve.tla's plan"""
    from PEPit.block_partition import BlockPartition
    pep = CURRENT_PEP[0]
    out = []
    if pep is None:
        return out
    suf = "lmi" if lmi else ""
    if any(o is c for c in (pep.list_of_psd if lmi else pep.list_of_constraints)):
        out.append("pep" + suf)
    fs = all_functions()
    for i, f in enumerate([f for f in fs if f.get_is_leaf()]):
        if any(o is c for c in (f.list_of_class_psd if lmi else f.list_of_class_constraints)):
            out.append("class%s:%d" % (suf, i + 1))
    for j, f in enumerate([f for f in fs if len(f.list_of_constraints) > 0 or len(f.list_of_psd) > 0]):
        if any(o is c for c in (f.list_of_psd if lmi else f.list_of_constraints)):
            out.append("fun%s:%d" % (suf, j + 1))
    if not lmi:
        for q, part in enumerate(BlockPartition.list_of_partitions):
            if any(o is c for c in part.list_of_constraints):
                out.append("part:%d" % (q + 1))
    return out or ["metric"]


def _proto_head():
    """the declared model at the moment the main variables are set (class and partition constraints are generated)"""
    from PEPit.block_partition import BlockPartition
    pep = CURRENT_PEP[0]
    fs = all_functions()
    return dict(metrics=len(pep.list_of_performance_metrics), pepcons=len(pep.list_of_constraints), peplmis=len(pep.list_of_psd),
                leafs=[[len(f.list_of_class_constraints), len(f.list_of_class_psd)] for f in fs if f.get_is_leaf()],
                fwc=[[len(f.list_of_constraints), len(f.list_of_psd)] for f in fs
                     if len(f.list_of_constraints) > 0 or len(f.list_of_psd) > 0],
                parts=[len(q.list_of_constraints) for q in BlockPartition.list_of_partitions])


def install_recording_wrappers():
    """Substitute, through PEPit's own registry, recording subclasses of the real wrappers (no repo source changes)."""
    import PEPit.wrappers as W
    if getattr(W, "_verif_installed", False):
        return
    base_c, base_m = W.WRAPPERS["cvxpy"], W.WRAPPERS["mosek"]

    def mk(base, name):
        class Rec(base):
            def set_main_variables(self, *a, **k):
                if _DEPTH[0] == 0 and CURRENT_PEP[0] is not None:
                    PROTO_HEAD[0] = _proto_head()
                _ev("set_main")
                with _nested():
                    return super().set_main_variables(*a, **k)

            def send_constraint_to_solver(self, constraint, *a, **k):
                if _DEPTH[0] == 0:
                    _ev("send", srcs=_memberships(constraint, False))
                with _nested():
                    return super().send_constraint_to_solver(constraint, *a, **k)

            def send_lmi_constraint_to_solver(self, psd_counter, psd_matrix, *a, **k):
                if _DEPTH[0] == 0:
                    _ev("send", srcs=_memberships(psd_matrix, True))
                with _nested():
                    return super().send_lmi_constraint_to_solver(psd_counter, psd_matrix, *a, **k)

            def generate_problem(self, objective, *a, **k):
                _ev("generate")
                with _nested():
                    return super().generate_problem(objective, *a, **k)

            def get_primal_variables(self, *a, **k):
                _ev("get_primal")
                with _nested():
                    return super().get_primal_variables(*a, **k)

            def solve(self, **kw):
                with _nested():
                    out = super().solve(**kw)
                    G, F = self.get_primal_variables()
                _ev("solve", fin=0 if out[2] is None else 1)
                LOG.append(dict(ev="solve", wrapper=name, status=str(out[0]), value=out[2],
                                G=None if G is None else np.array(G, dtype=float).copy(),
                                F=None if F is None else np.array(F, dtype=float).copy()))
                return out

            def assign_dual_values(self):
                _ev("assign_duals")
                with _nested():
                    out = super().assign_dual_values()
                LOG.append(dict(ev="assign_duals", wrapper=name,
                                duals=[None if getattr(c, "_dual_variable_value", None) is None else
                                       np.array(c._dual_variable_value, dtype=float).copy()
                                       for c in self._list_of_constraints_sent_to_solver],
                                residual=np.array(out, dtype=float).copy()))
                return out

            def prepare_heuristic(self, wc_value, tol):
                LOG.append(dict(ev="prepare_heuristic", wrapper=name, wc=float(wc_value), tol=float(tol)))
                _ev("prepare_heuristic")
                with _nested():
                    return super().prepare_heuristic(wc_value, tol)

            def heuristic(self, weight):
                LOG.append(dict(ev="heuristic", wrapper=name, W=np.array(weight, dtype=float).copy()))
                _ev("heuristic")
                with _nested():
                    return super().heuristic(weight)
        Rec.__name__ = "Rec" + base.__name__
        return Rec
    W.WRAPPERS["cvxpy"] = mk(base_c, "cvxpy")
    W.WRAPPERS["mosek"] = mk(base_m, "mosek")
    W._verif_installed = True
    # the two PEP-level steps that follow the wrapper's work
    from PEPit.pep import PEP

    def wrap(name, ev):
        orig = getattr(PEP, name)

        def f(self, *a, **k):
            _ev(ev)
            with _nested():
                return orig(self, *a, **k)
        f.__name__ = name
        setattr(PEP, name, f)
    wrap("_eval_points_and_function_values", "eval")
    wrap("check_feasibility", "check")


# ------------------------------------------------------------------------------------------------ model programs

GAMMA = 0.5


class Built(object):
    pass


def class_table():
    from PEPit import functions as F, operators as O
    return {
        1: ("fun", F.SmoothStronglyConvexFunction, dict(mu=.25, L=1.)),
        2: ("fun", F.SmoothConvexFunction, dict(L=1.)),
        3: ("nsf", F.ConvexFunction, dict()),
        4: ("fun", F.SmoothStronglyConvexQuadraticFunction, dict(mu=.25, L=1.)),
        5: ("op", O.StronglyMonotoneOperator, dict(mu=.5)),
        6: ("lin", O.SymmetricLinearOperator, dict(mu=.25, L=1.)),
        7: ("lin", O.SkewSymmetricLinearOperator, dict(L=1.)),
        8: ("lin", O.LinearOperator, dict(L=1.)),
        9: ("qg", F.ConvexQGFunction, dict(L=1.)),
        10: ("op", O.LipschitzStronglyMonotoneOperator, dict(mu=.5, L=1.)),
        11: ("nsf", F.ConvexLipschitzFunction, dict(M=1.)),
        12: ("fun", F.SmoothFunction, dict(L=1.)),
    }


CURRENT_DECL = [None]      # the user_decl list of the model being built / edited in this process


def install_declaration_tracking():
    """Record, at the moment of the call, every constraint / LMI declared through the public API of PEP, Function and
    BlockPartition (class-level wrappers installed once per worker process; no repository source is touched).  Only the
    declared object is referenced - never its owner - so that an owner the user does not keep (a composite built inline)
    is still free to be garbage-collected."""
    from PEPit.pep import PEP
    from PEPit.function import Function
    from PEPit.block_partition import BlockPartition
    from PEPit.psd_matrix import PSDMatrix
    if getattr(Function, "_verif_tracked", False):
        return

    def wrap_c(cls):
        orig = cls.add_constraint

        def add_constraint(self, constraint, *a, **k):
            if CURRENT_DECL[0] is not None:
                CURRENT_DECL[0].append(("sc", constraint, None))
            return orig(self, constraint, *a, **k)
        cls.add_constraint = add_constraint

    def wrap_p(cls):
        orig = cls.add_psd_matrix

        def add_psd_matrix(self, matrix_of_expressions, *a, **k):
            if isinstance(matrix_of_expressions, PSDMatrix):
                written = [matrix_of_expressions[i, j] for i in range(matrix_of_expressions.shape[0])
                           for j in range(matrix_of_expressions.shape[1])]
            else:
                written = [e for row in matrix_of_expressions for e in row]      # the entries as the user wrote them, now
            before = list(self.list_of_psd)
            out = orig(self, matrix_of_expressions, *a, **k)
            new = [m for m in self.list_of_psd if not any(m is o for o in before)]
            if CURRENT_DECL[0] is not None and (new or out is not None):
                CURRENT_DECL[0].append(("lmi", new[-1] if new else out, written))
            return out
        cls.add_psd_matrix = add_psd_matrix
    for c in (PEP, Function, BlockPartition):
        wrap_c(c)
    for c in (PEP, Function):
        wrap_p(c)
    Function._verif_tracked = True


def all_functions():
    """the registered functions (tolerates a registry that holds weak references)"""
    import weakref
    from PEPit.function import Function
    out = []
    for f in Function.list_of_functions:
        if isinstance(f, weakref.ref):
            f = f()
        if f is not None:
            out.append(f)
    return out


def build(prog):
    """prog: dict(cls, steps, comp, ucons, lmis, metrics, part).  Returns Built with .pep and handles."""
    from PEPit import PEP, Point, Expression, PSDMatrix
    from PEPit.functions import ConvexFunction
    from PEPit.primitive_steps import proximal_step, inexact_gradient_step, exact_linesearch_step
    b = Built()
    pep = PEP()
    if prog.get("_on_pep"):
        prog["_on_pep"]()
    b.pep = pep
    b.prog = prog
    b.held = {}          # name -> object the user holds
    b.part_blocks = []   # per point the user decomposed: its blocks, as returned by the partition's public accessor
    b.user_decl = []     # what the user declared through the public API, recorded AT DECLARATION TIME:
                         # ("sc", constraint) | ("lmi", PSDMatrix object, [entry expressions as written by the user])

    install_declaration_tracking()
    CURRENT_DECL[0] = b.user_decl
    kind, cls, kw = class_table()[prog["cls"]]
    f = pep.declare_function(cls, **kw)
    b.f = f
    h = None
    Fsum = f
    if prog.get("comp") and kind in ("fun", "nsf"):
        h = pep.declare_function(ConvexFunction)
        Fsum = f + h
    b.h, b.F = h, Fsum
    steps = prog.get("steps", "g")
    if kind in ("fun", "nsf", "op"):
        xs = Fsum.stationary_point()
        x0 = pep.set_initial_point()
        pep.set_initial_condition((x0 - xs) ** 2 <= 1)
        x = x0
        for s in steps:
            if kind == "op" or s == "p" or kind == "nsf":
                if h is not None and kind != "op":
                    if kind == "fun":
                        x = x - GAMMA * f.gradient(x)
                    x, _, _ = proximal_step(x, h if kind == "fun" else Fsum, GAMMA)
                else:
                    x, _, _ = proximal_step(x, Fsum, GAMMA)
            elif s == "I" and h is not None:
                # the step is applied to a composite built INLINE and not kept by the user: its side constraint belongs
                # to an object only the library references
                x, _, _ = inexact_gradient_step(x, f + h, gamma=GAMMA, epsilon=.25, notion="relative")
                import gc
                gc.collect()
            elif s == "l":
                # exact line search along the current gradient: <g(x+), g(x)> = 0 is ONE inner product of two leaf points
                x, _, _ = exact_linesearch_step(x, f, [f.gradient(x)])
                if h is not None:
                    x, _, _ = proximal_step(x, h, GAMMA)
            elif s in ("i", "I"):
                x, _, _ = inexact_gradient_step(x, f, gamma=GAMMA, epsilon=.25, notion="relative")
                if h is not None:
                    x, _, _ = proximal_step(x, h, GAMMA)
            else:
                x = x - GAMMA * f.gradient(x)
                if h is not None:
                    x, _, _ = proximal_step(x, h, GAMMA)
        if kind == "op":
            m1 = (x - xs) ** 2
            m2 = (x - xs) ** 2 + (x0 - xs) ** 2 / 4
        else:
            m1 = Fsum(x) - Fsum(xs)
            m2 = (x - xs) ** 2
        b.held.update(xs=xs, x0=x0, x=x, d=x - xs)
    elif kind == "qg":
        x0 = pep.set_initial_point()
        g0, f0 = f.oracle(x0)
        if prog.get("steps", "g").startswith("s"):       # stationary point declared by the user, after x0
            xs = f.stationary_point()
            pep.set_initial_condition((x0 - xs) ** 2 <= 1)
            x = x0 - GAMMA * g0
            m1 = f(x) - f(xs)
            b.held.update(xs=xs)
        else:                                           # none declared: the class creates one at solve time
            pep.set_initial_condition(g0 ** 2 <= 1)
            x = x0 - GAMMA * g0
            m1 = f0 - f(x)
        m2 = g0 ** 2
        b.held.update(x0=x0, x=x, d=x - x0)
    else:   # linear operators
        x0 = pep.set_initial_point()
        pep.set_initial_condition(x0 ** 2 <= 1)
        x = x0
        for s in steps:
            x = x - GAMMA * f.gradient(x)
        if prog["cls"] == 8:
            y0 = pep.set_initial_point()
            pep.add_constraint(y0 ** 2 <= 1)
            f.T.gradient(y0)
        m1 = x ** 2
        m2 = x ** 2 + x0 ** 2 / 4
        b.held.update(x0=x0, x=x, d=x - x0)
    # user constraints
    for code in prog.get("ucons", []):
        xx, x0_ = b.held["x"], b.held["x0"]
        if code == "pi":
            c = ((xx - x0_) ** 2 <= 4)
            pep.add_constraint(c)
        elif code == "pe":
            t = Expression()
            c = (t == (xx - x0_) ** 2)
            pep.add_constraint(c)
            b.held["t_eq"] = t
        elif code == "fi":
            c = ((xx - x0_) ** 2 <= 5)
            f.add_constraint(c)
        elif code == "ci":
            c = ((xx - x0_) ** 2 <= 6)
            Fsum.add_constraint(c)
        elif code == "pm":          # mirrored inner-product keys (p, q) and (q, p), repeated key, constant
            c = ((xx * x0_) + (x0_ * xx) + (xx * x0_) / 2 <= 9)
            pep.add_constraint(c)
        elif code == "pd":          # diagonal terms only, equality with a fresh leaf on the right
            s_ = Expression()
            c = (xx ** 2 / 2 + x0_ ** 2 == s_)
            pep.add_constraint(c)
            b.held["s_pd"] = s_
        elif code == "se":          # a genuinely small direction: |e|^2 = 1/4096, e orthogonal to x - x0
            e_ = Point()
            c = (e_ ** 2 == 1 / 4096)
            pep.add_constraint(c)
            c2 = (e_ * (xx - x0_) == 0)
            pep.add_constraint(c2)
            b.held["e_small"] = e_
            b.held["c_se2"] = c2
        elif code == "dup":         # the same Constraint object declared twice on the problem
            c = ((xx - x0_) ** 2 <= 3 / 4)
            pep.add_constraint(c)
            pep.add_constraint(c)
        elif code == "dupf":        # the same Constraint object declared on the problem and on the function
            c = ((xx - x0_) ** 2 <= 7 / 8)
            pep.add_constraint(c)
            f.add_constraint(c)
        elif code == "pq":          # an equality with a non-zero constant (a free leaf keeps it feasible whatever its sign)
            t_ = Expression()
            c = (t_ + (xx - x0_) ** 2 == 1 / 16)
            pep.add_constraint(c)
            b.held["t_pq"] = t_
        elif code == "pS":          # an (active) condition written with large coefficients: 2^16 |x - x0|^2 <= 2^16 / 1024
            c = (65536 * (xx - x0_) ** 2 <= 64)
            pep.add_constraint(c)
        elif code == "pg":
            c = (2 * (xx * x0_) >= -7)          # 'greater than' written by the user, mirrored key shape
            pep.add_constraint(c)
        else:
            raise KeyError(code)
        b.held["c_" + code] = c
    # LMIs
    if prog.get("unsent_lmi"):
        b.held["unsent"] = PSDMatrix([[Expression(), 1], [1, 1]])       # created first, never added to the problem
    for k, code in enumerate(prog.get("lmis", [])):
        xx, x0_ = b.held["x"], b.held["x0"]
        t = Expression()
        dd = (xx - x0_) ** 2
        if code == "S2":        # same off-diagonal object
            M = [[dd + 1, t], [t, 1]]
        elif code == "D2":      # symbolically different but equal off-diagonal entries
            M = [[dd + 1, t + 0], [2 * t - t, 1]]
        elif code == "L1":
            M = [[4 - t]]
        elif code == "N2":      # entries NOT symmetric as written: forces t == u
            u = Expression()
            M = [[dd + 1, t], [u, 1]]
            b.held["u%d" % k] = u
        elif code == "S3":
            M = [[dd + 1, t, 0], [t, 1, 0], [0, 0, 1 + dd]]
        elif code == "C2":      # a non-zero constant off the diagonal: (t + 1/2)^2 <= |x - x0|^2 + 1
            M = [[dd + 1, t + 1 / 2], [t + 1 / 2, 1]]
        elif code == "V2":      # entries with function values carrying coefficients other than 1
            if kind in ("fun", "nsf") and "xs" in b.held:
                M = [[2 * (Fsum(xx) - Fsum(b.held["xs"])) + 1, t], [t, 1]]
            else:
                M = [[2 * dd + 1, t], [t, 1]]
        elif code == "Z2":      # the off-diagonal entry is a product of two points built with explicit zero coefficients
            # (the documented constructor): its dictionary holds (x0, y):1 and the MIRRORED key (y, x0):0
            lp = [p_ for p_ in Point.list_of_leaf_points if p_ is not x0_]
            y_ = lp[0]
            u_ = Point(is_leaf=False, decomposition_dict={x0_: 1, y_: 0})
            v_ = Point(is_leaf=False, decomposition_dict={y_: 1, x0_: 0})
            w_ = u_ * v_
            M = [[dd + x0_ ** 2 + y_ ** 2 + 1, w_], [w_, 1]]
            b.held["w%d" % k] = w_
        elif code == "B2":      # declared from a numpy object array that the user re-uses for a second LMI
            buf = np.empty((2, 2), dtype=object)
            buf[0, 0], buf[0, 1], buf[1, 0], buf[1, 1] = dd + 1, t, t, 1
            m_first = pep.add_psd_matrix(buf)
            b.held["t%d" % k] = t
            b.held["lmi%d" % k] = m_first
            t2 = Expression()
            buf[0, 1] = buf[1, 0] = t2
            buf[0, 0] = dd + 2
            m_second = pep.add_psd_matrix(buf)
            b.held["t%db" % k] = t2
            b.held["lmi%db" % k] = m_second
            continue
        elif code == "F2":      # function-level LMI
            M = [[dd + 1, t], [t, 1]]
        else:
            raise KeyError(code)
        if code == "F2":
            f.add_psd_matrix(M)
            m = f.list_of_psd[-1]
        else:
            m = pep.add_psd_matrix(M)
        b.held["t%d" % k] = t
        b.held["lmi%d" % k] = m
    if prog.get("part"):
        if prog["part"] == 2:
            from PEPit.block_partition import BlockPartition
            part = BlockPartition(d=2)                    # the documented direct constructor
        else:
            part = pep.declare_block_partition(d=2)
        xx = b.held["x"]
        b0 = part.get_block(xx, 0)
        b1 = part.get_block(b.held["x0"], 1)
        b.held.update(blk0=b0, blk1=b1)
        b.part = part
        # the blocks as the user gets them from the public accessor, kept at declaration time
        b.part_blocks = [[part.get_block(p, k) for k in range(2)] for p in (xx, b.held["x0"])]
        if prog["part"] == 1:
            cpu = (b0 ** 2 <= 3)
            part.add_constraint(cpu)                      # the user's own constraint on the partition
            b.held["c_part_user"] = cpu
            part_b = pep.declare_block_partition(d=2)     # a second, independent partition of the same model
            b.held["blk_b"] = part_b.get_block(b.held["d"], 1)
            b.part_b = part_b
    if prog.get("lmimetric") and "t0" in b.held:
        m1 = b.held["t0"] + 0          # the metric is the off-diagonal variable of the first LMI (t^2 <= |x - x0|^2 + 1)
    pep.set_performance_metric(m1)
    b.held["m1"] = m1
    if prog.get("metrics", 1) >= 2:
        if prog.get("lmimetric") and "u0" in b.held:
            m2 = b.held["u0"] + 0      # [[a, t], [u, 1]] with metrics t and u: the two off-diagonal entries play symmetric roles
        pep.set_performance_metric(m2)
        b.held["m2"] = m2
    return b


# --------------------------------------------------------------------------------------------------- observation

def _tag(o):
    from PEPit.constraint import Constraint
    return ("c%d" if isinstance(o, Constraint) else "m%d") % o.counter


def declared(pep):
    """Every declared item by source, as lists of object handles (read right after a solve)."""
    from PEPit.function import Function
    from PEPit.block_partition import BlockPartition
    return dict(
        metrics=list(pep.list_of_performance_metrics),
        pep_cons=list(pep.list_of_constraints), pep_lmis=list(pep.list_of_psd),
        funs=[dict(leaf=1 if f.get_is_leaf() else 0, ccons=list(f.list_of_class_constraints),
                   clmis=list(f.list_of_class_psd), cons=list(f.list_of_constraints), lmis=list(f.list_of_psd))
              for f in all_functions()],
        parts=[list(p.list_of_constraints) for p in BlockPartition.list_of_partitions])


def probe_cvxpy(wrapper, NP, NE):
    """Independent reading of the native cvxpy problem: every constraint is affine in (F, G, M_1..M_k); set the
    variables to zero / to each basis element and read the constraint expression's value."""
    import cvxpy as cp
    cons = list(wrapper._list_of_solver_constraints)
    Ms = []
    for c in cons:
        for v in c.variables():
            if v is not wrapper.F and v is not wrapper.G and all(v is not m for m in Ms):
                Ms.append(v)
    variables = [("F", wrapper.F)] + [("G", wrapper.G)] + [("M", m) for m in Ms]
    saved = [v.value for _, v in variables]
    sizes = [int(m.shape[0]) for m in Ms]

    def setzero():
        for k, v in variables:
            v.value = np.zeros(v.shape)

    def read():
        out = []
        for c in cons:
            e = c.args[0] if isinstance(c, cp.constraints.PSD) else c.expr
            out.append(np.array(e.value, dtype=float).reshape(-1))
        return out
    setzero()
    const = read()
    cols = []
    for k in range(NE):
        setzero()
        z = np.zeros(NE); z[k] = 1.
        wrapper.F.value = z
        cols.append(read())

    def sym_basis(var, n):
        for i in range(n):
            for j in range(i, n):
                setzero()
                z = np.zeros((n, n)); z[i, j] = 1.; z[j, i] = 1.
                var.value = z
                cols.append(read())
    sym_basis(wrapper.G, NP)
    for m, n in zip(Ms, sizes):
        sym_basis(m, n)
    for (k, v), val in zip(variables, saved):
        if val is not None:
            v.value = val
    native = []
    for ci, c in enumerate(cons):
        if isinstance(c, cp.constraints.PSD):
            kind = "psd"
        elif isinstance(c, cp.constraints.Equality) or isinstance(c, cp.constraints.Zero):
            kind = "eq"
        else:
            kind = "ineq"
        rows = []
        for r in range(len(const[ci])):
            coefs = [col[ci][r] - const[ci][r] for col in cols]
            try:
                cc = dict(t="r", v=proj.jrat(const[ci][r], exact=False))
            except proj.Inexact:
                cc = dict(t="x", v=[fx(const[ci][r]), 1])
            rows.append(dict(v=proj.jv([proj.rat(x, exact=False) for x in coefs]), c=cc))
        native.append(dict(kind=kind, rows=rows))
    # objective of the FIRST problem (stored by generate_problem)
    setzero()
    o0 = float(wrapper.objective.value)
    ocoef = []
    allcols = []
    for k in range(NE):
        setzero(); z = np.zeros(NE); z[k] = 1.; wrapper.F.value = z
        ocoef.append(float(wrapper.objective.value) - o0)
    for i in range(NP):
        for j in range(i, NP):
            setzero(); z = np.zeros((NP, NP)); z[i, j] = 1.; z[j, i] = 1.; wrapper.G.value = z
            ocoef.append(float(wrapper.objective.value) - o0)
    for (k, v), val in zip(variables, saved):
        if val is not None:
            v.value = val
    obj = dict(v=proj.jv([proj.rat(x, exact=False) for x in ocoef]), c=proj.jrat(o0, exact=False))
    return dict(native=native, msizes=sizes, obj=obj)


def probe_heuristic_objective(wrapper, NP):
    """Coefficients (fixed point, one per pair i <= j of the Gram matrix) of the objective of the LAST cvxpy problem when
    it is a minimisation (the dimension-reduction problems minimise <W, G>): read by setting G to basis matrices."""
    import cvxpy as cp
    prob = getattr(wrapper, "prob", None)
    if prob is None or not isinstance(prob.objective, cp.Minimize):
        return []
    expr = prob.objective.args[0]
    variables = list(prob.variables())
    saved = [None if v.value is None else np.array(v.value, copy=True) for v in variables]

    def setzero():
        for v in variables:
            v.value = np.zeros(v.shape)
    out = []
    try:
        setzero()
        o0 = float(expr.value)
        for i in range(NP):
            for j in range(i, NP):
                setzero()
                z = np.zeros((NP, NP)); z[i, j] = 1.; z[j, i] = 1.
                wrapper.G.value = z
                out.append(fx(float(expr.value) - o0))
    except Exception:
        out = []
    for v, val in zip(variables, saved):
        if val is not None:
            v.value = val
    return out


def _too_large(pep, items, held, solved, limit=1500.0):
    """Magnitude sensor (floats): 1 if evaluating some sent / held expression at the returned instance involves partial
    sums beyond `limit` (a free variable the solver left at a huge value, or a declared bound that is not enforced).
    TLC's integers are 32-bit and the fixed-point unit is 1e-6: the instance-side clauses of such a solve are not
    computed (SolveTrace.tla, primRange); the certificate side has its own guard (termsOK / clause c01h)."""
    from PEPit.point import Point
    from PEPit.expression import Expression
    from PEPit.constraint import Constraint
    from PEPit.psd_matrix import PSDMatrix
    if not solved:
        return 0
    try:
        G = np.asarray(pep.G_value, dtype=float)
        F = np.asarray(pep.F_value, dtype=float)
    except Exception:
        return 0

    def terms(e):
        out = []
        for k, w in e.decomposition_dict.items():
            if isinstance(k, Expression):
                out.append((("e", k.counter), float(w), float(F[k.counter]) if k.counter < len(F) else 0.0))
            elif isinstance(k, tuple):
                i, j = k[0].counter, k[1].counter
                out.append((("g",) + tuple(sorted((i, j))), float(w), float(G[i, j]) if max(i, j) < G.shape[0] else 0.0))
            else:
                out.append((("c",), float(w), 1.0))
        return out

    def exprs(o):
        if isinstance(o, Constraint):
            return [o.expression]
        if isinstance(o, PSDMatrix):
            return [o[i, j] for i in range(o.shape[0]) for j in range(o.shape[1])]
        if isinstance(o, Expression):
            return [o]
        return []
    try:
        for it, o in items:
            for e in exprs(o):
                if sum(abs(w) * abs(v) for _, w, v in terms(e)) > limit:
                    return 1
        for o in held.values():
            for e in exprs(o):
                if sum(abs(w) * abs(v) for _, w, v in terms(e)) > limit:
                    return 1
    except Exception:
        return 0
    return 0


def observe(pep, ret, held, exact=False, with_native=True, extra_evals=True, user_decl=(), part_blocks=()):
    """Everything a finished solve exposes, as ints/strings."""
    from PEPit.point import Point
    from PEPit.expression import Expression
    from PEPit.constraint import Constraint
    from PEPit.psd_matrix import PSDMatrix
    NP, NE = Point.counter, Expression.counter
    d = declared(pep)
    items, idx = [], {}

    def item(o, origin):
        key = id(o)
        if key in idx:
            return idx[key]
        if isinstance(o, Constraint):
            it = dict(k="sc", sense=proj.sense(o), n=1, e=[proj.jex(o.expression, NP, NE, exact)], tag=_tag(o),
                      name=str(o.get_name()), origin=origin)
        else:
            n = o.shape[0]
            it = dict(k="lmi", sense="psd", n=n, e=[proj.jex(o[i, j], NP, NE, exact) for i in range(n) for j in range(n)],
                      tag=_tag(o), name=str(o.get_name()), origin=origin)
        items.append((it, o))
        idx[key] = len(items)
        return idx[key]
    out = dict(np=NP, ne=NE)
    out["metrics"] = [proj.jex(m, NP, NE, exact) for m in d["metrics"]]
    out["decl"] = dict(
        pep_cons=[item(c, "pep") for c in d["pep_cons"]], pep_lmis=[item(m, "pep") for m in d["pep_lmis"]],
        funs=[dict(leaf=f["leaf"], ccons=[item(c, "class") for c in f["ccons"]], clmis=[item(m, "class") for m in f["clmis"]],
                   cons=[item(c, "fun") for c in f["cons"]], lmis=[item(m, "fun") for m in f["lmis"]]) for f in d["funs"]],
        parts=[[item(c, "part") for c in p] for p in d["parts"]])
    w = pep.wrapper
    out["sent"] = [item(o, "solve-time") for o in w._list_of_constraints_sent_to_solver]
    out["pep_sent_cons"] = [item(o, "solve-time") for o in pep._list_of_constraints_sent_to_wrapper]
    out["pep_sent_lmis"] = [item(o, "solve-time") for o in pep._list_of_psd_sent_to_wrapper]
    ud = []
    for kind_, obj, written in user_decl:
        rec = dict(i=item(obj, "user"), k=kind_, e=[])
        if kind_ == "lmi":
            from PEPit.expression import Expression as _E
            ent = []
            for e in written:
                if isinstance(e, _E):
                    ent.append(proj.jex(e, NP, NE, exact))
                else:
                    ent.append(proj.jex(_E(is_leaf=False, decomposition_dict={1: e}), NP, NE, exact))
            rec["e"] = ent
        ud.append(rec)
    out["user_decl"] = ud
    out["part_blocks"] = [[proj.jpt(blk, NP, exact) for blk in blks] for blks in part_blocks]
    out["tau"] = pep.objective.counter + 1 if pep.objective is not None and pep.objective.get_is_leaf() else 0
    out["ret"] = "none" if ret is None else "num"
    out["retv"] = 0 if ret is None else fx(ret)
    out["wrapper"] = str(pep.wrapper_name)
    solved = ret is not None
    # multipliers as exposed by the objects
    duals = []
    for it, o in items:
        try:
            v = o.eval_dual()
            duals.append([fx(x) for x in np.asarray(v, dtype=float).reshape(-1)])     # a scalar gives one entry
        except Exception:
            duals.append([])
    out["duals"] = duals
    # the wrapper's own accessor of the multipliers (same order as its list of sent constraints) against the objects'
    wd = -1
    if solved and w is not None:
        try:
            vals, _res = w.get_dual_variables()
            wd = 0
            sent_ = w._list_of_constraints_sent_to_solver
            if len(vals) == len(sent_) + 1:          # (the list starts with the multiplier of the Gram matrix itself)
                vals = vals[1:]
            for o, v in zip(sent_, vals):
                a = np.asarray(v, dtype=float).reshape(-1)
                b_ = np.asarray(o.eval_dual(), dtype=float).reshape(-1)
                wd = max(wd, CLAMP if a.shape != b_.shape else int(min(CLAMP, round(float(np.abs(a - b_).max()) * 1e6))) if a.size else 0)
            if len(vals) != len(w._list_of_constraints_sent_to_solver):
                wd = CLAMP
        except Exception:
            wd = -1
    out["wdual"] = wd                                  # -1: not available; else max |difference| in units of 1e-6
    lmi_mineig = []
    for it, o in items:
        if isinstance(o, PSDMatrix) and o._dual_variable_value is not None:
            try:
                D = np.asarray(o._dual_variable_value, dtype=float)
                lmi_mineig.append(fx(np.linalg.eigvalsh((D + D.T) / 2).min()))
            except Exception:
                lmi_mineig.append(-CLAMP)
        else:
            lmi_mineig.append(0)
    out["dual_mineig"] = lmi_mineig                   # sensor (numpy): smallest eigenvalue of each LMI multiplier
    if solved and pep.residual is not None:
        S = np.asarray(pep.residual, dtype=float)
        out["resid_shape"] = list(S.shape) if S.ndim == 2 else [-1, -1]
        if S.ndim == 2 and S.shape == (NP, NP):
            out["resid"] = [fx(S[i, j] + (S[j, i] if i != j else 0)) for (i, j) in proj.pairs(NP)]
            out["resid_mineig"] = fx(np.linalg.eigvalsh((S + S.T) / 2).min())
        else:            # a residual of another size is not the one of this solve: reported through resid_shape (c01g)
            out["resid"], out["resid_mineig"] = [], 0
    else:
        out["resid"], out["resid_mineig"], out["resid_shape"] = [], 0, [0, 0]
    # primal side
    if solved:
        G = np.asarray(pep.G_value, dtype=float)
        Fv = np.asarray(pep.F_value, dtype=float)
        out["G"] = [fx(G[i, j]) for (i, j) in proj.pairs(NP)]
        out["Gasym"] = fx(np.abs(G - G.T).max()) if G.size else 0
        out["F"] = [fx(v) for v in Fv[:NE]]
        out["G_mineig"] = fx(np.linalg.eigvalsh((G + G.T) / 2).min()) if G.size else 0
        ev, evec = np.linalg.eigh((G + G.T) / 2)
        Gp = (evec * np.maximum(ev, 0)) @ evec.T
        out["Gproj"] = [fx(Gp[i, j]) for (i, j) in proj.pairs(NP)]          # sensor: PSD projection of G
        coords = []
        for p in Point.list_of_leaf_points:
            try:
                coords.append([fx(v) for v in p.eval()])
            except ValueError:
                coords.append([])
        out["coords"] = coords
        fvals = []
        for e in Expression.list_of_leaf_expressions:
            try:
                fvals.append([fx(e.eval())])
            except ValueError:
                fvals.append([])
        out["fvals"] = fvals
        item_evals, item_mineig = [], []
        for it, o in items:
            try:
                v = o.eval()
                A = np.asarray(v, dtype=float)
                item_evals.append([fx(x) for x in A.reshape(-1)])
                if isinstance(o, Constraint) or A.ndim != 2 or A.shape[0] != A.shape[1]:
                    item_mineig.append(0)
                else:
                    item_mineig.append(fx(np.linalg.eigvalsh((A + A.T) / 2).min()))
            except Exception as e:
                item_evals.append([]); item_mineig.append(0)
        out["item_evals"], out["item_mineig"] = item_evals, item_mineig
    else:
        out.update(G=[], Gasym=0, F=[], G_mineig=0, Gproj=[], coords=[], fvals=[], item_evals=[], item_mineig=[])
    # held objects: normal form + eval outcome
    hv = []
    for name in sorted(held):
        o = held[name]
        rec = dict(name=name)
        try:
            if isinstance(o, Point):
                rec.update(k="pt", p=proj.jpt(o, NP, exact), e=[])
                v = o.eval()
                rec.update(out="ok", val=[fx(x) for x in np.asarray(v, dtype=float).reshape(-1)])
            elif isinstance(o, Expression):
                rec.update(k="ex", p=[], e=[proj.jex(o, NP, NE, exact)])
                rec.update(out="ok", val=[fx(o.eval())])
            elif isinstance(o, Constraint):
                rec.update(k="co", p=[], e=[proj.jex(o.expression, NP, NE, exact)])
                rec.update(out="ok", val=[fx(o.eval())])
            elif isinstance(o, PSDMatrix):
                n = o.shape[0]
                rec.update(k="mx", p=[], e=[proj.jex(o[i, j], NP, NE, exact) for i in range(n) for j in range(n)])
                rec.update(out="ok", val=[fx(x) for x in np.asarray(o.eval(), dtype=float).reshape(-1)])
            else:
                continue
        except Exception as e:
            rec.update(out="raises:" + type(e).__name__, val=[])
        hv.append(rec)
    out["held"] = hv
    out["items"] = [it for it, o in items]
    out["toolarge"] = _too_large(pep, items, held, solved)
    out["heurobj"] = probe_heuristic_objective(w, NP) if (solved and w is not None and pep.wrapper_name == "cvxpy") else []
    if with_native and w is not None and pep.wrapper_name == "cvxpy" and getattr(w, "prob", None) is not None:
        out.update(probe_cvxpy(w, NP, NE))
    else:
        out.update(native=[], msizes=[], obj=dict(v=dict(n=[], d=[]), c=[0, 1]))
    out["task"] = []
    if pep.wrapper_name == "mosek":
        import mosek
        out["task"] = encode_task(mosek.CALLS)
    return out


def phases(log):
    """Wrapper events of one solve as ints."""
    out = []
    for e in log:
        if e["ev"] == "solve":
            G = e["G"]
            out.append(dict(ev="solve", status=e["status"], value=0 if e["value"] is None else fx(e["value"]),
                            hasvalue=0 if e["value"] is None else 1,
                            trace=0 if G is None else fx(np.trace(G)),
                            G=[] if G is None else [fx(G[i, j]) for (i, j) in proj.pairs(G.shape[0])],
                            F=[] if e["F"] is None else [fx(v) for v in e["F"]]))
        elif e["ev"] == "assign_duals":
            out.append(dict(ev="assign_duals", n=len(e["duals"])))
        elif e["ev"] == "prepare_heuristic":
            out.append(dict(ev="prepare_heuristic", wc=fx(e["wc"]), tol=fx(e["tol"])))
        elif e["ev"] == "heuristic":
            Wm = e["W"]
            out.append(dict(ev="heuristic", isid=1 if np.allclose(Wm, np.eye(Wm.shape[0])) else 0,
                            n=int(Wm.shape[0]), W=[fx(v) for v in Wm.reshape(-1)]))
    return out


# ------------------------------------------------------------------------------------------- stand-in MOSEK task log

def encode_task(calls):
    """Recorded calls of the stand-in mosek.Task -> uniform integer events for spec/MosekTask.tla."""
    out = []

    def ev(op, k=0, i=(), j=(), vals=None, s="", x=()):
        n, d = [], []
        if vals is not None:
            try:
                fr = [proj.rat(v, exact=False) for v in vals]
                n, d = [f.numerator for f in fr], [f.denominator for f in fr]
            except proj.Inexact:
                s = "inexact"
        out.append(dict(op=op, k=int(k), i=[int(v) for v in i], j=[int(v) for v in j], n=n, d=d, s=s,
                        x=[fx(v) for v in x]))
    for name, a in calls:
        if name == "appendbarvars":
            ev(name, i=a[0])
        elif name == "appendvars":
            ev(name, i=[a[0]])
        elif name == "putvarbound":
            ev(name, i=[a[0]], s=a[1])
        elif name == "appendcons":
            ev(name, i=[a[0]])
        elif name == "appendsparsesymmat":
            ev(name, k=a[0], i=a[1], j=a[2], vals=a[3], x=a[3])
        elif name == "putbaraij":
            ev(name, k=a[0], i=[a[1]], j=a[2], vals=a[3])
        elif name == "putaijlist":
            ev(name, i=a[0], j=a[1], vals=a[2])
        elif name == "putconbound":
            ev(name, k=a[0], s=a[1], vals=[a[2], a[3]], x=[a[2], a[3]])
        elif name == "putclist":
            ev(name, j=a[0], vals=a[1])
        elif name == "putbarcj":
            ev(name, k=a[0], j=a[1], vals=a[2])
        elif name == "putobjsense":
            ev(name, s=a[0])
        elif name == "optimize":
            ev(name)
        elif name in ("getxx", "gety"):
            ev(name, x=a[0])
        elif name in ("getbarsj", "getbarxj"):
            ev(name, k=a[0], x=a[1])
    return out
