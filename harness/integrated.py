"""The integrated machine spec/PEPit.tla: model checking of its cross-cutting invariants, replay of its behaviours on the
real library with every registry read after every call, comparison by spec/PEPitTrace.tla.  Differences are DRIFT."""
import json, os, random
from core import *
from core import verdicts as core_verdicts


def run(res, tier, wd):
    n = 6 if tier == "quick" else 7
    cfg = ("CONSTANTS\n MaxActions = %d\nINIT Init\nNEXT Next\nINVARIANT CleanSlate\nINVARIANT Counting\nPROPERTY Monotone\n"
           "INVARIANT Emit\nCHECK_DEADLOCK FALSE\n" % n)
    r = tlc("PEPit", cfg, wd, coverage=True)
    if r["violated"]:
        raise Machinery("PEPit.tla violates %s" % r["violated"])
    res.add_tlc("PEPit(integrated machine, %d actions, exhaustive)" % n, r)
    progs = [json.loads(x)["h"] for x in split_prints(r["out"]) if isinstance(x, str)]
    random.Random(seed() + 4).shuffle(progs)
    solved = [p for p in progs if any(a["a"] == "solve" for a in p)]
    other = [p for p in progs if not any(a["a"] == "solve" for a in p)]
    k = 500 if tier == "quick" else 4000
    sel = solved[:k] + other[:k // 2]
    traces = pool_map("drv_pepit", "run", [dict(h=h) for h in sel])
    path = os.path.join(wd, "pepit.ndjson")
    write_ndjson(path, traces)
    tcfg = "CONSTANTS\n MaxActions = 0\nINIT TInit\nNEXT TStep\nINVARIANT Report\nCHECK_DEADLOCK FALSE\n"
    r = tlc("PEPitTrace", tcfg, wd, env=dict(TRACE_FILE=path))
    res.add_tlc("PEPitTrace", r)
    v = core_verdicts(r["out"], len(traces))
    ndrift = 0
    for i, t in enumerate(traces):
        for c in v[i + 1]:
            ndrift += 1
            res.drift.append(dict(machine="PEPit.tla", calls=[a["a"] for a in t["h"]], step=c[0], call=c[1], registry=c[2],
                                  observed_minus_model=c[3]))
    res.extra["integrated_machine"] = dict(behaviours_replayed=len(traces), drift_clauses=ndrift)
    os.remove(path)
    return len(traces)
