"""Shared machinery of the PEPit verification harness.

* tlc(): run TLC on a module of /verif/spec with a generated cfg, parse counts, PrintT records, violations
* pool_map(): run a driver function over programs in worker processes that import PEPit from /repo
* Result / finish(): verdict handling (VIOLATION / KNOWN-FINDING / machinery), evidence and replay files
"""
import json, os, re, shutil, subprocess, sys, time, hashlib, traceback, multiprocessing

VERIF = os.path.dirname(os.path.dirname(os.path.abspath(__file__)))
REPO = os.environ.get("VERIF_REPO", "/repo")
SPEC = os.path.join(VERIF, "spec")
WORK = os.path.join(VERIF, ".work")
EVID = os.path.join(VERIF, "evidence")
REPLAYS = os.path.join(VERIF, "replays")
if os.path.realpath(REPO) != "/repo":
    # a run against a scratch copy of the repository (mutation testing): keep its scratch, evidence and replay
    # files apart from those of the registered checks, so concurrent runs do not disturb each other
    _alt = os.path.join(WORK, "alt-" + hashlib.sha1(os.path.realpath(REPO).encode()).hexdigest()[:8])
    WORK, EVID, REPLAYS = os.path.join(_alt, "work"), os.path.join(_alt, "evidence"), os.path.join(_alt, "replays")
JAR = "/opt/veriftools/tla/tla2tools.jar:/opt/veriftools/tla/CommunityModules-deps.jar"
PY = "/venv/bin/python"
NCPU = min(16, os.cpu_count() or 4)


def ncpu():
    """Workers to use now: all cores when the machine is idle, fewer when other checks are running (several checks
    are developed and run concurrently in this sandbox; oversubscription made everything crawl)."""
    try:
        load = os.getloadavg()[0]
    except OSError:
        load = 0.0
    if "VERIF_NCPU" in os.environ:
        return max(1, int(os.environ["VERIF_NCPU"]))
    return max(3, min(NCPU, int(NCPU - load / 2)))


class Machinery(Exception):
    """The harness itself failed (exit 2). Never reported as a violation."""


def seed():
    try:
        return int(os.environ.get("VERIF_SEED", "0"))
    except ValueError:
        return 0


def workdir(name):
    """scratch directory of this invocation (the process id keeps two concurrent runs of one check apart)"""
    d = os.path.join(WORK, "%s.%d" % (name, os.getpid()))
    shutil.rmtree(d, ignore_errors=True)
    os.makedirs(d)
    for other in os.listdir(WORK):          # leftovers of killed runs of the same check
        stem, _, pid = other.rpartition(".")
        if stem == name and pid.isdigit() and int(pid) != os.getpid():
            try:
                os.kill(int(pid), 0)
            except OSError:
                shutil.rmtree(os.path.join(WORK, other), ignore_errors=True)
    return d


def rmwork(name):
    shutil.rmtree(os.path.join(WORK, "%s.%d" % (name, os.getpid())), ignore_errors=True)


# ---------------------------------------------------------------------------------------------- TLC

_COUNT = re.compile(r"(\d+) states generated, (\d+) distinct states found")


def _parse_tla_value(s):
    """Parse the TLA+ values TLC prints for PrintT: strings (JSON payloads), tuples, ints, sets of tuples."""
    s = s.strip()
    pos = 0

    def ws():
        nonlocal pos
        while pos < len(s) and s[pos] in " \n\t\r":
            pos += 1

    def val():
        nonlocal pos
        ws()
        if s.startswith("<<", pos):
            pos += 2
            out = []
            ws()
            if s.startswith(">>", pos):
                pos += 2
                return out
            while True:
                out.append(val())
                ws()
                if s.startswith(">>", pos):
                    pos += 2
                    return out
                if s[pos] != ",":
                    raise ValueError("tuple: " + s[pos:pos + 20])
                pos += 1
        if s[pos] == "{":
            pos += 1
            out = []
            ws()
            if s[pos] == "}":
                pos += 1
                return {"set": out}
            while True:
                out.append(val())
                ws()
                if s[pos] == "}":
                    pos += 1
                    return {"set": out}
                if s[pos] != ",":
                    raise ValueError("set: " + s[pos:pos + 20])
                pos += 1
        if s[pos] == '"':
            j = pos + 1
            buf = []
            while s[j] != '"':
                if s[j] == "\\":
                    buf.append(s[j:j + 2])
                    j += 2
                else:
                    buf.append(s[j])
                    j += 1
            raw = '"' + "".join(buf) + '"'
            pos = j + 1
            return json.loads(raw)
        if s[pos] == "[":
            # record [a |-> v, ...]
            pos += 1
            out = {}
            ws()
            while True:
                ws()
                m = re.match(r"([A-Za-z_][A-Za-z_0-9]*)\s*\|->", s[pos:])
                if not m:
                    raise ValueError("record: " + s[pos:pos + 20])
                pos += m.end()
                out[m.group(1)] = val()
                ws()
                if s[pos] == "]":
                    pos += 1
                    return out
                if s[pos] != ",":
                    raise ValueError("record sep: " + s[pos:pos + 20])
                pos += 1
        m = re.match(r"-?\d+", s[pos:])
        if m:
            pos += m.end()
            return int(m.group(0))
        m = re.match(r"[A-Za-z_][A-Za-z_0-9]*", s[pos:])
        if m:
            pos += m.end()
            w = m.group(0)
            return {"TRUE": True, "FALSE": False}.get(w, w)
        raise ValueError("value: " + s[pos:pos + 30])

    v = val()
    ws()
    if pos != len(s):
        raise ValueError("trailing: " + s[pos:pos + 30])
    return v


def split_prints(out):
    """TLC prints one value per PrintT; with several workers lines of different prints never interleave inside a
    line but a multi-line value may be interrupted.  We only ever print single-line values (tuples of ints/strings),
    so: every stdout line that starts with '<<' or '"' is one record."""
    recs = []
    cache = {}              # (a simulation prints the same prefix many times)
    for line in out.splitlines():
        line = line.strip()
        if line.startswith("<<") or line.startswith('"'):
            if line not in cache:
                try:
                    cache[line] = _parse_tla_value(line)
                except Exception:
                    raise Machinery("unparsable TLC print: " + line[:200])
            recs.append(cache[line])
    return recs


def verdicts(out, n_expected=None):
    """Verdict lines of a trace specification: PrintT(ToJson(<<"V", tid, bad>>)) - one JSON line per trace
    (ToJson keeps the value on one line; TLC's pretty printer wraps long tuples).  Returns {tid: [clauses]}."""
    v = {}
    for line in out.splitlines():
        line = line.strip()
        if line.startswith('"[\\"V\\",'):
            rec = json.loads(json.loads(line))
            v[rec[1]] = rec[2]
    if n_expected is not None and len(v) != n_expected:
        raise Machinery("trace validation gave %d verdicts for %d traces" % (len(v), n_expected))
    return v


def tlc(module, cfg, wd, env=None, workers=None, timeout=1800, coverage=False, simulate=None, extra=None,
        cont=False, depth_first=False):
    """Run TLC on spec/<module>.tla with cfg text `cfg`.  Returns dict(rc, out, generated, distinct, prints,
    violated, coverage)."""
    os.makedirs(wd, exist_ok=True)
    cfgp = os.path.join(wd, module + ".cfg")
    with open(cfgp, "w") as f:
        f.write(cfg)
    meta = os.path.join(wd, "meta_" + module)
    shutil.rmtree(meta, ignore_errors=True)
    cmd = ["java", "-XX:+UseParallelGC", "-Xmx6g", "-Xss16m"]
    if depth_first:
        cmd.append("-Dtlc2.tool.queue.IStateQueue=StateDeque")
    cmd += ["-cp", JAR, "tlc2.TLC", "-workers", str(workers or ncpu()), "-metadir", meta, "-noGenerateSpecTE",
            "-config", cfgp]
    if coverage:
        cmd += ["-coverage", "1"]
    if cont:
        cmd += ["-continue"]
    if simulate:
        cmd += ["-simulate", simulate]
    if extra:
        cmd += extra
    cmd.append(os.path.join(SPEC, module + ".tla"))
    e = dict(os.environ)
    if env:
        e.update({k: str(v) for k, v in env.items()})
    t0 = time.time()
    try:
        if simulate:
            # a simulation evaluates the printing invariant on every successor it enumerates: the same line comes
            # millions of times.  Read the output as a stream and keep each distinct print line once.
            p = subprocess.Popen(cmd, cwd=wd, env=e, stdout=subprocess.PIPE, stderr=subprocess.STDOUT, text=True,
                                 bufsize=1 << 20)
            seen, keep = set(), []
            for line in p.stdout:
                if line[:1] in '"<':
                    if line in seen:
                        continue
                    seen.add(line)
                keep.append(line)
                if time.time() - t0 > timeout:
                    p.kill()
                    raise subprocess.TimeoutExpired(cmd, timeout)
            p.wait()
            p.stdout = "".join(keep)
            del seen, keep
        else:
            p = subprocess.run(cmd, cwd=wd, env=e, stdout=subprocess.PIPE, stderr=subprocess.STDOUT, timeout=timeout,
                               text=True)
    except subprocess.TimeoutExpired as ex:
        subprocess.run(["pkill", "-f", "metadir " + meta], check=False)
        raise Machinery("TLC timeout on %s after %ss" % (module, timeout))
    finally:
        shutil.rmtree(meta, ignore_errors=True)
    out = p.stdout
    res = dict(rc=p.returncode, out=out, wall=time.time() - t0, generated=0, distinct=0)
    ms = _COUNT.findall(out)
    if ms:
        res["generated"], res["distinct"] = int(ms[-1][0]), int(ms[-1][1])
    res["violated"] = re.findall(r"Invariant (\w+) is violated", out) + re.findall(
        r"Action property (\w+) is violated", out)
    res["prints"] = None
    if p.returncode not in (0, 12):
        lines = out.splitlines()
        first = next((i for i, l in enumerate(lines) if l.startswith("Error:") or "***Parse Error***" in l or "Semantic errors" in l), None)
        head = "\n".join(lines[first:first + 14]) if first is not None else ""
        tail = "\n".join(lines[-12:])
        raise Machinery("TLC failed on %s (rc=%s):\n%s\n...\n%s" % (module, p.returncode, head, tail))
    if coverage:
        res["coverage"] = parse_coverage(out)
    return res


def parse_coverage(out):
    """Per-action counts from '-coverage 1' output: '<Action line .. of module M>: distinct:generated'."""
    cov = {}
    for m in re.finditer(r"<(\w+) line \d+, col \d+ to line \d+, col \d+ of module (\w+)>: (\d+):(\d+)", out):
        cov[m.group(2) + "." + m.group(1)] = [int(m.group(3)), int(m.group(4))]
    return cov


def sany(module):
    p = subprocess.run(["java", "-cp", JAR, "tla2sany.SANY", os.path.join(SPEC, module + ".tla")], cwd=SPEC,
                       stdout=subprocess.PIPE, stderr=subprocess.STDOUT, text=True)
    ok = p.returncode == 0 and "Semantic errors" not in p.stdout and "*** Errors" not in p.stdout \
        and "Parse Error" not in p.stdout and "Fatal errors" not in p.stdout
    return ok, p.stdout


# ------------------------------------------------------------------------------------- driver pool

def _init_worker(repo, extra_paths):
    sys.dont_write_bytecode = True
    for pth in reversed(extra_paths or []):
        sys.path.insert(0, pth)
    sys.path.insert(0, repo)
    os.environ["PYTHONDONTWRITEBYTECODE"] = "1"
    import warnings
    warnings.filterwarnings("ignore")


def _call(args):
    fn_mod, fn_name, item = args
    import importlib
    mod = importlib.import_module(fn_mod)
    try:
        return ("ok", getattr(mod, fn_name)(item))
    except Exception:
        return ("harness-error", traceback.format_exc())


def pool_map(fn_mod, fn_name, items, procs=None, extra_paths=None, chunksize=None, maxtasksperchild=None):
    """Run harness.<fn_mod>.<fn_name>(item) for every item in worker processes importing PEPit from REPO.
    A Python exception escaping the driver function itself is a machinery failure."""
    items = list(items)
    if not items:
        return []
    procs = procs or ncpu()
    ctx = multiprocessing.get_context("spawn")
    sys.dont_write_bytecode = True
    paths = [os.path.join(VERIF, "harness")] + list(extra_paths or [])
    with ctx.Pool(procs, initializer=_init_worker, initargs=(REPO, paths),
                  maxtasksperchild=maxtasksperchild) as pool:
        cs = chunksize or max(1, min(200, len(items) // (procs * 4) or 1))
        res = pool.map(_call, [(fn_mod, fn_name, it) for it in items], chunksize=cs)
    out = []
    for st, val in res:
        if st != "ok":
            raise Machinery("driver failure in %s.%s:\n%s" % (fn_mod, fn_name, val))
        out.append(val)
    return out


def repo_digest():
    h = hashlib.sha256()
    for root, dirs, files in os.walk(os.path.join(REPO, "PEPit")):
        dirs.sort()
        for fn in sorted(files):
            if fn.endswith(".py"):
                p = os.path.join(root, fn)
                h.update(p.encode())
                with open(p, "rb") as f:
                    h.update(f.read())
    return h.hexdigest()[:16]


# ------------------------------------------------------------------------------- verdicts, evidence

def load_known():
    out = []
    p = os.path.join(VERIF, "KNOWN_FINDINGS.json")
    if os.path.exists(p):
        with open(p) as f:
            out += json.load(f).get("findings", [])
    d = os.path.join(VERIF, "KNOWN_FINDINGS.d")       # per-property files, same format, committed
    if os.path.isdir(d):
        for fn in sorted(os.listdir(d)):
            if fn.endswith(".json"):
                with open(os.path.join(d, fn)) as f:
                    out += json.load(f).get("findings", [])
    return out


class Result(object):
    """Accumulates what a check run covered and what it found."""

    def __init__(self, pid, tier, level="model_checking"):
        self.pid, self.tier, self.level = pid, tier, level
        self.t0 = time.time()
        self.states = 0
        self.transitions = 0
        self.traces = 0
        self.evaluations = 0
        self.distinct_nontrivial = 0
        self.samples = []
        self.cov = {}
        self.extra = {}
        self.assumptions = []
        self.violations = []   # dict(signature=..., what=..., replay=dict)
        self.drift = []
        self.inconclusive = 0
        self.exhaustive = False
        self.rule = ""
        self.trusted = []

    def add_tlc(self, name, r):
        self.states += r["distinct"]
        self.transitions += r["generated"]
        self.extra.setdefault("tlc_runs", []).append(
            dict(module=name, distinct=r["distinct"], generated=r["generated"], wall_s=round(r["wall"], 1)))
        if "coverage" in r:
            self.cov[name] = r["coverage"]

    def violation(self, signature, what, replay):
        self.violations.append(dict(signature=signature, what=what, replay=replay))


def finish(res):
    """Match violations against the committed known findings, write replay files and the evidence file, print
    the verdict lines and return the exit code."""
    known = [k for k in load_known() if k.get("property") == res.pid]
    open_sigs = {k["signature"]: k for k in known if k.get("status") == "open"}
    os.makedirs(REPLAYS, exist_ok=True)
    os.makedirs(EVID, exist_ok=True)
    new, matched = [], {}
    for v in res.violations:
        sig = v["signature"]
        hit = None
        for ks in open_sigs:
            if sig == ks or (ks.endswith("*") and sig.startswith(ks[:-1])):
                hit = ks
                break
        if hit:
            matched.setdefault(hit, []).append(v)
        else:
            new.append(v)
    for ks, vs in sorted(matched.items()):
        print("KNOWN-FINDING: property=%s %s (%d occurrence(s) this run; signature %s)" % (
            res.pid, open_sigs[ks]["what"], len(vs), ks))
    rc = 0
    seen = set()
    shown = 0
    for i, v in enumerate(new):
        rc = 1
        if v["signature"] in seen or shown >= 12:
            continue
        seen.add(v["signature"])
        shown += 1
        path = os.path.join(REPLAYS, "%s-%s.json" % (res.pid, hashlib.sha1(
            json.dumps(v["replay"], sort_keys=True, default=str).encode()).hexdigest()[:10]))
        with open(path, "w") as f:
            json.dump(dict(property=res.pid, signature=v["signature"], what=v["what"], replay=v["replay"]), f,
                      indent=1, default=str)
        print("VIOLATION property=%s replay=%s" % (res.pid, path))
        print("  signature: %s" % v["signature"])
        print("  what: %s" % (v["what"],))
    if len(new) > shown:
        print("  (%d violations in total, %d distinct signatures; one replay per signature written, at most 12)" % (
            len(new), len({v["signature"] for v in new})))
    cov = dict(states=max(res.states, 0), transitions=max(res.transitions, 0),
               traces_validated_against_impl=res.traces, samples=res.samples[:6] or ["(none)"],
               evaluations=max(res.evaluations, res.traces, 1), distinct_nontrivial=res.distinct_nontrivial,
               rule=res.rule, exhaustive=res.exhaustive, action_coverage=res.cov, drift=len(res.drift),
               drift_samples=res.drift[:5], inconclusive=res.inconclusive,
               known_findings_matched={k: len(v) for k, v in matched.items()},
               new_violation_signatures=sorted({v["signature"] for v in new})[:50],
               repo_digest=repo_digest(), trusted_base=res.trusted)
    cov.update(res.extra)
    ev = dict(property_id=res.pid, tier=res.tier, seed=seed(), level=res.level, coverage=cov,
              assumptions=res.assumptions, wall_s=round(time.time() - res.t0, 2), violations=len(new))
    with open(os.path.join(EVID, res.pid + ".json"), "w") as f:
        json.dump(ev, f, indent=1, default=str)
    print("%s tier=%s states=%d transitions=%d traces=%d nontrivial=%d known=%d new=%d drift=%d wall=%.1fs" % (
        res.pid, res.tier, res.states, res.transitions, res.traces, res.distinct_nontrivial,
        sum(len(v) for v in matched.values()), len(new), len(res.drift), time.time() - res.t0))
    return rc


def write_ndjson(path, recs):
    with open(path, "w") as f:
        for r in recs:
            f.write(json.dumps(r, separators=(",", ":")) + "\n")
