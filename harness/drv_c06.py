"""C06 driver: replay an operator program of spec/Algebra.tla on the real Point / Expression / Constraint classes."""
import warnings
from fractions import Fraction
import proj

NP, NE = 2, 1
SCAL = [(-1, 1), (0, 1), (2, 1), (1, 2)]
JUNK = ["str", "none", "list", "cplx"]


def set_dims(np_, ne):
    global NP, NE
    NP, NE = np_, ne


TINY = 2.0 ** -20          # variant 2: the 4th scalar is a genuinely tiny number instead of 1/2
BASE = 1 << 20
SCALE = 1 << 8
DEG = 6


def retiny(c):
    """Variant 2 runs the program with the 4th scalar eps = 2^-20 (exact in binary floating point for programs of depth
    <= 4).  Every coefficient is then a Laurent polynomial sum_k a_k eps^k with small dyadic a_k; the digits a_k are
    recovered exactly (balanced base-2^20 digits) and the polynomial is re-evaluated at eps = 1/2, the value the 4th
    scalar has in spec/Algebra.tla.  An exact, invertible re-encoding - coefficients the library drops because they are
    'small' change the digits."""
    c = Fraction(c)
    N = c * (BASE ** DEG) * SCALE
    if N.denominator != 1:
        raise proj.Inexact("coefficient %r is not a short Laurent polynomial in 2^-20" % c)
    N = N.numerator
    out = Fraction(0)
    for j in range(0, 2 * DEG + 1):          # digit of BASE^j  <->  eps^(DEG - j)
        r = N % BASE
        if r > BASE // 2:
            r -= BASE
        N = (N - r) // BASE
        if r:
            k = DEG - j
            out += Fraction(r, SCALE) * (Fraction(1, 2) ** k if k >= 0 else Fraction(2) ** (-k))
    if N != 0:
        raise proj.Inexact("coefficient %r has too many digits" % c)
    return out


def scalar(i, variant):
    n, d = SCAL[i - 1]
    if variant == 2 and i == 4:
        return TINY
    if d == 1:
        return int(n) if variant == 0 else float(n)
    return n / d


def junk(i, variant=0):
    # a string is a string: the float scalars replay uses one that LOOKS like a number
    return {"str": "a" if variant == 0 else "3", "none": None, "list": [1], "cplx": 1j}[JUNK[i - 1]]


VARIANT = 0


def _re(v):
    return [retiny(x) for x in v] if VARIANT == 2 else v


def flat(o):
    try:
        return _flat(o)
    except (TypeError, ValueError, proj.Inexact, AttributeError, OverflowError) as e:
        # an object was produced that has no normal form over the rationals (e.g. complex coefficients): it is reported
        # as an object of another kind, which no documented operator may produce
        NPAIR = NP * (NP + 1) // 2
        return dict(k="other:unprojectable-" + type(e).__name__, sense="-", pn=[0] * NP, pd=[1] * NP, Fn=[0] * NE, Fd=[1] * NE,
                    Gn=[0] * NPAIR, Gd=[1] * NPAIR, c=[0, 1])


def _flat(o):
    from PEPit import Point, Expression, Constraint
    NPAIR = NP * (NP + 1) // 2
    out = dict(k="raises", sense="-", pn=[0] * NP, pd=[1] * NP, Fn=[0] * NE, Fd=[1] * NE, Gn=[0] * NPAIR,
               Gd=[1] * NPAIR, c=[0, 1])
    if o is None:
        return out
    if isinstance(o, Point):
        v = _re(proj.pvec(o, NP, exact=VARIANT != 2) if VARIANT != 2 else _pvec_any(o))
        out.update(k="pt", pn=[x.numerator for x in v], pd=[x.denominator for x in v])
        return out
    if isinstance(o, Constraint):
        out.update(k="co", sense=proj.sense(o))
        e = o.expression
    elif isinstance(o, Expression):
        out["k"] = "ex"
        e = o
    else:
        out["k"] = "other:" + type(o).__name__
        return out
    if VARIANT == 2:
        F, G, c = _evec_any(e)
        F, G, c = _re(F), _re(G), retiny(c)
        out.update(Fn=[x.numerator for x in F], Fd=[x.denominator for x in F], Gn=[x.numerator for x in G],
                   Gd=[x.denominator for x in G], c=[c.numerator, c.denominator])
    else:
        out.update(proj.jex(e, NP, NE))
    return out


def _pvec_any(p):
    v = [Fraction(0)] * NP
    for k, w in p.decomposition_dict.items():
        v[k.counter] += Fraction(w)
    return v


def _evec_any(e):
    from PEPit import Expression
    idx = proj.pair_index(NP)
    F = [Fraction(0)] * NE
    G = [Fraction(0)] * len(idx)
    c = Fraction(0)
    for k, w in e.decomposition_dict.items():
        w = Fraction(w)
        if isinstance(k, Expression):
            F[k.counter] += w
        elif isinstance(k, tuple):
            i, j = sorted((k[0].counter, k[1].counter))
            G[idx[(i, j)]] += w
        else:
            c += w
    return F, G, c


def operand(x, objs, variant):
    if x["t"] == "obj":
        return objs[x["i"] - 1]
    if x["t"] == "sc":
        return scalar(x["i"], variant)
    if x["t"] == "junk":
        return junk(x["i"], variant)
    return None


def apply(o, objs, variant):
    a = operand(o["a"], objs, variant)
    b = operand(o["b"], objs, variant)
    op = o["op"]
    if op == "add": return a + b
    if op == "sub": return a - b
    if op == "mul": return a * b
    if op == "div": return a / b
    if op == "neg": return -a
    if op == "sq": return a ** 2
    if op == "pow3": return a ** 3
    if op == "le": return a <= b
    if op == "ge": return a >= b
    if op == "lt": return a < b
    if op == "gt": return a > b
    if op == "eq": return a == b
    if op in ("iadd", "isub", "imul", "idiv"):
        r = a                      # a second reference to the left operand, then the augmented assignment on it
        if op == "iadd": r += b
        elif op == "isub": r -= b
        elif op == "imul": r *= b
        else: r /= b
        return r
    if op in ("mx11", "mx12"):
        from PEPit import PSDMatrix
        m = PSDMatrix([[a, b], [b, a]])
        return m[0, 0] if op == "mx11" else m[0, 1]
    raise KeyError(op)


def run(item):
    from PEPit import PEP, Point, Expression
    warnings.simplefilter("ignore")
    if "dims" in item:
        set_dims(*item["dims"])
    global VARIANT
    variant = item["variant"]
    VARIANT = variant
    PEP()
    objs = [Point() for _ in range(NP)] + [Expression() for _ in range(NE)]
    objs.append(objs[NP] <= 0)
    init = [flat(x) for x in objs]
    cur = list(init)
    res, chg, exc = [], [], []
    for o in item["h"]:
        try:
            r = apply(o, objs, variant)
            exc.append("")
        except Exception as e:     # the outcome of the call IS the observation
            r = None
            exc.append(type(e).__name__)
        objs.append(r)
        now = [flat(x) for x in objs[:-1]]
        chg.append([i + 1 for i in range(len(now)) if now[i] != cur[i]])
        cur = now + [flat(r)]
        res.append(cur[-1])
    return dict(h=item["h"], variant=variant, init=init, res=res, chg=chg, exc=exc)
