"""C06 driver: replay an operator program of spec/Algebra.tla on the real Point / Expression / Constraint classes."""
import warnings
from fractions import Fraction
import proj

NP, NE = 2, 1
SCAL = [(-1, 1), (0, 1), (2, 1), (1, 2)]
JUNK = ["str", "none", "list", "cplx"]


def set_dims(np_, ne):
    global NP, NE
    NP, NE = np_, ne


def scalar(i, variant):
    n, d = SCAL[i - 1]
    if d == 1:
        return int(n) if variant == 0 else float(n)
    return n / d


def junk(i):
    return {"str": "a", "none": None, "list": [1], "cplx": 1j}[JUNK[i - 1]]


def flat(o):
    from PEPit import Point, Expression, Constraint
    NPAIR = NP * (NP + 1) // 2
    out = dict(k="raises", sense="-", pn=[0] * NP, pd=[1] * NP, Fn=[0] * NE, Fd=[1] * NE, Gn=[0] * NPAIR,
               Gd=[1] * NPAIR, c=[0, 1])
    if o is None:
        return out
    if isinstance(o, Point):
        v = proj.pvec(o, NP)
        out.update(k="pt", pn=[x.numerator for x in v], pd=[x.denominator for x in v])
        return out
    if isinstance(o, Constraint):
        out.update(k="co", sense=proj.sense(o))
        e = o.expression
    elif isinstance(o, Expression):
        out["k"] = "ex"
        e = o
    else:
        out["k"] = "other:" + type(o).__name__
        return out
    out.update(proj.jex(e, NP, NE))
    return out


def operand(x, objs, variant):
    if x["t"] == "obj":
        return objs[x["i"] - 1]
    if x["t"] == "sc":
        return scalar(x["i"], variant)
    if x["t"] == "junk":
        return junk(x["i"])
    return None


def apply(o, objs, variant):
    a = operand(o["a"], objs, variant)
    b = operand(o["b"], objs, variant)
    op = o["op"]
    if op == "add": return a + b
    if op == "sub": return a - b
    if op == "mul": return a * b
    if op == "div": return a / b
    if op == "neg": return -a
    if op == "sq": return a ** 2
    if op == "pow3": return a ** 3
    if op == "le": return a <= b
    if op == "ge": return a >= b
    if op == "lt": return a < b
    if op == "gt": return a > b
    if op == "eq": return a == b
    if op in ("iadd", "isub", "imul", "idiv"):
        r = a                      # a second reference to the left operand, then the augmented assignment on it
        if op == "iadd": r += b
        elif op == "isub": r -= b
        elif op == "imul": r *= b
        else: r /= b
        return r
    if op in ("mx11", "mx12"):
        from PEPit import PSDMatrix
        m = PSDMatrix([[a, b], [b, a]])
        return m[0, 0] if op == "mx11" else m[0, 1]
    raise KeyError(op)


def run(item):
    from PEPit import PEP, Point, Expression
    warnings.simplefilter("ignore")
    if "dims" in item:
        set_dims(*item["dims"])
    variant = item["variant"]
    PEP()
    objs = [Point() for _ in range(NP)] + [Expression() for _ in range(NE)]
    objs.append(objs[NP] <= 0)
    init = [flat(x) for x in objs]
    cur = list(init)
    res, chg, exc = [], [], []
    for o in item["h"]:
        try:
            r = apply(o, objs, variant)
            exc.append("")
        except Exception as e:     # the outcome of the call IS the observation
            r = None
            exc.append(type(e).__name__)
        objs.append(r)
        now = [flat(x) for x in objs[:-1]]
        chg.append([i + 1 for i in range(len(now)) if now[i] != cur[i]])
        cur = now + [flat(r)]
        res.append(cur[-1])
    return dict(h=item["h"], variant=variant, init=init, res=res, chg=chg, exc=exc)
