"""Driver shared by C01/C02/C05/C13/C14 (and C11 on the stand-in MOSEK): build a PEP from an abstract program,
solve it (possibly several times, with edits in between) under recording wrappers, log everything exposed."""
import io, contextlib, warnings, os
import pepsolve


def apply_edit(b, edit):
    from PEPit import Expression
    pep = b.pep
    if edit in ("none", None):
        return
    x, x0 = b.held["x"], b.held["x0"]
    if edit == "init":           # replace the initial condition by a looser one
        old = pep.list_of_constraints[0]
        if "xs" in b.held:
            pep.list_of_constraints[0] = ((x0 - b.held["xs"]) ** 2 <= 4)
        else:
            pep.list_of_constraints[0] = (old.expression + 1 <= 4)      # same left-hand side, bound 4 instead of 1
        # the user withdrew `old` and declared the new condition in its place
        b.user_decl[:] = [("sc", pep.list_of_constraints[0], None) if (k == "sc" and o is old) else (k, o, w)
                          for (k, o, w) in b.user_decl]
    elif edit == "metric":
        m = b.held["m1"] / 2 + 0
        pep.set_performance_metric(m)
        b.held["m_edit"] = m
    elif edit == "lmi":
        t = Expression()
        m = pep.add_psd_matrix([[(x - x0) ** 2 + 1, t], [t, 1]])
        b.held["t_edit"] = t
        b.held["lmi_edit"] = m
    elif edit == "tsample":      # LinearOperator: one more sample of the adjoint (only the transpose's list grows)
        y1 = pep.set_initial_point()
        pep.add_constraint(y1 ** 2 <= 1)
        b.held["ty1"] = b.f.T.gradient(y1)
        m = b.held["m1"] / 2 + b.held["ty1"] ** 2 / 4
        pep.set_performance_metric(m)
        b.held["m_tsample"] = m
    elif edit == "step":         # the user continues the method by one step after a solve and looks at the new iterate
        kind = pepsolve.class_table()[b.prog["cls"]][0]
        from PEPit.primitive_steps import proximal_step
        if kind == "fun" and b.h is None:
            xn = x - pepsolve.GAMMA * b.f.gradient(x)
        elif kind in ("lin", "qg"):
            xn = x - pepsolve.GAMMA * b.f.gradient(x)
        else:
            xn, _, _ = proximal_step(x, b.F, pepsolve.GAMMA)
        m = (xn - x0) ** 2 / 4 + b.held["m1"] / 2
        pep.set_performance_metric(m)
        b.held["x_step"] = xn
        b.held["m_step"] = m
    elif edit == "fcons":        # the function gets its FIRST own constraint after a solve; it caps the metric
        c = (b.held["m1"] <= 1 / 64)
        b.f.add_constraint(c)
        b.held["c_fcons"] = c
    elif edit == "block":        # one more point is decomposed by the partition after a solve
        b.held["blk_d"] = b.part.get_block(b.held["d"], 0)
        b.part_blocks.append([b.part.get_block(b.held["d"], k) for k in range(2)])
    elif edit == "infeasible":   # makes the model infeasible
        c = ((x - x0) ** 2 <= -1)
        pep.add_constraint(c)
        b.held["c_infeasible"] = c
    elif edit == "feasible-again":
        pep.list_of_constraints.remove(b.held["c_infeasible"])
        b.user_decl[:] = [(k, o, w) for (k, o, w) in b.user_decl if o is not b.held["c_infeasible"]]
    else:
        raise KeyError(edit)


def post_objects(b, k=1):
    """objects the user builds AFTER a successful solve from objects held before it (C02: '...including ones built
    after the solve'); the second group is built after a new leaf point was created (finding F13)."""
    from PEPit import Point
    x, x0 = b.held["x"], b.held["x0"]
    pre = "post_" if k == 1 else "post%d_" % k
    b.held[pre + "sum"] = x + x0 / 2
    b.held[pre + "inner"] = x * x0
    b.held[pre + "sq"] = (x - x0) ** 2 - 1
    b.held[pre + "con"] = (b.held[pre + "inner"] <= 1)


def postleaf_objects(b):
    from PEPit import Point
    x, x0 = b.held["x"], b.held["x0"]
    Point()                                        # a fresh leaf, e.g. the start of the user's next experiment
    out = []
    for name, mk in (("postleaf_sum", lambda: x - x0 / 2), ("postleaf_sq", lambda: (x + x0) ** 2)):
        try:
            mk().eval()
            out.append(dict(name=name, out="ok"))
        except Exception as e:
            out.append(dict(name=name, out="raises:" + type(e).__name__))
    return out


def lmishape(prog):
    """how the model's LMIs that are not symmetric as written enter (finding F7 is about asymmetric roles)"""
    if prog["cls"] in (4, 6, 7, 8):
        return "class-lmi"
    if "N2" in prog.get("lmis", []):
        if prog.get("lmimetric") and prog["lmis"][0] == "N2":
            return "user-lmi-symmetric-roles" if prog.get("metrics", 1) >= 2 else "user-lmi-asymmetric-roles"
        return "user-lmi-slack"
    if prog["cls"] in (4, 6, 7, 8):
        return "class-lmi"
    return "none"


def run(item):
    warnings.simplefilter("ignore")
    import cvxpy
    pepsolve.install_recording_wrappers()
    prog = item["prog"]
    b = pepsolve.build(prog)
    import gc
    gc.collect()
    out = dict(prog=prog, solves=[], note="", item=item)
    for opts in item["solves"]:
        if opts.get("edit") == "twin":          # the same program built again, to be solved through the other back-end
            b = pepsolve.build(prog)
        elif opts.get("edit") == "fresh-twin":  # a newly built equivalent model: same program, all edits so far, one solve
            b = pepsolve.build(prog)
            for prev in item["solves"]:
                if prev is opts:
                    break
                if prev.get("edit") not in (None, "none", "twin", "fresh-twin"):
                    apply_edit(b, prev["edit"])
        else:
            pepsolve.CURRENT_DECL[0] = b.user_decl
            apply_edit(b, opts.get("edit", "none"))
        del pepsolve.LOG[:]
        if opts.get("wrapper") == "mosek":
            try:
                import mosek                   # the stand-in, when the check put it on the path
                del mosek.CALLS[:]
            except ImportError:
                pass                           # not installed: solve() falls back to cvxpy (C14 exercises that)
        kw = dict(wrapper=opts.get("wrapper", "cvxpy"), return_primal_or_dual=opts.get("mode", "dual"),
                  verbose=opts.get("verbose", 0), solver=opts.get("solver", "CLARABEL"))
        heur = opts.get("heur", "none")
        if heur != "none":
            kw.update(dimension_reduction_heuristic=heur, tol_dimension_reduction=opts.get("tol", 1e-4),
                      eig_regularization=opts.get("reg", 1e-3))
        buf = io.StringIO()
        del pepsolve.PROTO[:]
        pepsolve.PROTO_HEAD[0] = None
        pepsolve.CURRENT_PEP[0] = b.pep
        pepsolve._ev("call", heur=heur, mode=kw["return_primal_or_dual"],
                     n=0 if heur == "none" else 1 if heur == "trace" else int(heur[6:]))
        try:
            with contextlib.redirect_stdout(buf):
                ret = b.pep.solve(**kw)
        except cvxpy.error.SolverError as e:
            out["note"] = "inconclusive:SolverError"
            break
        except Exception as e:
            # a valid model with valid options: an exception escaping solve() is an observation, not a harness failure
            import traceback
            tb = traceback.extract_tb(e.__traceback__)
            where = [f for f in tb if "/PEPit/" in f.filename]
            crash = "%s@%s" % (type(e).__name__, (os.path.basename(where[-1].filename) + ":" + where[-1].name) if where else "?")
            out["raise_msg"] = str(e)[:200]
            statuses = [ev["status"] for ev in pepsolve.LOG if ev["ev"] == "solve"]
            if any(st not in ("optimal", "prosta.prim_and_dual_feas") for st in statuses) or "solution undefined" in str(e):
                # the numerical solver itself gave up in one of the internal solves (e.g. the heuristic problem with a
                # zero tolerance): what PEPit does next is not judged
                out["note"] = "inconclusive:solver-gave-up(%s)" % ",".join(statuses)
                break
            try:
                obs = pepsolve.observe(b.pep, None, b.held, with_native=False, user_decl=b.user_decl, part_blocks=b.part_blocks)
            except Exception:
                out["note"] = "raises:" + crash
                break
            obs["crash"] = crash
            obs["lmishape"] = lmishape(prog)
            obs["postleaf"] = []
            obs["opts"] = dict(wrapper=kw["wrapper"], mode=kw["return_primal_or_dual"], heur=heur,
                               tol=pepsolve.fx(opts.get("tol", 1e-4)), solver=kw["solver"], verbose=kw["verbose"])
            obs["edit"] = opts.get("edit", "none") or "none"
            obs["phases"] = pepsolve.phases(pepsolve.LOG)
            obs["objsense"] = "n/a"
            obs["printed"] = 0
            out["solves"].append(obs)
            break
        statuses = [e["status"] for e in pepsolve.LOG if e["ev"] == "solve"]
        if any("inaccurate" in s for s in statuses):
            out["note"] = "inconclusive:" + ",".join(statuses)
            break
        first_ok = ret is not None and len(out["solves"]) == 0 and len(item["solves"]) == 1
        if ret is not None:
            post_objects(b, len(out["solves"]) + 1)
        obs = pepsolve.observe(b.pep, ret, b.held, user_decl=b.user_decl, part_blocks=b.part_blocks)
        obs["postleaf"] = postleaf_objects(b) if first_ok else []
        obs["opts"] = dict(wrapper=kw["wrapper"], mode=kw["return_primal_or_dual"], heur=heur,
                           tol=pepsolve.fx(opts.get("tol", 1e-4)), solver=kw["solver"], verbose=kw["verbose"])
        obs["crash"] = ""
        obs["lmishape"] = lmishape(prog)
        obs["edit"] = opts.get("edit", "none") or "none"
        obs["phases"] = pepsolve.phases(pepsolve.LOG)
        w = b.pep.wrapper
        try:
            obs["objsense"] = w.prob.objective.NAME if heur == "none" and b.pep.wrapper_name == "cvxpy" else "n/a"
        except Exception:
            obs["objsense"] = "n/a"
        obs["printed"] = 1 if buf.getvalue().strip() else 0
        pepsolve._ev("return", ret="none" if ret is None else "num")
        obs["proto"] = dict(model=pepsolve.PROTO_HEAD[0] or dict(metrics=0, pepcons=0, peplmis=0, leafs=[], fwc=[], parts=[]),
                            ev=list(pepsolve.PROTO))
        out["solves"].append(obs)
    return out
