"""C16 driver: put a model into a scenario of spec/Access.tla, then perform the accesses and record outcome kinds."""
import io, contextlib, warnings


def build(scn):
    from PEPit import PEP, Point, Expression
    from PEPit.functions import ConvexFunction, SmoothStronglyConvexFunction
    pep = PEP()
    held = {}
    if scn == "unbounded1":
        f = pep.declare_function(ConvexFunction)
    else:
        f = pep.declare_function(SmoothStronglyConvexFunction, mu=.25, L=1.)
    xs = f.stationary_point()
    x0 = pep.set_initial_point()
    ic = ((x0 - xs) ** 2 <= 1)
    if scn != "unbounded2":
        pep.set_initial_condition(ic)
    g0, f0 = f.oracle(x0)
    x1 = x0 - 0.5 * g0
    t = Expression()
    lmi_rows = [[(x1 - xs) ** 2 + 1, t], [t, 1]]
    metric = f(x1) - f(xs)
    if scn == "unbounded1":
        metric = f0 - f(xs)
    if scn == "unbounded3":
        metric = Expression() + 0
    if scn == "infeasible1":
        pep.add_constraint((x1 - x0) ** 2 <= -1)
    if scn == "infeasible2":
        pep.add_constraint(t <= 0)
        pep.add_constraint(t >= 1)
    if scn == "infeasible3":
        lmi_rows = [[t, 0], [0, -1]]
    if scn == "infeasible4":
        w = 0
        pep.add_constraint(w * (x0 - xs) ** 2 >= 1)         # a weight set to zero: the condition is the constant 0 >= 1
    lmi = pep.add_psd_matrix(lmi_rows)
    if scn != "unbounded4":
        pep.set_performance_metric(metric)
    held.update(function=f, leafpoint=x0, derivedpoint=x1, leafexpr=f0, derivedexpr=(x1 - xs) ** 2, constraint=ic if scn != "unbounded2" else (t <= 5),
                lmi=lmi, metric=metric, zeropoint=0 * x0, zeroexpr=0 * f0, zeroprod=(1 - 1.0) * ((x1 - xs) ** 2))
    if scn == "unbounded2":
        pep.add_constraint(held["constraint"])
    return pep, held


def kind(v):
    return "none" if v is None else "num"


def run(item):
    warnings.simplefilter("ignore")
    scn = item["scn"]
    buf = io.StringIO()
    solve_out = "n/a"
    with contextlib.redirect_stdout(buf):
        if scn == "other-solved":
            pa, _ = build("solved")
            pa.solve(verbose=0, solver="CLARABEL")
            pep, held = build("fresh")
        else:
            pep, held = build(scn)
        outs = []
        if item["mode"] == "badopt":
            c = item["h"][0]
            kw = dict(solver="CLARABEL")
            kw[c["a"]] = c["v"]
            try:
                outs.append(kind(pep.solve(verbose=0, **kw)))
            except Exception as e:
                outs.append("raises:" + type(e).__name__)
            return dict(scn=scn, mode=item["mode"], h=item["h"], out=outs, solve="n/a")
        if scn not in ("fresh", "other-solved"):
            try:
                solve_out = kind(pep.solve(verbose=0, solver="CLARABEL"))
            except Exception as e:
                import cvxpy
                if isinstance(e, cvxpy.error.SolverError):
                    return dict(scn=scn, mode=item["mode"], h=item["h"], out=[], solve="inconclusive")
                solve_out = "raises:" + type(e).__name__
        for c in item["h"]:
            o = held[c["o"]]
            try:
                if c["a"] == "duals":             # the per-condition tables of multipliers of the function
                    tabs = o.get_class_constraints_duals()
                    outs.append("ok" if len(tabs) > 0 else "empty")
                    continue
                v = o.eval() if c["a"] == "eval" else o.eval_dual()
                outs.append("ok" if v is not None else "none")
            except Exception as e:
                outs.append("raises:" + type(e).__name__)
    return dict(scn=scn, mode=item["mode"], h=item["h"], out=outs, solve=solve_out)
