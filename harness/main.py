import sys, os, importlib, argparse, traceback
sys.dont_write_bytecode = True
HERE = os.path.dirname(os.path.abspath(__file__))
sys.path.insert(0, HERE)
sys.path.insert(0, os.path.join(HERE, "props"))
import core


def setup():
    bad = 0
    mods = sorted(f[:-4] for f in os.listdir(core.SPEC) if f.endswith(".tla"))
    for m in mods:
        ok, out = core.sany(m)
        print("sany %-20s %s" % (m, "ok" if ok else "FAILED"))
        if not ok:
            print(out[-2000:])
            bad += 1
    for root, _, files in os.walk(HERE):
        for fn in files:
            if fn.endswith(".py"):
                try:
                    with open(os.path.join(root, fn)) as f:
                        compile(f.read(), fn, "exec")
                except Exception as e:
                    print("compile failed", fn, e)
                    bad += 1
    return 2 if bad else 0


def main():
    ap = argparse.ArgumentParser()
    ap.add_argument("what")
    ap.add_argument("--tier", default=os.environ.get("VERIF_TIER", "quick"), choices=["quick", "thorough"])
    ap.add_argument("--replay", default=None)
    a = ap.parse_args()
    if a.what == "setup":
        return setup()
    if a.what == "selftest":
        import selftest
        return selftest.main()
    try:
        mod = importlib.import_module(a.what.lower())
    except ImportError:
        print("unknown check", a.what)
        traceback.print_exc()
        return 2
    try:
        if a.replay:
            return mod.replay(a.replay)
        return mod.run(a.tier)
    except core.Machinery as e:
        print("MACHINERY-FAILURE %s: %s" % (a.what, e))
        return 2
    except Exception:
        # a bug in the harness itself must never look like a verdict (exit 1 is reserved for violations)
        print("MACHINERY-FAILURE %s: unexpected exception in the harness" % a.what)
        traceback.print_exc()
        return 2


if __name__ == "__main__":
    sys.exit(main())
