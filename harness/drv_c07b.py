"""C07 driver for spec/OracleAlg.tla: functions are BUILT by the program with the DSL operators (+, -, unary -, scalar *,
/), then queried.  Also: one leaf function of any shipped class declared with an explicit reuse_gradient value."""
import proj
from fractions import Fraction
from drv_c07 import sparse, fvec, table

MAXP = MAXE = 20
FSC = [(-1, 1), (0, 1), (2, 1), (1, 2)]


def fscalar(i, variant):
    n, d = FSC[i - 1]
    if d == 1:
        return int(n) if variant == 0 else float(n)
    return n / d


def run(item):
    from PEPit import PEP, Point, Expression
    from PEPit.functions import ConvexFunction, SmoothConvexFunction
    from PEPit.primitive_steps import proximal_step
    pep = PEP()
    x1, x2 = Point(), Point()
    variant = item.get("variant", 0)
    if item.get("cls"):
        # one leaf function of a shipped class, declared with an explicit reuse_gradient value
        import PEPit.functions as PF
        import PEPit.operators as PO
        cls = getattr(PF, item["cls"], None) or getattr(PO, item["cls"])
        kw = dict(item["kw"])
        if item["cls"] == "BlockSmoothConvexFunction":
            kw = dict(partition=pep.declare_block_partition(d=1), L=[1.])
        import io, contextlib
        with contextlib.redirect_stdout(io.StringIO()):
            f = pep.declare_function(cls, reuse_gradient=bool(item["flag"]), **kw)
        funs = [f]
        requested = {id(f): bool(item["flag"])}
        np0 = Point.counter
    else:
        f1 = pep.declare_function(ConvexFunction)
        f2 = pep.declare_function(SmoothConvexFunction, L=1.)
        f3 = pep.declare_function(ConvexFunction)
        funs = [f1, f2, f3]
        requested = {}
        np0 = 2
    leaf_id = {id(f): k + 1 for k, f in enumerate(funs)}

    nq = [item.get("variant", 0) + len(item["h"])]

    def query(q):
        # the two leaf points are queried alternately as the leaf object itself and as a derived point with the same
        # decomposition (1 * x): "two points with the same decomposition are the same point", in both orders
        nq[0] += 1
        if q == 1: return x1 if nq[0] % 2 == 1 else 1 * x1
        if q == 2: return x2 if nq[0] % 2 == 1 else 1 * x2
        if q == 3: return x1 - x2
        if q == 4: return 0 * x2
        if q == 5: return x1 - x1
        if q == 6: return (1 + 2.0 ** -20) * x1
        raise KeyError(q)

    def tab(f):
        t = table(f, leaf_id, MAXP, MAXE)
        if id(f) in requested:
            t["diff"] = 1 if requested[id(f)] else 0       # what the USER asked for, not what the object says
        return t

    def snap():
        return [tab(f) for f in funs]

    cur = snap()
    out = dict(h=item["h"], np0=Point.counter, ne0=Expression.counter, funs0=cur, steps=[], cls=item.get("cls", ""),
               variant=variant)
    for c in item["h"]:
        exc = ""
        nbefore = len(funs)
        try:
            op = c["op"]
            if op in ("fadd", "fsub", "fneg", "frmul", "fmul", "fdiv"):
                a = funs[c["f"] - 1]
                b = funs[c["g"] - 1] if c["g"] else None
                s = fscalar(c["s"], variant) if c["s"] else None
                new = (a + b if op == "fadd" else a - b if op == "fsub" else -a if op == "fneg" else
                       s * a if op == "frmul" else a * s if op == "fmul" else a / s)
                funs.append(new)
            else:
                f = funs[c["f"] - 1]
                if op == "oracle":
                    f.oracle(query(c["q"]))
                elif op == "gradient":
                    f.gradient(query(c["q"]))
                elif op == "value":
                    f.value(query(c["q"]))
                elif op == "call":
                    f(query(c["q"]))
                elif op == "stat":
                    f.stationary_point()
                elif op == "fixed":
                    f.fixed_point()
                elif op == "prox":
                    proximal_step(query(c["q"]), f, 0.5)
                else:
                    raise KeyError(op)
        except (AssertionError, TypeError, ValueError, ZeroDivisionError, AttributeError, IndexError) as e:
            exc = type(e).__name__
        if Point.counter > MAXP or Expression.counter > MAXE:
            raise RuntimeError("leaf budget exceeded")
        now = snap()
        chg = [dict(fid=i + 1, fn=now[i]) for i in range(len(funs)) if i >= len(cur) or now[i] != cur[i]]
        cur = now
        out["steps"].append(dict(np=Point.counter, ne=Expression.counter, chg=chg, exc=exc))
    return out
