"""Driver for spec/PEPit.tla: replay a behaviour on the real library, read every registry after every call."""
import io, contextlib, warnings


def registries():
    from PEPit.point import Point
    from PEPit.expression import Expression
    from PEPit.function import Function
    from PEPit.constraint import Constraint
    from PEPit.psd_matrix import PSDMatrix
    from PEPit.block_partition import BlockPartition
    from PEPit.pep import PEP
    return [Point.counter, Expression.counter, Function.counter, len(Function.list_of_functions), Constraint.counter,
            PSDMatrix.counter, BlockPartition.counter, PEP.counter]


def run(item):
    warnings.simplefilter("ignore")
    from PEPit import PEP, Point, Expression
    from PEPit.functions import SmoothStronglyConvexFunction, ConvexFunction, ConvexQGFunction
    cls = dict(smooth=(SmoothStronglyConvexFunction, dict(mu=.25, L=1.)), convex=(ConvexFunction, {}),
               qg=(ConvexQGFunction, dict(L=1.)))
    pep, funs, pts, parts = None, [], [], []
    comps = []
    obs = []
    for a in item["h"]:
        with contextlib.redirect_stdout(io.StringIO()):
            try:
                k = a["a"]
                if k == "pep":
                    pep, funs, pts, parts = PEP(), [], [], []
                elif k == "declare":
                    c, kw = cls[a["c"]]
                    funs.append(pep.declare_function(c, **kw))
                elif k == "point":
                    pts.append(pep.set_initial_point())
                elif k == "oracle":
                    funs[a["f"] - 1].oracle(pts[a["k"] - 1])
                elif k == "stationary":
                    funs[a["f"] - 1].stationary_point()
                elif k == "condition":
                    pep.set_initial_condition(pts[0] ** 2 <= 1)
                elif k == "metric":
                    pep.set_performance_metric(pts[0] ** 2)
                elif k == "lmi":
                    t = Expression()
                    pep.add_psd_matrix([[pts[0] ** 2 + 1, t], [t, 1]])
                elif k == "partition":
                    parts.append(pep.declare_block_partition(d=a["k"]))
                elif k == "block":
                    parts[0].get_block(pts[a["k"] - 1], 0)
                elif k == "solve":
                    pep.solve(verbose=0, solver="CLARABEL")
                elif k == "compose":
                    comps.append(funs[a["f"] - 1] + funs[a["k"] - 1])
                elif k == "fcondition":
                    funs[a["f"] - 1].add_constraint(pts[0] ** 2 <= 2)
                elif k == "prox":
                    from PEPit.primitive_steps import proximal_step
                    proximal_step(pts[a["k"] - 1], funs[a["f"] - 1], 1)
                else:
                    raise KeyError(k)
            except KeyError:
                raise
            except Exception:
                pass          # a solve that fails numerically still created what it creates
        obs.append(registries())
    return dict(h=item["h"], obs=obs)
