"""C03 driver: replay a declaration history of spec/MemberHist.tla on one real function / operator class, let the
library generate its class constraints, and record

* the ROLE of every leaf point / leaf expression, taken from the public calls the driver made and what they
  returned (x = Point() is a free point; g, f = func.oracle(x) are "a (sub)gradient of func at x" and "the value
  of func at x"; stationary_point() returns a point with zero gradient; fixed_point() a point x with g = x;
  BlockPartition.blocks_dict[p] are the blocks of p; v is the infimal displacement vector), and
* the GENERATED class constraints / class LMIs (and the partition constraints) as sparse normal forms read from
  decomposition_dict only.

Nothing is evaluated here: spec/MembersTrace.tla instantiates the leaves with real members of the class."""
import contextlib
import io
import re
import warnings
from fractions import Fraction
import proj

# class -> (constructor parameter names, in the order of the case parameters of spec/Members.tla)
PARAMS = {
    "ConvexFunction": [], "StronglyConvexFunction": ["mu"], "SmoothFunction": ["L"], "SmoothConvexFunction": ["L"],
    "SmoothStronglyConvexFunction": ["mu", "L"], "ConvexLipschitzFunction": ["M"],
    "SmoothConvexLipschitzFunction": ["L", "M"], "ConvexQGFunction": ["L"], "RsiEbFunction": ["mu", "L"],
    "ConvexIndicatorFunction": ["D"], "ConvexSupportFunction": ["M"],
    "SmoothStronglyConvexQuadraticFunction": ["mu", "L"], "BlockSmoothConvexFunction": None,
    "CocoerciveOperator": ["beta"], "CocoerciveStronglyMonotoneOperator": ["mu", "beta"], "LinearOperator": ["L"],
    "LipschitzOperator": ["L"], "LipschitzStronglyMonotoneOperator": ["mu", "L"], "MonotoneOperator": [],
    "NegativelyComonotoneOperator": ["rho"], "NonexpansiveOperator": None, "SkewSymmetricLinearOperator": ["L"],
    "StronglyMonotoneOperator": ["mu"], "SymmetricLinearOperator": ["mu", "L"],
}


def pval(p):
    n, d = p
    if d == 0:
        return float("inf")
    return float(Fraction(n, d))


def sparse_pt(p):
    """sparse normal form of a point over the leaf points: [[leaf index (1-based), n, d], ...]"""
    from PEPit.point import Point
    acc = {}
    for k, w in p.decomposition_dict.items():
        if not isinstance(k, Point) or not k.get_is_leaf():
            raise proj.Inexact("point key is not a leaf point")
        acc[k.counter] = acc.get(k.counter, Fraction(0)) + proj.rat(w, True)
    return [[k + 1, v.numerator, v.denominator] for k, v in sorted(acc.items()) if v != 0]


def sparse_ex(e, NP, NE):
    F, G, c = proj.evec(e, NP, NE, exact=False)
    prs = proj.pairs(NP)
    return dict(F=[[k + 1, v.numerator, v.denominator] for k, v in enumerate(F) if v != 0],
                G=[[prs[k][0] + 1, prs[k][1] + 1, v.numerator, v.denominator] for k, v in enumerate(G) if v != 0],
                c=[c.numerator, c.denominator])


def hist_str(h):
    out = []
    for ev in h:
        e = ev["e"]
        out.append(e + (str(ev["i"]) if e in "RGUWCB" else "") + (str(ev["j"]) if e == "C" else "")
                   + (("b%d" % ev["j"]) if e == "B" else ""))
    return ";".join(out)


def run(item):
    from PEPit import PEP, Point, Expression
    import PEPit.functions as PF
    import PEPit.operators as PO
    warnings.simplefilter("ignore")
    cls_name, P, hist = item["cls"], item["P"], item["h"]
    out = dict(ci=item.get("ci", 0), cls=cls_name, P=[list(p) for p in P], hist=hist_str(hist), h=hist, d=0, exc="")
    problem = PEP()
    cls = getattr(PF, cls_name, None) or getattr(PO, cls_name)
    roles = {}        # leaf point counter -> (role, point the role refers to, block index)
    fr = {}           # leaf expression counter -> point at which it is the function value
    partition = None
    vm = 0
    if cls_name == "BlockSmoothConvexFunction":
        d = len(P)
        partition = problem.declare_block_partition(d=d)
        kwargs = dict(partition=partition, L=[pval(p) for p in P])
        out["d"] = d if d > 1 else 0
    elif cls_name == "NonexpansiveOperator":
        kwargs = {}
        vm = P[0][0]
    else:
        kwargs = {n: pval(p) for n, p in zip(PARAMS[cls_name], P)}
    if cls_name == "NegativelyComonotoneOperator":
        # the class has multi-valued members (every monotone operator is one); its constructor offers reuse_gradient,
        # True by default: the user who wants them declares the operator as multi-valued
        kwargs["reuse_gradient"] = False
    with contextlib.redirect_stdout(io.StringIO()):       # (the constructors print advice for boundary parameters)
        f = problem.declare_function(cls, **kwargs)
    fid = f.get_name() or "Function_{}".format(f.counter)

    def is_new_leaf(p):
        return p.get_is_leaf() and p.counter is not None and p.counter not in roles

    def adopt_auto_samples():
        """samples the library created by itself (the stationary point of the quadratic class at construction, the
        stationary point ConvexQG / RsiEb add when none was declared): a triplet with an empty gradient at a new
        leaf point is a stationary point, a triplet whose gradient is the point itself a fixed point"""
        for (x, g, v) in f.list_of_points:
            if is_new_leaf(x):
                if g is x:
                    roles[x.counter] = ("fix", None, 0)
                elif sparse_pt(g) == []:
                    roles[x.counter] = ("stat", None, 0)
                else:
                    raise RuntimeError("sample at an unknown leaf point")
                if v.get_is_leaf() and v.counter not in fr:
                    fr[v.counter] = x

    def free_point():
        x = Point()
        roles[x.counter] = ("free", None, 0)
        return x

    def sample(func, x, role):
        g, v = func.oracle(x)
        if is_new_leaf(g):
            roles[g.counter] = (role, x, 0)
        # (a gradient that is not a new leaf - a stored one, zero, the point itself, or a combination - is judged by its
        #  meaning: MembersTrace.SampleBad compares it with the member's (sub)gradients at that point)
        if v.get_is_leaf() and v.counter not in fr:
            fr[v.counter] = x
        return g

    X, Gd = {}, {}
    events = []       # what each public call returned: the point, the (sub)gradient, the value, and whether the gradient is a NEW leaf

    def note(kind, func, x, g, v, fresh):
        events.append((kind, x, g, v, 1 if fresh else 0, 1 if func is f else 0))

    _sample0 = sample

    def sample(func, x, role):
        before = Point.counter
        g = _sample0(func, x, role)
        rec = [t for t in func.list_of_points if t[1] is g]
        v = rec[-1][2] if rec else None
        note("oracle", func, x, g, v, g.get_is_leaf() and g.counter is not None and g.counter >= before)
        return g
    try:
        adopt_auto_samples()
        if vm == 1:
            v = Point()
            roles[v.counter] = ("v", None, 0)
            f.v = v
        elif vm == 2:                 # as in examples/fixed_point_problems/inconsistent_halpern_iteration.py
            xs = Point()
            roles[xs.counter] = ("att", None, 0)
            f.v = xs - sample(f, xs, "grad")
        for k, ev in enumerate(hist, start=1):
            e, i, j = ev["e"], ev["i"], ev["j"]
            if e == "O":
                x = free_point()
                g = sample(f, x, "grad")
            elif e == "S":
                x, g, v = f.stationary_point(return_gradient_and_function_value=True)
                if is_new_leaf(x):
                    if sparse_pt(g) != []:
                        raise RuntimeError("stationary_point() returned a non-zero gradient")
                    roles[x.counter] = ("stat", None, 0)
                if v.get_is_leaf() and v.counter not in fr:
                    fr[v.counter] = x
                note("stat", f, x, g, v, False)
            elif e == "X":
                x, g, v = f.fixed_point()
                if is_new_leaf(x):
                    if g is not x:
                        raise RuntimeError("fixed_point() returned g != x")
                    roles[x.counter] = ("fix", None, 0)
                if v.get_is_leaf() and v.counter not in fr:
                    fr[v.counter] = x
            elif e == "R":
                x = X[i]
                g = sample(f, x, "grad")
            elif e == "C":
                x = (X[i] + X[j]) / 2
                g = sample(f, x, "grad")
            elif e == "G":
                x = X[i] - Gd[i] / 2
                g = sample(f, x, "grad")
            elif e == "D":
                x = 2 * X[i]
                g = sample(f, x, "grad")
            elif e == "B":
                x = X[i] - partition.get_block(Gd[i], j) / 2
                g = sample(f, x, "grad")
            elif e == "T":
                x = free_point()
                g = sample(f.T, x, "gradT")
            elif e == "U":
                x = Gd[i]
                g = sample(f.T, x, "gradT")
            elif e == "W":
                x = Gd[i]
                g = sample(f, x, "grad")
            else:
                raise KeyError(e)
            X[k], Gd[k] = x, g
        f.set_class_constraints()
        if partition is not None:
            partition.add_partition_constraints()
    except (RuntimeError, KeyError):
        raise
    except Exception as ex:           # raised by a PEPit call: an observation, no constraints to judge
        out["exc"] = type(ex).__name__
        out.update(NP=0, NE=0, roles=[], fr=[], cons=[], lmis=[], nsamples=0, events=[])
        return out
    adopt_auto_samples()
    if partition is not None:
        for p, blocks in partition.blocks_dict.items():
            for b, bp in enumerate(blocks):
                if is_new_leaf(bp):
                    roles[bp.counter] = ("blk", p, b + 1)
    NP, NE = Point.counter, Expression.counter
    missing = [k for k in range(NP) if k not in roles] + [-k - 1 for k in range(NE) if k not in fr]
    if missing:
        raise RuntimeError("leaves without a role: %r (class %s, history %s)" % (missing, cls_name, out["hist"]))
    out["NP"], out["NE"] = NP, NE
    out["roles"] = [dict(t=roles[k][0], x=sparse_pt(roles[k][1]) if roles[k][1] is not None else [], b=roles[k][2])
                    for k in range(NP)]
    out["fr"] = [sparse_pt(fr[k]) for k in range(NE)]
    cons = []
    for c in f.list_of_class_constraints:
        nm = c.get_name()
        if nm is None:
            nm = "unnamed_%s" % ("equality" if proj.sense(c) == "eq" else "inequality")
        else:
            m = re.match(r"IC_%s_(.+?)\(" % re.escape(fid), nm)
            nm = m.group(1) if m else nm
        rec = sparse_ex(c.expression, NP, NE)
        rec.update(nm=nm, s=proj.sense(c))
        cons.append(rec)
    if partition is not None:
        for c in partition.list_of_constraints:
            rec = sparse_ex(c.expression, NP, NE)
            rec.update(nm="partition_orthogonality", s=proj.sense(c))
            cons.append(rec)
    lmis = []
    for l, psd in enumerate(f.list_of_class_psd):
        n = psd.shape[0]
        if n == 0:
            continue
        lmis.append(dict(nm="lmi%d" % l, n=n, E=[sparse_ex(psd[i, j], NP, NE) for i in range(n) for j in range(n)]))
    out["cons"], out["lmis"] = cons, lmis
    out["events"] = [dict(k=k, x=sparse_pt(x), g=sparse_pt(g), v=sparse_ex(v, NP, NE) if v is not None else dict(F=[], G=[], c=[0, 1]),
                          hasv=1 if v is not None else 0, fresh=fresh, own=own)
                     for (k, x, g, v, fresh, own) in events]
    out["nsamples"] = len(f.list_of_points) + (len(f.T.list_of_points) if cls_name == "LinearOperator" else 0)
    return out
