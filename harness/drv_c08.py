"""C08 driver: replay a program of primitive-step calls (behaviours of spec/Steps.tla) on the real steps.

Every program starts with PEP(), declares the fixed function table of spec/Steps.tla (FT) and two leaf points.
After EACH call the delta of the observable state is recorded:
  returned tuple, new samples per function (index in FT), new function-level constraints per function,
  the leaf counters.
Objects are snapshotted right after the call as sparse normal forms (read from decomposition_dict only);
the common dense dimension of a trace (dp, de) is fixed at the end.
"""
import warnings
from fractions import Fraction
import proj

NF = 8
# function table (must agree with FT of spec/Steps.tla): index -> is composite
COMPOSITE = {1: 0, 2: 0, 3: 0, 4: 0, 5: 0, 6: 1, 7: 1, 8: 1}


def ubound(c):
    """upper bound on the number of fresh leaf points / expressions of one call (dimension only, no semantics)"""
    cf = COMPOSITE.get(c["f"], 0)
    ch = COMPOSITE.get(c["h"], 0)
    s, o = c["step"], c["opt"]
    if s == "proximal_step": return 1 + cf, 1 + cf
    if s == "inexact_gradient_step": return 2 + cf, 1 + cf
    if s == "inexact_proximal_step":
        return {"PD_gapI": (4 + 2 * cf, 3 + 2 * cf), "PD_gapII": (2 + cf, 2 + cf)}.get(o, (3 + 2 * cf, 3 + 2 * cf))
    if s == "exact_linesearch_step": return 2 + cf, 1 + cf
    if s == "bregman_gradient_step": return 1 + ch, 1 + ch
    if s == "bregman_proximal_step": return 2 + cf + ch, 2 + cf + ch
    if s == "linear_optimization_step": return 1 + cf, 1 + cf
    if s == "epsilon_subgradient_step": return 3 + 2 * cf, 3 + 2 * cf
    raise KeyError(s)


# ------------------------------------------------------------------------------ sparse normal forms

def sp_point(p):
    from PEPit.point import Point
    acc = {}
    for k, w in p.decomposition_dict.items():
        if not isinstance(k, Point) or not k.get_is_leaf():
            raise proj.Inexact("point key is not a leaf point")
        acc[k.counter] = acc.get(k.counter, Fraction(0)) + proj.rat(w)
    return {k: v for k, v in acc.items() if v != 0}


def sp_expr(e):
    from PEPit.expression import Expression
    F, G, c = {}, {}, Fraction(0)
    for k, w in e.decomposition_dict.items():
        w = proj.rat(w)
        if isinstance(k, Expression):
            if not k.get_is_leaf():
                raise proj.Inexact("expression key is not a leaf")
            F[k.counter] = F.get(k.counter, Fraction(0)) + w
        elif isinstance(k, tuple):
            i, j = sorted((k[0].counter, k[1].counter))
            if not (k[0].get_is_leaf() and k[1].get_is_leaf()):
                raise proj.Inexact("inner product key is not a pair of leaves")
            G[(i, j)] = G.get((i, j), Fraction(0)) + w
        elif k == 1:
            c += w
        else:
            raise proj.Inexact("unknown key %r" % (k,))
    return ({k: v for k, v in F.items() if v != 0}, {k: v for k, v in G.items() if v != 0}, c)


def j_pt(sp):
    return [[k + 1, v.numerator, v.denominator] for k, v in sorted(sp.items())]


def j_ex(se):
    F, G, c = se
    return dict(F=[[k + 1, v.numerator, v.denominator] for k, v in sorted(F.items())],
                G=[[i + 1, j + 1, v.numerator, v.denominator] for (i, j), v in sorted(G.items())],
                c=[c.numerator, c.denominator])


def j_obj(o):
    from PEPit import Point, Expression
    out = dict(k="other:" + type(o).__name__, p=[], F=[], G=[], c=[0, 1])
    if isinstance(o, Point):
        out.update(k="pt", p=j_pt(sp_point(o)))
    elif isinstance(o, Expression):
        out.update(k="ex", **j_ex(sp_expr(o)))
    return out


def j_sample(t):
    x, g, f = t
    d = dict(x=j_pt(sp_point(x)), g=j_pt(sp_point(g)))
    d.update(j_ex(sp_expr(f)))
    return d


def j_con(c):
    d = dict(s=proj.sense(c))
    d.update(j_ex(sp_expr(c.expression)))
    return d


# ------------------------------------------------------------------------------------------ replay

def scal(n, d, variant):
    if d == 1 and variant == 0:
        return int(n)
    return n / d


def build():
    """PEP(), the function table FT of spec/Steps.tla, the two initial leaf points"""
    from PEPit import PEP, Point
    from PEPit.functions import (SmoothStronglyConvexFunction, SmoothConvexFunction, ConvexFunction,
                                 ConvexIndicatorFunction)
    pep = PEP()
    D1 = pep.declare_function(SmoothStronglyConvexFunction, mu=0.5, L=2.)
    D2 = pep.declare_function(SmoothConvexFunction, L=1.)
    N1 = pep.declare_function(ConvexFunction)
    N2 = pep.declare_function(ConvexIndicatorFunction)
    N3 = pep.declare_function(ConvexIndicatorFunction)
    S = D1 + 2 * N1
    M = D1 + D2 / 2
    K = N2 + 2 * N3
    Zc = (D1 + N1) - N1               # a composite with a cancelled leaf (stored weights {D1: 1, N1: 0})
    funcs = [D1, D2, N1, N2, N3, S, M, K, Zc]
    MAKERS.clear()
    MAKERS.update({6: lambda: D1 + 2 * N1, 7: lambda: D1 + D2 / 2, 8: lambda: N2 + 2 * N3, 9: lambda: (D1 + N1) - N1})
    x0, x1 = Point(), Point()
    return pep, funcs, x0, x1


MAKERS = {}


def registry():
    """the functions the class-level registry still designates (what a solve would collect)"""
    from PEPit import Function
    out = []
    for g in Function.list_of_functions:
        if not isinstance(g, Function) and callable(g):       # a registry of references: what it still designates
            g = g()
        if isinstance(g, Function):
            out.append(g)
    return out


DIRS_CACHE = {}


def call_step(c, funcs, arg, variant, getf=None):
    from PEPit import primitive_steps as ps
    gamma = scal(c["gn"], c["gd"], variant)
    eps = scal(c["en"], c["ed"], variant)
    getf = getf or (lambda i: funcs[i - 1])
    f = getf(c["f"]) if c["f"] else None
    h = getf(c["h"]) if c["h"] else None
    s, o = c["step"], c["opt"]
    if s == "proximal_step":
        return ps.proximal_step(arg(c["a"]), f, gamma)
    if s == "inexact_gradient_step":
        return ps.inexact_gradient_step(arg(c["a"]), f, gamma, eps, notion=o)
    if s == "inexact_proximal_step":
        return ps.inexact_proximal_step(arg(c["a"]), f, gamma, opt=o)
    if s == "exact_linesearch_step":
        # a user keeps ONE list of directions and passes it to every line search: the same list object whenever the
        # directions are the same objects ("R1"/"R2" designate other points after every call that returns a tuple)
        objs = [arg(d) for d in c["dirs"]]
        key = tuple(id(o) for o in objs)
        if key not in DIRS_CACHE:
            DIRS_CACHE[key] = objs            # (keeps the objects alive: their ids are not reused)
        return ps.exact_linesearch_step(arg(c["a"]), f, DIRS_CACHE[key])
    if s == "bregman_gradient_step":
        return ps.bregman_gradient_step(arg(c["b"]), arg(c["a"]), h, gamma)
    if s == "bregman_proximal_step":
        return ps.bregman_proximal_step(arg(c["a"]), h, f, gamma)
    if s == "linear_optimization_step":
        return ps.linear_optimization_step(arg(c["a"]), f)
    if s == "epsilon_subgradient_step":
        return ps.epsilon_subgradient_step(arg(c["a"]), f, gamma)
    raise KeyError(s)


def run(item):
    """variant 0: integer scalars; 1: float scalars; 2: float scalars and every composite function is formed where it
    is needed (step(x, D1 + 2 * N1, ...)) and not kept by the caller, as the library's own examples do"""
    import gc, weakref
    from PEPit import Point, Expression
    warnings.simplefilter("ignore")
    variant = item.get("variant", 0)
    fly = variant == 2
    DIRS_CACHE.clear()
    pep, funcs, x0, x1 = build()
    last = []
    made = []                            # [index in FT, weak reference, samples seen, constraints seen]

    def getf(i):
        if fly and i in MAKERS:
            g = MAKERS[i]()
            made.append([i, weakref.ref(g), 0, 0])
            return g
        return funcs[i - 1]

    def arg(shape):
        if shape == "L1": return x0
        if shape == "L2": return x1
        if shape == "CB": return x0 - x1 / 2
        if shape == "R1": return last[0]
        if shape == "R2": return last[1]
        raise KeyError(shape)

    deltas = []
    dp, de = Point.counter, Expression.counter
    init = dict(np=Point.counter, ne=Expression.counter)
    ns_len = [len(f.list_of_points) for f in funcs]
    nc_len = [len(f.list_of_constraints) for f in funcs]
    for c in item["h"]:
        ub = ubound(c)
        dp = max(dp, Point.counter + ub[0])
        de = max(de, Expression.counter + ub[1])
        exc, ret = "", ()
        try:
            ret = call_step(c, funcs, arg, variant, getf)
        except Exception as e:          # the outcome of a PEPit call IS the observation
            exc = type(e).__name__
        if not isinstance(ret, tuple):
            ret = (ret,)
        d = dict(exc=exc, ret=[j_obj(o) for o in ret], np=Point.counter, ne=Expression.counter, ns=[], nc=[])
        if fly:
            gc.collect()
        reg = registry()
        mine = []
        for i, f in enumerate(funcs):
            pts, cons = f.list_of_points[ns_len[i]:], f.list_of_constraints[nc_len[i]:]
            ns_len[i] = len(f.list_of_points)
            nc_len[i] = len(f.list_of_constraints)
            for m in made:                # composites formed in the calls: what the registry still holds of them
                g = m[1]()
                if m[0] == i + 1 and g is not None and any(g is r for r in reg):
                    mine.append(g)
                    pts, cons = pts + g.list_of_points[m[2]:], cons + g.list_of_constraints[m[3]:]
                    m[2], m[3] = len(g.list_of_points), len(g.list_of_constraints)
            d["ns"].append([j_sample(t) for t in pts])
            d["nc"].append([j_con(k) for k in cons])
        # samples / constraints recorded on Function objects outside the table (must stay empty)
        stray = 0
        for g in reg:
            if not any(g is f for f in funcs) and not any(g is f for f in mine):
                stray += len(g.list_of_points) + len(g.list_of_constraints)
        d["stray"] = stray
        deltas.append(d)
        if exc == "" and len(ret) >= 2:
            last = list(ret)
        dp = max(dp, Point.counter)
        de = max(de, Expression.counter)
    return dict(h=item["h"], variant=variant, init=init, dp=dp, de=max(de, 1), d=deltas)
